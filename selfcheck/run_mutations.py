#!/venv/bin/python
"""Self-validation: apply each catalogued mutation to a scratch copy of /repo/pyanalyze and run the named checks
against it (VERIF_REPO=<copy>). A mutation is 'caught' when a check exits 1 with a VIOLATION line.
usage: selfcheck/run_mutations.py [--only M01,M05] [--tier quick] [--props C05,C07]
Results are appended to selfcheck/results.jsonl. Scratch copies live under $TMPDIR and are removed."""
import argparse, json, os, shutil, subprocess, sys, tempfile, time

HERE = os.path.dirname(os.path.dirname(os.path.abspath(__file__)))
ap = argparse.ArgumentParser()
ap.add_argument("--only")
ap.add_argument("--tier", default="quick")
ap.add_argument("--props")
ap.add_argument("--catalogue", default=os.path.join(HERE, "selfcheck", "catalogue.json"))
args = ap.parse_args()
cat = json.load(open(args.catalogue))
only = set(args.only.split(",")) if args.only else None
for m in cat:
    if only and m["id"] not in only:
        continue
    props = args.props.split(",") if args.props else m["expect"]
    scratch = tempfile.mkdtemp(prefix=f"mut-{m['id']}-")
    try:
        shutil.copytree("/repo/pyanalyze", os.path.join(scratch, "pyanalyze"), ignore=shutil.ignore_patterns("__pycache__"))
        path = os.path.join(scratch, m["file"])
        src = open(path).read()
        if src.count(m["old"]) != 1 and not (m.get("all") and src.count(m["old"]) > 1):
            print(f"{m['id']}: pattern occurs {src.count(m['old'])}x in {m['file']} — skipped")
            continue
        open(path, "w").write(src.replace(m["old"], m["new"]))
        r = subprocess.run(["/venv/bin/python", "-c", "import pyanalyze"], env={**os.environ, "PYTHONPATH": scratch}, capture_output=True, text=True)
        if r.returncode != 0:
            print(f"{m['id']}: mutated tree does not import: {r.stderr[-300:]}")
            continue
        for pid in props:
            t0 = time.time()
            r = subprocess.run([os.path.join(HERE, "check"), pid, "--tier", args.tier], env={**os.environ, "VERIF_REPO": scratch}, capture_output=True, text=True)
            keys = [l.strip()[4:].split(" occurrences")[0] for l in r.stdout.splitlines() if l.strip().startswith("key=")]
            rec = {"mutation": m["id"], "desc": m["desc"], "property": pid, "tier": args.tier, "exit": r.returncode, "caught": r.returncode == 1 and "VIOLATION property=" in r.stdout, "new_keys": keys[:6], "wall_s": round(time.time() - t0, 1)}
            print(json.dumps(rec))
            with open(os.path.join(HERE, "selfcheck", "results.jsonl"), "a") as f:
                f.write(json.dumps(rec) + "\n")
    finally:
        shutil.rmtree(scratch, ignore_errors=True)
