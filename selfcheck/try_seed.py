#!/venv/bin/python
"""Evaluate one independently seeded change (written by a sub-agent that saw only the property text).

usage: selfcheck/try_seed.py <seed-change-dir> <seed-name> --props C05,C07 [--tier quick] [--suite] [--keep]

Steps (all on a scratch copy of /repo's HEAD; /repo itself is never modified):
  1. the patch applies and the tree imports;
  2. demo.py exits 1 with the change and 0 without it;
  3. (--suite) the pinned test-suite still passes with the change;
  4. each named check is run with VERIF_REPO=<scratch copy>; caught = exit 1 with a VIOLATION line.
The result is stored as /verif/seeded/<seed-name>/{patch.diff,demo.py,notes.md,meta.json}; the scratch copy is removed.
"""
import argparse
import json
import os
import shutil
import subprocess
import sys
import tempfile
import time

HERE = os.path.dirname(os.path.dirname(os.path.abspath(__file__)))
ap = argparse.ArgumentParser()
ap.add_argument("change_dir")
ap.add_argument("name")
ap.add_argument("--props", required=True)
ap.add_argument("--tier", default="quick")
ap.add_argument("--suite", action="store_true")
ap.add_argument("--breaks", default=None, help="property the change was written to break")
ap.add_argument("--needs", default=None, help="what the change needs in order to manifest (one line)")
args = ap.parse_args()

patch = os.path.join(args.change_dir, "patch.diff")
demo = os.path.join(args.change_dir, "demo.py")
scratch = tempfile.mkdtemp(prefix="tryseed-")
meta = {"name": args.name, "breaks_property": args.breaks or args.props.split(",")[0], "ran": [], "checks": {}}
if args.needs:
    meta["needs"] = args.needs
try:
    subprocess.check_call(f"git -C /repo archive HEAD | tar -x -C {scratch}", shell=True)
    subprocess.check_call(["git", "init", "-q"], cwd=scratch)
    r = subprocess.run(["git", "apply", patch], cwd=scratch, capture_output=True, text=True)
    meta["patch_applies"] = r.returncode == 0
    if r.returncode != 0:
        print("patch does not apply:", r.stderr[-500:])
        sys.exit(2)
    env = {**os.environ, "PYTHONPATH": scratch, "PYTHONDONTWRITEBYTECODE": "1"}
    env.pop("PYANALYZE_VERIF", None)
    r1 = subprocess.run(["/venv/bin/python", demo], cwd=scratch, env=env, capture_output=True, text=True, timeout=600)
    r0 = subprocess.run(["/venv/bin/python", demo], cwd="/repo", env={**env, "PYTHONPATH": "/repo"}, capture_output=True, text=True, timeout=600)
    meta["demo_exit_with_change"] = r1.returncode
    meta["demo_exit_without_change"] = r0.returncode
    meta["demo_output_with_change"] = (r1.stdout + r1.stderr)[-800:]
    meta["ran"].append(f"PYTHONPATH=<scratch with patch> /venv/bin/python demo.py -> exit {r1.returncode}; PYTHONPATH=/repo -> exit {r0.returncode}")
    print(f"demo: with change exit {r1.returncode}, without exit {r0.returncode}")
    if args.suite:
        t0 = time.time()
        r = subprocess.run("/venv/bin/python -m pytest pyanalyze -q -p no:cacheprovider --timeout=900 2>&1 | tail -1", shell=True, cwd=scratch, env=env, capture_output=True, text=True)
        meta["suite_result"] = r.stdout.strip()
        meta["ran"].append(f"pytest pyanalyze -q in the scratch copy with the patch: {r.stdout.strip()} ({time.time() - t0:.0f}s)")
        print("suite:", r.stdout.strip())
    for pid in args.props.split(","):
        t0 = time.time()
        r = subprocess.run([os.path.join(HERE, "check"), pid, "--tier", args.tier], env={**os.environ, "VERIF_REPO": scratch}, capture_output=True, text=True)
        keys = [l.strip()[4:].split(" occurrences")[0] for l in r.stdout.splitlines() if l.strip().startswith("key=")]
        caught = r.returncode == 1 and "VIOLATION property=" in r.stdout
        meta["checks"][pid] = {"tier": args.tier, "exit": r.returncode, "caught": caught, "new_keys": keys[:8], "wall_s": round(time.time() - t0, 1)}
        meta["ran"].append(f"VERIF_REPO=<scratch with patch> ./check {pid} --tier {args.tier} -> exit {r.returncode}")
        print(pid, "caught" if caught else f"NOT caught (exit {r.returncode})", keys[:4])
    out = os.path.join(HERE, "seeded", args.name)
    os.makedirs(out, exist_ok=True)
    shutil.copy(patch, os.path.join(out, "patch.diff"))
    shutil.copy(demo, os.path.join(out, "demo.py"))
    notes = os.path.join(args.change_dir, "notes.md")
    if os.path.exists(notes):
        shutil.copy(notes, os.path.join(out, "notes.md"))
    old = {}
    mp = os.path.join(out, "meta.json")
    if os.path.exists(mp):
        old = json.load(open(mp))
        for k, v in old.get("checks", {}).items():
            meta["checks"].setdefault(k, v)
        if "suite_result" in old and "suite_result" not in meta:
            meta["suite_result"] = old["suite_result"]
        meta["ran"] = old.get("ran", []) + meta["ran"]
        for k in ("needs", "missed_at_first"):
            if k in old and k not in meta:
                meta[k] = old[k]
    json.dump(meta, open(mp, "w"), indent=1)
finally:
    shutil.rmtree(scratch, ignore_errors=True)
