#!/bin/bash
# setup_cmd: offline; nothing is fetched or built — the framework is pure Python run by /venv/bin/python.
set -e
cd "$(dirname "$0")"
mkdir -p evidence replays
PYTHONPATH=/repo:$PWD /venv/bin/python - <<'PY'
import os, pyanalyze
assert os.path.realpath(pyanalyze.__file__).startswith("/repo/"), pyanalyze.__file__
import vp.core, vp.harness
print("setup ok: pyanalyze from", os.path.dirname(pyanalyze.__file__))
PY
