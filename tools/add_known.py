#!/venv/bin/python
"""Development-time helper: list a replayed violation as a known finding.
usage: tools/add_known.py <replay.json> "<why not fixed>"   (never used by the checks at run time)"""
import json, os, sys
HERE = os.path.dirname(os.path.dirname(os.path.abspath(__file__)))
kf_path = os.path.join(HERE, "known_findings.json")
kf = json.load(open(kf_path))
r = json.load(open(sys.argv[1]))
why = sys.argv[2] if len(sys.argv) > 2 else ""
if any(e["property"] == r["property"] and e["key"] == r["key"] for e in kf["findings"]):
    print("already listed:", r["key"]); sys.exit(0)
kf["findings"].append({"property": r["property"], "key": r["key"], "what": r["what"], "witness": r["witness"], "why_not_fixed": why})
json.dump(kf, open(kf_path, "w"), indent=1)
print("listed", r["property"], r["key"])
