#!/venv/bin/python
"""Print the markdown tables of DESIGN.md §9.4 (seeded changes) and §9.5 (own mutations) from the recorded results."""
import glob, json, os
HERE = os.path.dirname(os.path.dirname(os.path.abspath(__file__)))
print("| seeded change | written to break | needs, to manifest | caught by | not caught by | missed at first |")
print("|---|---|---|---|---|---|")
for mp in sorted(glob.glob(os.path.join(HERE, "seeded", "*", "meta.json"))):
    m = json.load(open(mp))
    caught = [f"{p} ({', '.join(v['new_keys'][:1])[:70]})" for p, v in m["checks"].items() if v["caught"]]
    missed = [p for p, v in m["checks"].items() if not v["caught"]]
    needs = m.get("needs", "")
    print(f"| `seeded/{m['name']}` | {m['breaks_property']} | {needs} | {'; '.join(caught) or '—'} | {', '.join(missed) or '—'} | {'yes' if m.get('missed_at_first') else ''} |")
print()
print("| mutation | edit | check | caught | first new key |")
print("|---|---|---|---|---|")
seen = {}
rp = os.path.join(HERE, "selfcheck", "results.jsonl")
if os.path.exists(rp):
    for l in open(rp):
        r = json.loads(l)
        seen[(r["mutation"], r["property"])] = r
for (mid, pid), r in sorted(seen.items()):
    print(f"| {mid} | {r['desc'][:90]} | {pid} | {'yes' if r['caught'] else 'no'} | {(r['new_keys'] or ['—'])[0][:80]} |")
