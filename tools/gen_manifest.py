#!/venv/bin/python
"""Regenerate MANIFEST.json from the property modules that exist (run from /verif)."""
import importlib
import json
import os
import sys

HERE = os.path.dirname(os.path.dirname(os.path.abspath(__file__)))
sys.path[:0] = ["/repo", HERE]
BASELINE = json.load(open("/root/.vp/BASELINE.json"))["cmd"] if os.path.exists("/root/.vp/BASELINE.json") else \
    "cd /repo && /venv/bin/python -m pytest -ra -q -p no:cacheprovider --timeout=900 --continue-on-collection-errors"
BASELINE = BASELINE.replace(" --junitxml=<file>", "")
props = [json.loads(l) for l in open(os.path.join(HERE, "properties.jsonl"))]
TECHNIQUES = {
 "C01": "runtime monitoring: instrumented execution of generated programs under CPython, online membership oracle on every evaluated node, witness minimisation",
 "C02": "runtime monitoring: CPython decides the branch taken for inhabitants of the declared type; membership oracle judges the narrowed type read from the real checker",
 "C03": "runtime monitoring: differential oracle — real is_assignable / checker verdict vs executable membership model over an object universe",
 "C04": "runtime monitoring: real can_assign verdicts judged by a membership oracle over an object universe plus algebraic-law monitors",
 "C05": "runtime monitoring: reference-executor oracle — every generated call is checked by pyanalyze and executed by CPython (exhaustive small signatures x call shapes)",
 "C06": "runtime monitoring: calls checked by pyanalyze then executed; argument membership oracle and result-in-inferred-type monitor",
 "C07": "runtime monitoring: accepted callable pairs are executed on every call shape the expected signature binds (CPython as oracle)",
 "C08": "runtime monitoring: differential check of reveal_type/diagnostics against a 40-line reference resolver of the documented algorithm",
 "C09": "runtime monitoring with fault enumeration: all decision/failpoint schedules of instrumented skeletons are executed; observed reaching definitions bound the checker's answer from both sides",
 "C10": "runtime monitoring: differential observation of rendered diagnostics under perturbed hash seeds, heap layouts, repetition, check histories and file order",
 "C11": "runtime monitoring: set-algebra oracle over diagnostics of the real checker under every disabling route and ignore-comment placement",
 "C12": "runtime monitoring: grammar fuzzing with crash/internal-error/well-formedness monitors (in-situ contract on show_error), faulthandler and -X dev",
 "C13": "runtime monitoring: commuting-diagram monitor over the real code's three annotation evaluators and two signature builders",
 "C14": "runtime monitoring: algebraic-law monitors on real return values of the value API plus an in-situ contract on unite_values",
 "C15": "runtime monitoring: post-condition monitor on resolve_bounds_map over all permutations of bound multisets, in-situ on generic calls",
 "C16": "runtime monitoring: fix/apply/recheck histories executed; parse, re-report, behavioural equivalence (effect traces) and fixpoint monitors",
 "C17": "runtime monitoring: reference-executor oracle — CPython's formatter evaluates every generated template/argument pair",
 "C18": "runtime monitoring: differential check of the real option lookup against a 15-line reference precedence model over generated config stacks",
 "C19": "runtime monitoring: reference-executor oracle — CPython performs every generated operation on literal operands",
 "C20": "runtime monitoring: differential check against a reference interpreter of the documented evaluation rules plus a metamorphic union law",
}
checks = []
na = []
NA_REASONS = json.load(open(os.path.join(HERE, "tools", "not_applicable.json")))
hook_commits = json.load(open(os.path.join(HERE, "tools", "hook_commits.json")))
CLAIMED = set(json.load(open(os.path.join(HERE, "tools", "claimed.json"))))  # checks reviewed and accepted
for p in props:
    pid = p["id"]
    path = os.path.join(HERE, "vp", "props", f"c{pid[1:]}.py")
    if pid in NA_REASONS or pid not in CLAIMED or not os.path.exists(path):
        na.append({"property_id": pid, "reason": NA_REASONS.get(pid, "check not built yet in this session; not claimed")})
        continue
    mod = importlib.import_module(f"vp.props.c{pid[1:]}")
    checks.append({
        "property_id": pid,
        "quick_cmd": f"./check {pid} --tier quick",
        "thorough_cmd": f"./check {pid} --tier thorough",
        "evidence_file": f"/verif/evidence/{pid}.json",
        "replay_cmd_template": f"./check {pid} --replay {{path}}",
        "engine": "vp",
        "level_claimed": {
            "category": getattr(mod, "LEVEL", "exploration"),
            "text": getattr(mod, "LEVEL_TEXT", None) or (
                "Held on the executions actually produced (never 'verified'): an executable oracle observes the real pyanalyze "
                "on a generated, boundary-biased workload; every run reports how many cases it explored, how many were distinct and "
                "non-trivial, what the monitors saw, and exits inconclusive when a monitor was not reached. Workload: " + " ".join(mod.RULE.split())),
            "design_ref": f"DESIGN.md §3 {pid}",
        },
        "level_note": "; ".join(getattr(mod, "ASSUMPTIONS", [])),
        "technique": TECHNIQUES.get(pid) or getattr(mod, "TECHNIQUE", "runtime monitoring: generated workload executed against the real code, judged by an executable oracle"),
    })
manifest = {
    "version": 1,
    "setup_cmd": "./setup.sh",
    "hooks": {
        "guard": "PYANALYZE_VERIF",
        "enable": "the checks set PYANALYZE_VERIF=1 in the environment of every worker; pyanalyze is imported from /repo's working tree (PYTHONPATH=/repo, asserted by vp/harness.py). With the variable unset no hook in /repo is active.",
        "baseline_off_cmd": BASELINE,
        "source_commits": hook_commits,
        "add_only": True,
    },
    "engines": [{
        "name": "vp",
        "path": "/verif/vp",
        "serves_properties": [c["property_id"] for c in checks],
        "kind_free_text": "runtime monitoring: sharded worker subprocesses drive the real pyanalyze on generated/hostile workloads; monitors = CPython as reference executor, small executable reference models, in-situ contracts on real functions; offline classification against known_findings.json",
    }],
    "checks": checks,
    "not_applicable": na,
    "notes": "Every check: exit 0 held on everything explored (KNOWN-FINDING lines for listed defects), exit 1 + VIOLATION line for an unlisted violation, exit 2 + INCONCLUSIVE line when a monitor was not reached / coverage floor missed / watchdog fired.",
}
json.dump(manifest, open(os.path.join(HERE, "MANIFEST.json"), "w"), indent=1)
print("checks:", [c["property_id"] for c in checks])
print("not_applicable:", [n["property_id"] for n in na])
