#!/venv/bin/python
"""Regenerate MANIFEST.json from the property modules that exist (run from /verif)."""
import importlib
import json
import os
import sys

HERE = os.path.dirname(os.path.dirname(os.path.abspath(__file__)))
sys.path[:0] = ["/repo", HERE]
BASELINE = json.load(open("/root/.vp/BASELINE.json"))["cmd"] if os.path.exists("/root/.vp/BASELINE.json") else \
    "cd /repo && /venv/bin/python -m pytest -ra -q -p no:cacheprovider --timeout=900 --continue-on-collection-errors"
BASELINE = BASELINE.replace(" --junitxml=<file>", "")
props = [json.loads(l) for l in open(os.path.join(HERE, "properties.jsonl"))]
checks = []
na = []
NA_REASONS = json.load(open(os.path.join(HERE, "tools", "not_applicable.json")))
hook_commits = json.load(open(os.path.join(HERE, "tools", "hook_commits.json")))
CLAIMED = set(json.load(open(os.path.join(HERE, "tools", "claimed.json"))))  # checks reviewed and accepted
for p in props:
    pid = p["id"]
    path = os.path.join(HERE, "vp", "props", f"c{pid[1:]}.py")
    if pid in NA_REASONS or pid not in CLAIMED or not os.path.exists(path):
        na.append({"property_id": pid, "reason": NA_REASONS.get(pid, "check not built yet in this session; not claimed")})
        continue
    mod = importlib.import_module(f"vp.props.c{pid[1:]}")
    checks.append({
        "property_id": pid,
        "quick_cmd": f"./check {pid} --tier quick",
        "thorough_cmd": f"./check {pid} --tier thorough",
        "evidence_file": f"/verif/evidence/{pid}.json",
        "replay_cmd_template": f"./check {pid} --replay {{path}}",
        "engine": "vp",
        "level_claimed": {
            "category": getattr(mod, "LEVEL", "exploration"),
            "text": getattr(mod, "LEVEL_TEXT", mod.RULE),
            "design_ref": f"DESIGN.md §3 {pid}",
        },
        "level_note": "; ".join(getattr(mod, "ASSUMPTIONS", [])),
        "technique": getattr(mod, "TECHNIQUE", "runtime monitoring: generated workload executed against the real code, judged by an executable oracle"),
    })
manifest = {
    "version": 1,
    "setup_cmd": "./setup.sh",
    "hooks": {
        "guard": "PYANALYZE_VERIF",
        "enable": "the checks set PYANALYZE_VERIF=1 in the environment of every worker; pyanalyze is imported from /repo's working tree (PYTHONPATH=/repo, asserted by vp/harness.py). With the variable unset no hook in /repo is active.",
        "baseline_off_cmd": BASELINE,
        "source_commits": hook_commits,
        "add_only": True,
    },
    "engines": [{
        "name": "vp",
        "path": "/verif/vp",
        "serves_properties": [c["property_id"] for c in checks],
        "kind_free_text": "runtime monitoring: sharded worker subprocesses drive the real pyanalyze on generated/hostile workloads; monitors = CPython as reference executor, small executable reference models, in-situ contracts on real functions; offline classification against known_findings.json",
    }],
    "checks": checks,
    "not_applicable": na,
    "notes": "Every check: exit 0 held on everything explored (KNOWN-FINDING lines for listed defects), exit 1 + VIOLATION line for an unlisted violation, exit 2 + INCONCLUSIVE line when a monitor was not reached / coverage floor missed / watchdog fired.",
}
json.dump(manifest, open(os.path.join(HERE, "MANIFEST.json"), "w"), indent=1)
print("checks:", [c["property_id"] for c in checks])
print("not_applicable:", [n["property_id"] for n in na])
