#!/venv/bin/python
"""Development-time helper: move a listed finding to the `fixed:` list once its repair is committed in /repo.
usage: tools/mark_fixed.py <PROP> <exact key> <substring of the fix commit's subject>"""
import json, os, subprocess, sys
HERE = os.path.dirname(os.path.dirname(os.path.abspath(__file__)))
kf_path = os.path.join(HERE, "known_findings.json")
kf = json.load(open(kf_path))
prop, key, subj = sys.argv[1:4]
log = subprocess.check_output(["git", "-C", "/repo", "log", "--format=%h %s"], text=True).splitlines()
hits = [l for l in log if subj in l]
assert len(hits) == 1, hits
sha = hits[0].split()[0]
found = [e for e in kf["findings"] if e["property"] == prop and e["key"] == key]
assert found, f"not listed: {prop} {key}"
for e in found:
    kf["findings"].remove(e)
    what = e["what"].split("\n")[0][:400]
    kf["fixed"].append(f"fixed: property={prop} {sha} {what} (key {key})")
json.dump(kf, open(kf_path, "w"), indent=1)
print("fixed:", prop, key, sha)
