#!/bin/bash
# runs the pinned baseline suite on /repo (or $1) with the verification guard OFF; prints summary
R="${1:-/repo}"
cd "$R" && env -u PYANALYZE_VERIF /venv/bin/python -m pytest -ra -q -p no:cacheprovider --timeout=900 --continue-on-collection-errors 2>&1 | tail -8
