#!/bin/bash
# development-time helper: run checks over several seeds and print one line per run plus every new key.
# usage: tools/sweep.sh <tier> "<ids>" "<seeds>"
cd "$(dirname "$0")/.."
tier="$1"; ids="$2"; seeds="$3"
for s in $seeds; do
  for id in $ids; do
    out=$(./check "$id" --tier "$tier" --seed "$s" 2>&1); rc=$?
    echo "== $id seed=$s tier=$tier exit=$rc :: $(echo "$out" | grep "^$id tier=" | cut -c1-160)"
    echo "$out" | grep -A2 "^VIOLATION" | cut -c1-700
    echo "$out" | grep "INCONCLUSIVE\|floor" | head -3
  done
done
