"""C09 helpers: statement skeletons, their renderings, the decision-vector explorer and the
independent CFG reaching-definitions cross-check.

A skeleton is a nested tuple tree over ONE variable `v`:

    simple:    ("asg",) ("use",) ("break",) ("continue",) ("return",) ("raise",) ("boom",)
               ("gdef",) ("gcall",)      nested `def g(): use(v)` / call of it
               ("hdef",) ("hcall",)      nested `def h(): nonlocal v; v = <lit>` / call of it
    compound:  ("if", body, orelse)  ("while", body, orelse)  ("wtrue", body)  ("for", body, orelse[, iterable kind])
               ("try", body, handler|None, orelse, finalbody)   ("with", "S"|"N", body)

The iterable of a `for` is `it()` (a call returning a list of unknown length) unless a kind from ITER_MEMBERS is
given: a literal of statically known length written in the header, or a name bound in the two arms of an
`if c():` right before the loop to two such members (the iterable is then inferred as their union).

plus a mode ("local" | "global": the function starts with `global v`, the module has `v = 0`).
Literals are numbered 1.. in pre-order over assignments (asg and hdef); use sites 0.. in pre-order over
uses (use and gdef).  Blocks are tuples of statements.
"""
from __future__ import annotations

import random
from functools import lru_cache
from itertools import chain

# iterable kind -> its members: "2"/"1"/"0" = literal tuple with that many elements, "?" = it() (unknown length)
ITER_MEMBERS = {"T": ("2",), "Z": ("0",), "S": ("s",), "TP": ("2", "?"), "ZT": ("0", "2"),
                "ZP": ("0", "?"), "TT": ("2", "1")}
MEMBER_SRC = {"2": "(7, 8)", "1": "(9,)", "0": "()", "?": "it()", "s": '"ab"'}
MEMBER_LEN = {"2": 2, "1": 1, "0": 0, "s": 2}  # "?" is absent: unknown


def iter_kind(s):
    """Iterable kind of a `for` statement (None = the default `it()` call in the header)."""
    return s[3] if len(s) > 3 else None


def iter_names(body):
    """{path of a `for` whose iterable is a union: name of the variable that holds it}."""
    out = {}
    for p, s in walk(body):
        if s[0] == "for" and iter_kind(s) and len(ITER_MEMBERS[iter_kind(s)]) > 1:
            out[p] = f"w{len(out) + 1}"
    return out


SIMPLE = ("asg", "use", "break", "continue", "return", "raise", "boom", "gdef", "gcall", "hdef", "hcall")
TERMINATORS = ("break", "continue", "return", "raise")
UNB = "U"

# ---------------------------------------------------------------------------
# structure helpers


def blocks_of(s):
    """[(role, block)] of a compound statement, in source order."""
    k = s[0]
    if k == "if":
        return [("if-body", s[1]), ("if-else", s[2])]
    if k == "while":
        return [("while-body", s[1]), ("while-else", s[2])]
    if k == "wtrue":
        return [("wtrue-body", s[1])]
    if k == "for":
        return [("for-body", s[1]), ("for-else", s[2])]
    if k == "try":
        out = [("try-body", s[1])]
        if s[2] is not None:
            out.append(("except", s[2]))
        out += [("try-else", s[3]), ("finally", s[4])]
        return out
    if k == "with":
        return [(f"with{s[1]}-body", s[2])]
    return []


def rebuild(s, new_blocks):
    """Inverse of blocks_of: same statement with replaced blocks (list in blocks_of order)."""
    k = s[0]
    nb = [tuple(b) for b in new_blocks]
    if k in ("if", "while", "for"):
        return (k, nb[0], nb[1]) + tuple(s[3:])
    if k == "wtrue":
        return (k, nb[0])
    if k == "try":
        if s[2] is not None:
            return (k, nb[0], nb[1], nb[2], nb[3])
        return (k, nb[0], None, nb[1], nb[2])
    if k == "with":
        return (k, s[1], nb[0])
    return s


def walk(block, role="top", path=()):
    """Pre-order: yields (path, stmt) with path = ((role, idx), ...)."""
    for i, s in enumerate(block):
        p = path + ((role, i),)
        yield p, s
        for r, b in blocks_of(s):
            yield from walk(b, r, p)


def size(block) -> int:
    return sum(1 for _ in walk(block))


def depth(block) -> int:
    return max((len(p) for p, _ in walk(block)), default=0)


def loop_nesting(block) -> int:
    """Largest number of loop bodies around a statement."""
    return max((sum(1 for r, _ in p if r in ("while-body", "for-body", "wtrue-body")) for p, _ in walk(block)),
               default=0)


def nest_shape(block) -> str:
    """Constructs along the deepest path (evidence histogram), e.g. if>wtrue>for."""
    p = max((p for p, _ in walk(block)), key=len)
    return ">".join(r.split("-")[0] + ("-else" if r.endswith("-else") else "") for r, _ in p[1:])


def number(block):
    """-> (lits: path->literal, sites: path->site index)."""
    lits, sites = {}, {}
    for p, s in walk(block):
        if s[0] in ("asg", "hdef"):
            lits[p] = len(lits) + 1
        elif s[0] in ("use", "gdef"):
            sites[p] = len(sites)
    return lits, sites


def completes(s) -> bool:
    """Can control fall out of the bottom of statement s (liberal reading)?"""
    k = s[0]
    if k in TERMINATORS:
        return False
    if k == "if":
        return block_completes(s[1]) or block_completes(s[2])
    if k == "wtrue":
        return True  # a bound break is required by valid()
    if k in ("while", "for"):
        # leaves through a break, or through the else (which always runs when no break is taken)
        return block_completes(s[2]) or has_bound_break(s[1])
    if k == "try":
        if s[4] and not block_completes(s[4]):
            return False
        ok = block_completes(s[1]) and block_completes(s[3])
        return ok or (s[2] is not None and block_completes(s[2]))
    if k == "with":
        return s[1] == "S" or block_completes(s[2])
    return True


def block_completes(b) -> bool:
    return all(completes(s) for s in b)


def has_bound_break(body) -> bool:
    for s in body:
        if s[0] == "break":
            return True
        if s[0] in ("if", "try", "with"):
            if any(has_bound_break(b) for _, b in blocks_of(s)):
                return True
        elif s[0] in ("while", "for"):
            if has_bound_break(s[2]):  # break in a loop's else belongs to the outer loop
                return True
    return False


def valid(mode: str, body) -> bool:
    """Syntactically valid and safe to execute (not: free of junk)."""
    if not body:
        return False
    n_asg = n_local_asg = 0
    seen_g = seen_h = False
    for p, s in walk(body):
        k = s[0]
        if k == "asg":
            n_asg += 1
            n_local_asg += 1
        elif k in ("gdef", "hdef"):
            if len(p) != 1 or mode != "local":
                return False
            if k == "gdef":
                if seen_g:
                    return False
                seen_g = True
            else:
                if seen_h:
                    return False
                seen_h = True
                n_asg += 1
        elif k == "gcall" and not seen_g:
            return False
        elif k == "hcall" and not seen_h:
            return False
        elif k in ("break", "continue"):
            if not _in_loop(p):
                return False
        elif k == "wtrue" and not has_bound_break(s[1]):
            return False
        elif k == "for" and len(s) > 3 and (len(s) != 4 or s[3] not in ITER_MEMBERS):
            return False
        for r, b in blocks_of(s):
            if not b and r not in ("if-else", "while-else", "for-else", "except", "try-else", "finally"):
                return False
        if k == "try" and s[2] is None and not s[4]:
            return False
        if k == "try" and s[3] and s[2] is None:
            return False
    if seen_h and n_local_asg == 0:
        return False  # `nonlocal v` needs a binding of v in f
    return n_asg > 0


def tidy(body) -> bool:
    """No dead code: nothing follows a statement that cannot complete, and a try has an else only if its
    body can complete.  (The generator guarantees this; minimisation must not drift out of it, or it ends up
    showing what pyanalyze does with unreachable assignments instead of the defect it started from.)"""
    for _, s in walk(body):
        if s[0] == "try" and s[3] and not block_completes(s[1]):
            return False
        for _, b in blocks_of(s):
            if any(not completes(x) for x in b[:-1]):
                return False
    return not any(not completes(x) for x in body[:-1])


def _in_loop(path) -> bool:
    """Is the statement at `path` inside a loop body (or a loop's else that sits in an outer loop body)?"""
    roles = [r for r, _ in path]
    # innermost-first: a loop-else is transparent, a loop body binds
    for r in reversed(roles):
        if r in ("while-body", "for-body", "wtrue-body"):
            return True
    return False


# ---------------------------------------------------------------------------
# protection: which exception kinds raised at a position are intercepted by something


def _prot_after(role, stmt, inherited):
    """Protection (catches_E, catches_O, has_handler) for statements inside block `role` of `stmt`."""
    e, o, h = inherited
    k = stmt[0]
    if k == "try":
        has_fin = bool(stmt[4])
        if role == "try-body":
            if stmt[2] is not None:
                e, h = True, True
            if has_fin:
                e, o = True, True
        elif role in ("except", "try-else"):
            if has_fin:
                e, o = True, True
        # finally: only the inherited protection
    elif k == "with" and stmt[1] == "S":
        e, o = True, True
    return (e, o, h)


def nraise(prot) -> int:
    """How many distinct exception outcomes are worth enumerating at a position."""
    e, o, h = prot
    if not e:
        return 0
    return 2 if (o and h) else 1


# ---------------------------------------------------------------------------
# rendering

PRELUDE_PLAIN = '''class E(Exception): pass
def c() -> bool: return True
def it() -> list[int]: return []
def boom() -> None: pass
class CmS:
    def __enter__(self) -> None: pass
    def __exit__(self, *a: object) -> bool: return True
class CmN:
    def __enter__(self) -> None: pass
    def __exit__(self, *a: object) -> None: pass
'''


def render_plain(mode, body, name="f", use="reveal_type(v)"):
    """-> (lines, {relative line index (0-based within lines): site})."""
    lits, sites = number(body)
    lines = [f"def {name}():"]
    site_line = {}
    if mode == "global":
        lines.append("    global v")
    wname = iter_names(body)

    def for_head(s, p, pad):
        kind = iter_kind(s)
        if kind is None:
            return "for _ in it():"
        if p in wname:  # bound right before the loop, so that every entry of the loop is a fresh choice
            a, b = (MEMBER_SRC[m] for m in ITER_MEMBERS[kind])
            lines.extend([f"{pad}if c():", f"{pad}    {wname[p]} = {a}", f"{pad}else:", f"{pad}    {wname[p]} = {b}"])
            return f"for _ in {wname[p]}:"
        return f"for _ in {MEMBER_SRC[ITER_MEMBERS[kind][0]]}:"

    def block(b, role, path, ind):
        pad = "    " * ind
        if not b:
            lines.append(pad + "pass")
            return
        for i, s in enumerate(b):
            p = path + ((role, i),)
            k = s[0]
            if k == "asg":
                lines.append(f"{pad}v = {lits[p]}")
            elif k == "use":
                site_line[len(lines)] = sites[p]
                lines.append(pad + use)
            elif k in ("break", "continue", "return"):
                lines.append(pad + k)
            elif k == "raise":
                lines.append(pad + "raise E()")
            elif k == "boom":
                lines.append(pad + "boom()")
            elif k == "gdef":
                lines.append(pad + "def g():")
                site_line[len(lines)] = sites[p]
                lines.append(pad + "    " + use)
            elif k == "gcall":
                lines.append(pad + "g()")
            elif k == "hdef":
                lines.extend([pad + "def h():", pad + "    nonlocal v", f"{pad}    v = {lits[p]}"])
            elif k == "hcall":
                lines.append(pad + "h()")
            elif k == "if":
                lines.append(pad + "if c():")
                block(s[1], "if-body", p, ind + 1)
                if s[2]:
                    lines.append(pad + "else:")
                    block(s[2], "if-else", p, ind + 1)
            elif k in ("while", "for", "wtrue"):
                head = for_head(s, p, pad) if k == "for" else {"while": "while c():", "wtrue": "while True:"}[k]
                lines.append(pad + head)
                block(s[1], f"{k}-body", p, ind + 1)
                if k != "wtrue" and s[2]:
                    lines.append(pad + "else:")
                    block(s[2], f"{k}-else", p, ind + 1)
            elif k == "try":
                lines.append(pad + "try:")
                block(s[1], "try-body", p, ind + 1)
                if s[2] is not None:
                    lines.append(pad + "except E:")
                    block(s[2], "except", p, ind + 1)
                if s[3]:
                    lines.append(pad + "else:")
                    block(s[3], "try-else", p, ind + 1)
                if s[4]:
                    lines.append(pad + "finally:")
                    block(s[4], "finally", p, ind + 1)
            elif k == "with":
                lines.append(f"{pad}with Cm{s[1]}():")
                block(s[2], f"with{s[1]}-body", p, ind + 1)
            else:
                raise ValueError(k)

    block(body, "top", (), 1)
    return lines, site_line


def source_text(mode, body) -> str:
    return "\n".join(render_plain(mode, body, use="use(v)")[0])


def render_instr(mode, body, name="f"):
    """The same skeleton with every opaque decision routed through the oracle `D`.

    Failpoints `D.fp(n)` are always present; the oracle ignores them in the strict space.
    """
    lits, sites = number(body)
    lines = [f"def {name}(D):"]
    if mode == "global":
        lines.append("    global v")
    counter = [0]
    wname = iter_names(body)

    def use_lines(pad, site, n):
        return [pad + "try:", pad + "    _t = v", pad + "except NameError:", pad + "    _t = None",
                f"{pad}D.use({site}, _t, {n})"]

    def block(b, role, path, ind, prot, region_end):
        """region_end: emit a failpoint after the last statement (end of a protected region)."""
        pad = "    " * ind
        n = nraise(prot)
        if not b:
            lines.append(pad + "pass")
        for i, s in enumerate(b):
            p = path + ((role, i),)
            k = s[0]
            if n:
                lines.append(f"{pad}D.fp({n})")
            if k == "asg":
                lines.append(f"{pad}v = {lits[p]}")
            elif k == "use":
                lines.extend(use_lines(pad, sites[p], n))
            elif k in ("break", "continue", "return"):
                lines.append(pad + k)
            elif k == "raise":
                lines.append(pad + "raise E()")
            elif k == "boom":
                lines.append(f"{pad}D.boom({n})")
            elif k == "gdef":
                lines.append(pad + "def g():")
                lines.extend(use_lines(pad + "    ", sites[p], 0))
            elif k == "gcall":
                lines.append(f"{pad}g(); D.boom({n})")
            elif k == "hdef":
                lines.extend([pad + "def h():", pad + "    nonlocal v", f"{pad}    v = {lits[p]}"])
            elif k == "hcall":
                lines.append(pad + "h()")
            elif k == "if":
                lines.append(f"{pad}if D.cond({n}):")
                block(s[1], "if-body", p, ind + 1, prot, False)
                if s[2]:
                    lines.append(pad + "else:")
                    block(s[2], "if-else", p, ind + 1, prot, False)
            elif k in ("while", "for", "wtrue"):
                counter[0] += 1
                cell = f"_n{counter[0]}"
                if k == "while":
                    lines.extend([f"{pad}{cell} = [0]", f"{pad}while D.loop({cell}, {n}):"])
                elif k == "wtrue":
                    lines.extend([f"{pad}{cell} = [0]", f"{pad}while D.wtrue({cell}):"])
                elif iter_kind(s) is None:
                    lines.append(f"{pad}for _ in D.it({n}):")
                elif p in wname:  # `if c(): w = <member> else: w = <member>` right before the loop
                    lines.append(f"{pad}{wname[p]} = D.pick({ITER_MEMBERS[iter_kind(s)]!r}, {n})")
                    lines.append(f"{pad}for _ in D.itm({wname[p]}):")
                else:  # no call in the header: nothing raises there
                    lines.append(f"{pad}for _ in D.itm({ITER_MEMBERS[iter_kind(s)][0]!r}):")
                block(s[1], f"{k}-body", p, ind + 1, prot, False)
                if k != "wtrue" and s[2]:
                    lines.append(pad + "else:")
                    block(s[2], f"{k}-else", p, ind + 1, prot, False)
            elif k == "try":
                lines.append(pad + "try:")
                block(s[1], "try-body", p, ind + 1, _prot_after("try-body", s, prot), True)
                if s[2] is not None:
                    lines.append(pad + "except E:")
                    block(s[2], "except", p, ind + 1, _prot_after("except", s, prot), True)
                if s[3]:
                    lines.append(pad + "else:")
                    block(s[3], "try-else", p, ind + 1, _prot_after("try-else", s, prot), True)
                if s[4]:
                    lines.append(pad + "finally:")
                    block(s[4], "finally", p, ind + 1, prot, False)
            elif k == "with":
                lines.append(f"{pad}with D.cm('{s[1]}', {n}):")
                block(s[2], f"with{s[1]}-body", p, ind + 1, _prot_after("with-body", s, prot), True)
            else:
                raise ValueError(k)
        if region_end and n and (not b or b[-1][0] not in TERMINATORS):
            lines.append(f"{pad}D.fp({n})")

    block(body, "top", (), 1, (False, False, False), False)
    return lines


# ---------------------------------------------------------------------------
# the oracle answering every opaque decision from a decision vector


class Abort(BaseException):
    """Ends a run (`while True` iteration cap reached); passes through every handler."""


class E(Exception):
    pass


class Other(Exception):
    """An exception `except E` does not catch."""


class _Cm:
    def __init__(self, suppress):
        self.suppress = suppress

    def __enter__(self):
        return None

    def __exit__(self, t, e, tb):
        return bool(self.suppress and t is not None and not issubclass(t, Abort))


_CMS, _CMN = _Cm(True), _Cm(False)


class Oracle:
    def __init__(self, L: int, liberal: bool, max_dec: int):
        self.L = L
        self.liberal = liberal
        self.max_dec = max_dec
        self.obs = set()   # observations of real executions
        self.zobs = set()  # observations after an UNBOUND read of the same run (only widen the upper bound)
        self.use_events = 0
        self.reset(())

    def reset(self, prefix):
        self.prefix = prefix
        self.trace = []
        self.dead = False
        self.zombie = False
        self.trunc = False

    def q(self, n):
        if self.dead:
            return 0
        i = len(self.trace)
        if i >= self.max_dec:
            self.trunc = True
            return 0
        ch = self.prefix[i] if i < len(self.prefix) else 0
        self.trace.append((ch, n))
        return ch

    def _raise(self, ch):
        raise (E() if ch == 0 else Other())

    def kill(self):
        self.dead = True
        raise Abort()

    # -- decision points
    def fp(self, n):
        if self.liberal and n:
            ch = self.q(1 + n)
            if ch:
                self._raise(ch - 1)

    def boom(self, n):
        if n:
            ch = self.q(1 + n)
            if ch:
                self._raise(ch - 1)

    def cond(self, n):
        ch = self.q(2 + n)
        if ch >= 2:
            self._raise(ch - 2)
        return ch == 1

    def loop(self, cell, n):
        if self.dead or cell[0] >= self.L:
            return False
        ch = self.q(2 + n)
        if ch >= 2:
            self._raise(ch - 2)
        if ch == 1:
            cell[0] += 1
            return True
        return False

    def wtrue(self, cell):
        if self.liberal:
            return self.loop(cell, 0)
        if self.dead:
            raise Abort()
        if cell[0] >= self.L:
            self.kill()
        cell[0] += 1
        return True

    def it(self, n):
        ch = self.q(2 + n)
        if ch >= 2:
            self._raise(ch - 2)
        return self._gen(ch == 1)

    def _gen(self, first):
        if not first:
            return
        yield 0
        for _ in range(self.L - 1):
            if self.dead or not self.q(2):
                return
            yield 0

    def pick(self, members, n):
        """Which member of a union iterable is bound (the c() that decides may raise).  Liberal space: every
        iterable is of unknown length, and the failpoint before the statement already is that raise."""
        if self.liberal:
            return "?"
        ch = self.q(len(members) + n)
        if ch >= len(members):
            self._raise(ch - len(members))
        return members[ch]

    def itm(self, member):
        """Iterable that is not a call: a literal of known length in the strict space, unknown length otherwise."""
        if self.liberal or member == "?":
            return self._gen(self.q(2) == 1)
        return self._fixed(MEMBER_LEN[member])

    def _fixed(self, k):
        for _ in range(k):
            if self.dead:
                return
            yield 0

    def cm(self, kind, n):
        self.boom(n)
        return _CMS if kind == "S" else _CMN

    def use(self, site, val, n):
        if self.dead:
            return
        self.use_events += 1
        (self.zobs if self.zombie else self.obs).add((site, UNB if val is None else val))
        if val is None:
            # CPython raises NameError here, i.e. takes an exception edge at a non-call.  What follows is
            # not a strict execution any more; it is still a path of the CFG (a reaching-definitions
            # analysis does not stop at a use), so it keeps counting towards the upper bound only.
            self.zombie = True
        self.boom(n)


def compile_instr(mode, body):
    src = "\n".join(render_instr(mode, body)) + "\n"
    ns = {"E": E, "v": 0}
    exec(compile(src, "<c09-instr>", "exec"), ns)
    # global mode, liberal space: f may run after an earlier invocation of itself, so the module variable
    # may hold 0 or any literal f assigns when f is entered
    ns["__entry__"] = [0] + sorted(number(body)[0].values()) if mode == "global" else [0]
    return ns


def explore(ns, L: int, liberal: bool, max_dec: int = 18, max_runs: int = 1 << 14):
    """DFS over the prefix tree of decision vectors. -> (obs, zombie obs, runs, complete?, use_events, errors)."""
    fn = ns["f"]
    entry = ns["__entry__"]
    D = Oracle(L, liberal, max_dec)
    prefix = ()
    runs = 0
    complete = True
    errors = []
    while True:
        D.reset(prefix)
        ns["v"] = entry[D.q(len(entry))] if liberal and len(entry) > 1 else 0
        try:
            fn(D)
        except (Abort, E, Other):
            pass
        except Exception as e:  # noqa: BLE001 - a harness bug, never a verdict
            errors.append(repr(e))
        runs += 1
        if D.trunc:
            complete = False
        tr = D.trace
        i = len(tr) - 1
        while i >= 0 and tr[i][0] + 1 >= tr[i][1]:
            i -= 1
        if i < 0:
            break
        if runs >= max_runs:
            complete = False
            break
        prefix = tuple(c for c, _ in tr[:i]) + (tr[i][0] + 1,)
    return D.obs, D.zobs, runs, complete, D.use_events, errors


# ---------------------------------------------------------------------------
# independent CFG reaching-definitions (cross-check of the harness only)
#
# Abstract state = frozenset of values v may hold (ints, UNB).  Structured dataflow with channels
# n(ormal) b(reak) c(ontinue) r(eturn) E O (raised: caught / not caught by `except E`).
# strict: raise edges at calls only; `while True` has no exit edge.
# liberal: additionally raise edges from the in- and out-state of every statement; every loop may exit.
# Raise edges are put everywhere (not only where something intercepts them) -- uncaught ones just leave.

_EMPTY = frozenset()
CH = ("n", "b", "c", "r", "E", "O")


def cfg_reaching(mode, body, liberal: bool, stop_at_unbound: bool):
    lits, sites = number(body)
    obs = {s: set() for s in sites.values()}
    hlit = [lits[p] for p, s in walk(body) if s[0] == "hdef"]
    gsite = [sites[p] for p, s in walk(body) if s[0] == "gdef"]

    def out(**kw):
        d = dict.fromkeys(CH, _EMPTY)
        d.update(kw)
        return d

    def merge(a, b, skip=()):
        for ch in CH:
            if ch not in skip:
                a[ch] = a[ch] | b[ch]

    def call(st, o):  # a call that either raises or returns
        o["E"] |= st
        o["O"] |= st

    def do_use(site, st, o):
        obs[site] |= st
        if stop_at_unbound:
            st = st - {UNB}  # an unbound read ends the real execution
        call(st, o)
        return st

    def stmt(s, p, st):
        k = s[0]
        o = out()
        if liberal:
            call(st, o)
        if k in ("asg",):
            o["n"] = frozenset([lits[p]])
        elif k == "use":
            o["n"] = do_use(sites[p], st, o)
        elif k == "gcall":
            o["n"] = do_use(gsite[0], st, o)
        elif k == "hcall":
            o["n"] = frozenset([hlit[0]])
        elif k in ("gdef", "hdef"):
            o["n"] = st
        elif k == "boom":
            call(st, o)
            o["n"] = st
        elif k == "break":
            o["b"] = st
        elif k == "continue":
            o["c"] = st
        elif k == "return":
            o["r"] = st
        elif k == "raise":
            o["E"] |= st
        elif k == "if":
            call(st, o)
            merge(o, block(s[1], "if-body", p, st))
            merge(o, block(s[2], "if-else", p, st))
        elif k == "for" and iter_kind(s) is not None and not liberal:
            # strict: a literal iterable runs exactly len() iterations (unless left early); a union is any member
            if len(ITER_MEMBERS[iter_kind(s)]) > 1:
                call(st, o)  # the c() that picks the member
            for m in ITER_MEMBERS[iter_kind(s)]:
                if m == "?":
                    head = st
                    while True:
                        bo = block(s[1], "for-body", p, head)
                        new = head | bo["n"] | bo["c"]
                        if new == head:
                            break
                        head = new
                    merge(o, bo, skip=("n", "b", "c"))
                    o["n"] |= bo["b"]
                else:
                    head = st
                    for _ in range(MEMBER_LEN[m]):
                        if not head:
                            break
                        bo = block(s[1], "for-body", p, head)
                        merge(o, bo, skip=("n", "b", "c"))
                        o["n"] |= bo["b"]
                        head = bo["n"] | bo["c"]
                if head:
                    merge(o, block(s[2], "for-else", p, head))
        elif k in ("while", "for", "wtrue"):
            if k == "for" and iter_kind(s) is None:
                call(st, o)  # it()
            head = st
            while True:
                if k == "while":
                    call(head, o)  # c() in the test
                bo = block(s[1], f"{k}-body", p, head)
                new = head | bo["n"] | bo["c"]
                if new == head:
                    break
                head = new
            merge(o, bo, skip=("n", "b", "c"))
            o["n"] |= bo["b"]
            if k != "wtrue" or liberal:
                eo = block(s[2], f"{k}-else", p, head) if k != "wtrue" else out(n=head)
                merge(o, eo)  # break/continue in the else belong to the outer loop
        elif k == "try":
            bo = block(s[1], "try-body", p, st)
            acc = out()
            merge(acc, bo, skip=("n",) + (("E",) if s[2] is not None else ()))
            if s[2] is not None:
                merge(acc, block(s[2], "except", p, bo["E"]))
            merge(acc, block(s[3], "try-else", p, bo["n"]))
            if s[4]:
                for ch in CH:
                    if acc[ch]:
                        fo = block(s[4], "finally", p, acc[ch])
                        o[ch] |= fo["n"]
                        merge(o, fo, skip=("n",))
            else:
                merge(o, acc)
        elif k == "with":
            call(st, o)  # cm()
            bo = block(s[2], f"with{s[1]}-body", p, st)
            if s[1] == "S":  # raised states continue after the with instead of propagating
                merge(o, bo, skip=("E", "O"))
                o["n"] |= bo["E"] | bo["O"]
            else:
                merge(o, bo)
        else:
            raise ValueError(k)
        if liberal and o["n"]:
            call(o["n"], o)
        return o

    def block(b, role, path, st):
        o = out()
        for i, s in enumerate(b):
            if not st:
                break
            so = stmt(s, path + ((role, i),), st)
            merge(o, so, skip=("n",))
            st = so["n"]
        o["n"] = st
        return o

    if mode == "global":
        entry = frozenset([0] + (sorted(lits.values()) if liberal else []))
    else:
        entry = frozenset([UNB])
    block(body, "top", (), entry)
    return {(s, x) for s, vals in obs.items() for x in vals}


# ---------------------------------------------------------------------------
# generation

COMPOUND_FORMS = (
    ("if", 1, 0), ("if", 1, 1), ("while", 1, 0), ("while", 1, 1), ("wtrue", 1), ("for", 1, 0), ("for", 1, 1),
    ("try", "x"), ("try", "xe"), ("try", "f"), ("try", "xf"), ("try", "xef"), ("with", "S"), ("with", "N"),
)


def _splits(n, k, mins):
    """All ways to write n as an ordered sum of k parts with part i >= mins[i]."""
    if k == 0:
        if n == 0:
            yield ()
        return
    for a in range(mins[0], n - sum(mins[1:]) + 1):
        for rest in _splits(n - a, k - 1, mins[1:]):
            yield (a,) + rest


class Gen:
    """Exhaustive enumeration of junk-free blocks with exactly n statements."""

    def __init__(self, mode: str, max_depth: int, nested: bool, simples=None, forms=None):
        self.mode = mode
        self.max_depth = max_depth
        self.nested = nested and mode == "local"
        self.simples = simples  # restricted vocabulary (None = everything)
        self.forms = forms or COMPOUND_FORMS
        self._memo = {}

    def simple_stmts(self, in_loop, prot, top, is_last, lvl):
        if self.simples is not None:
            return [s for s in Gen.simple_stmts(Gen(self.mode, self.max_depth, self.nested), in_loop, prot, top,
                                                is_last, lvl) if s[0] in self.simples]
        out = [("asg",), ("use",)]
        if in_loop:
            out += [("break",), ("continue",)]
        out += [("return",), ("raise",)]
        if prot:
            out.append(("boom",))
        if self.nested:
            out += [("gcall",), ("hcall",)]
            if top:
                out += [("gdef",), ("hdef",)]
        return out

    def stmts(self, n, lvl, in_loop, prot, top):
        """All single statements of total size n at nesting level lvl (0 = function body)."""
        key = ("s", n, lvl, in_loop, prot, top)
        if key in self._memo:
            return self._memo[key]
        res = []
        if n == 1:
            res = self.simple_stmts(in_loop, prot, top, False, lvl)
        elif lvl < self.max_depth:
            m = n - 1
            nl = lvl + 1
            for form in self.forms:
                k = form[0]
                if k == "if":
                    for a, b in _splits(m, 2, (1, form[2])):
                        if not form[2] and b:
                            continue
                        for x in self.blocks(a, nl, in_loop, prot, False):
                            for y in (self.blocks(b, nl, in_loop, prot, False) if b else [()]):
                                res.append(("if", x, y))
                elif k in ("while", "for"):
                    for a, b in _splits(m, 2, (1, form[2])):
                        if not form[2] and b:
                            continue
                        for x in self.blocks(a, nl, True, prot, False):
                            for y in (self.blocks(b, nl, in_loop, prot, False) if b else [()]):
                                res.append((k, x, y))
                elif k == "wtrue":
                    for x in self.blocks(m, nl, True, prot, False):
                        if has_bound_break(x):
                            res.append(("wtrue", x))
                elif k == "with":
                    p2 = prot or form[1] == "S"
                    for x in self.blocks(m, nl, in_loop, p2, False):
                        res.append(("with", form[1], x))
                elif k == "try":
                    parts = form[1]
                    has_x, has_e, has_f = "x" in parts, "e" in parts, "f" in parts
                    mins = (1,) + ((0,) if has_x else ()) + ((1,) if has_e else ()) + ((1,) if has_f else ())
                    for sp in _splits(m, len(mins), mins):
                        it = iter(sp)
                        nb = next(it)
                        nx = next(it) if has_x else None
                        ne = next(it) if has_e else 0
                        nf = next(it) if has_f else 0
                        fins = self.blocks(nf, nl, in_loop, prot, False) if has_f else [()]
                        pin = prot or has_f
                        for body in self.blocks(nb, nl, in_loop, True, False):
                            if has_e and not block_completes(body):
                                continue
                            hs = [None] if not has_x else (self.blocks(nx, nl, in_loop, pin, False) if nx else [()])
                            es = self.blocks(ne, nl, in_loop, pin, False) if has_e else [()]
                            for h in hs:
                                for e in es:
                                    for f in fins:
                                        res.append(("try", body, h, e, f))
        self._memo[key] = res
        return res

    def blocks(self, n, lvl, in_loop, prot, top):
        """All junk-free blocks with exactly n statements."""
        key = ("b", n, lvl, in_loop, prot, top)
        if key in self._memo:
            return self._memo[key]
        res = []
        if n == 0:
            res = [()]
        else:
            for first in range(1, n + 1):
                for s in self.stmts(first, lvl, in_loop, prot, top):
                    if first == n:
                        res.append((s,))
                        continue
                    if not completes(s):
                        continue  # anything after it is unreachable junk
                    for rest in self.blocks(n - first, lvl, in_loop, prot, top):
                        nxt = rest[0]
                        if s[0] == "use" and nxt[0] == "use":
                            continue  # repeated use
                        if s[0] == "asg" and nxt[0] == "asg" and not prot:
                            continue  # dead store (matters only where a fault may separate the two)
                        res.append((s,) + rest)
        self._memo[key] = res
        return res


def junk_free(mode, body, in_loop=False, top=True) -> bool:
    """Whole-skeleton pruning rules that are not local to a block."""
    if not body:
        return False
    last = body[-1]
    if top and last[0] == "return":
        return False
    kinds = [s[0] for _, s in walk(body)]
    if "use" not in kinds and not ("gdef" in kinds and "gcall" in kinds):
        return False
    if ("gdef" in kinds) != ("gcall" in kinds) or ("hdef" in kinds) != ("hcall" in kinds):
        return False
    for p, s in walk(body):
        if s[0] in ("while", "for", "wtrue"):
            if s[1] and s[1][-1][0] == "continue":
                return False  # trailing continue is a no-op
    # the first thing that touches v must not be everything: need an assignment somewhere
    return valid(mode, body)


def enumerate_skeletons(max_stmts: int, max_depth: int):
    """Deterministic stream of (mode, body), smallest first."""
    for n in range(2, max_stmts + 1):
        for mode in ("local", "global"):
            g = Gen(mode, max_depth, nested=True)
            for body in g.blocks(n, 0, False, False, True):
                if junk_free(mode, body):
                    yield mode, body


_FORM_WEIGHTS = {"if": 3, "while": 3, "wtrue": 4, "for": 3, "try": 1.2, "with": 2}


def random_skeleton(rng: random.Random, n_stmts: int, max_depth: int):
    """One random skeleton with about n_stmts statements (None if the draw was invalid or junk)."""
    mode = "global" if rng.random() < 0.1 else "local"
    want = set()
    if mode == "local" and rng.random() < 0.3:
        want = rng.choice(({"g"}, {"h"}, {"g", "h"}))
    defs = []
    weights = [_FORM_WEIGHTS[f[0]] for f in COMPOUND_FORMS]

    def block(n, lvl, in_loop, prot, top):
        out = []
        while n > 0:
            if top:
                for d in sorted(want - set(defs)):
                    if n > 1 and rng.random() < 0.6:
                        defs.append(d)
                        out.append((d + "def",))
                        n -= 1
            s, used = stmt(n, lvl, in_loop, prot)
            out.append(s)
            n -= used
            if not completes(s):
                break
        return tuple(out)

    def stmt(n, lvl, in_loop, prot):
        if n >= 2 and lvl < max_depth and rng.random() < 0.55:
            form = rng.choices(COMPOUND_FORMS, weights)[0]
            k = form[0]
            m = n - 1
            nl = lvl + 1
            if k in ("if", "while", "for"):
                a = rng.randint(1, m - 1) if form[2] and m >= 2 else m
                x = block(a, nl, in_loop or k != "if", prot, False)
                left = m - size(x)
                y = block(rng.randint(1, left), nl, in_loop, prot, False) if form[2] and left > 0 else ()
                return (k, x, y), 1 + size(x) + size(y)
            if k == "wtrue":
                x = block(m, nl, True, prot, False)
                return ("wtrue", x), 1 + size(x)
            if k == "with":
                x = block(rng.randint(1, m), nl, in_loop, prot or form[1] == "S", False)
                return ("with", form[1], x), 1 + size(x)
            parts = form[1]
            has_x, has_e, has_f = "x" in parts, "e" in parts, "f" in parts
            pin = prot or has_f
            left = m
            body = block(rng.randint(1, max(1, left - has_e - has_f)), nl, in_loop, True, False)
            left -= size(body)
            h = None
            if has_x:
                nh = rng.randint(0, max(0, left - has_e - has_f))
                h = block(nh, nl, in_loop, pin, False) if nh else ()
                left -= size(h)
            e = ()
            if has_e and left - has_f >= 1 and block_completes(body):
                e = block(rng.randint(1, left - has_f), nl, in_loop, pin, False)
                left -= size(e)
            f = ()
            if has_f and left >= 1:
                f = block(rng.randint(1, left), nl, in_loop, prot, False)
            if h is None and not f:
                h = ()
            return ("try", body, h, e, f), 1 + size(body) + size(h or ()) + size(e) + size(f)
        pool = ["asg"] * 4 + ["use"] * 4 + ["return", "raise"]
        if in_loop:
            pool += ["break", "break", "continue", "continue"]
        if prot:
            pool += ["boom", "boom"]
        if "g" in defs:
            pool += ["gcall", "gcall"]
        if "h" in defs:
            pool += ["hcall", "hcall"]
        return (rng.choice(pool),), 1

    body = block(n_stmts, 0, False, False, True)
    if not valid(mode, body) or not junk_free(mode, body):
        return None
    return mode, body


# ---------------------------------------------------------------------------
# targeted families beyond the exhaustive space


def set_iter_kind(body, path, kind):
    """The same skeleton with the iterable kind of the `for` at `path` replaced (None = default)."""

    def go(block, d):
        r, i = path[d]
        s = block[i]
        if d == len(path) - 1:
            ns = s[:3] + ((kind,) if kind else ())
        else:
            nr = path[d + 1][0]
            ns = rebuild(s, [go(b, d + 1) if rr == nr else b for rr, b in blocks_of(s)])
        return tuple(block[:i]) + (ns,) + tuple(block[i + 1:])

    return go(tuple(body), 0)


ITER_SIMPLES = ("asg", "use", "break", "continue", "return")
ITER_FORMS = (("if", 1, 0), ("if", 1, 1), ("for", 1, 0), ("for", 1, 1), ("while", 1, 0), ("wtrue", 1),
              ("try", "x"), ("try", "f"))


def iter_family(max_all: int = 4, max_core: int = 5):
    """Iterable of the `for` as part of the skeleton.  Every junk-free local-mode skeleton with <= max_all
    statements (full vocabulary), and every one with <= max_core statements over the core vocabulary
    (ITER_SIMPLES / ITER_FORMS), that contains a `for`; each `for` in turn gets each kind of ITER_MEMBERS."""
    seen = set()
    for n in range(2, max_core + 1):
        gens = []
        if n <= max_all:
            gens.append(Gen("local", 3, nested=True))
        else:
            gens.append(Gen("local", 3, nested=False, simples=ITER_SIMPLES, forms=ITER_FORMS))
        for g in gens:
            for body in g.blocks(n, 0, False, False, True):
                fors = [p for p, s in walk(body) if s[0] == "for"]
                if not fors or not junk_free("local", body):
                    continue
                for p in fors:
                    for kind in ITER_MEMBERS:
                        b2 = set_iter_kind(body, p, kind)
                        if b2 not in seen:
                            seen.add(b2)
                            yield "local", b2


_LEAF = (("asg",), ("use",), ("break",), ("continue",))


def _leaf_blocks(n, in_loop):
    """Junk-free blocks of exactly n simple statements over asg/use/break/continue."""
    if n == 0:
        return [()]
    out = []
    for rest in _leaf_blocks(n - 1, in_loop):
        for s in _LEAF:
            if s[0] in ("break", "continue") and (not in_loop or rest):
                continue  # only as the last statement (blocks are built back to front)
            if rest and s[0] == rest[0][0]:
                continue  # repeated use / dead store
            out.append((s,) + rest)
    return out


def nest_family(max_leaves: int = 3):
    """Loop nests beyond the depth bound of the exhaustive part: an inner for/while (body and else made of
    asg/use/break/continue, so a break/continue in the inner else acts on the OUTER loop) inside the body of a
    `while True` / while / for (optionally one simple statement before and after the inner loop, and in the
    outer else), the outer loop bare or in an arm of if / if-else / try-except / try-finally / suppressing with /
    another loop, optionally an assignment before and a use after; <= max_leaves simple statements in all
    (one more when the outer loop is `while True`, which must contain a break).
    Only skeletons outside the exhaustive space (> 5 statements or nesting > 3) are produced."""
    seen = set()

    def outer_loops(max_leaves, outers):
        for inner in ("for", "while"):
            for nb in range(1, max_leaves + 1):
                for ne in range(0, max_leaves - nb + 1):
                    for B in _leaf_blocks(nb, True):
                        if B[-1][0] == "continue":
                            continue
                        for EB in _leaf_blocks(ne, True):
                            il = (inner, B, EB)
                            r1 = max_leaves - nb - ne
                            for pre in [()] + ([(("asg",),), (("use",),)] if r1 else []):
                                r2 = r1 - len(pre)
                                posts = [()]
                                if r2 and completes(il):
                                    posts += [b for b in _leaf_blocks(1, True) if b[0][0] != "continue"]
                                for post in posts:
                                    r3 = r2 - len(post)
                                    ob = pre + (il,) + post
                                    if "wtrue" in outers:
                                        yield ("wtrue", ob), r3
                                    for outer in ("while", "for"):
                                        if outer not in outers:
                                            continue
                                        yield (outer, ob, ()), r3
                                        if r3:
                                            yield (outer, ob, (("asg",),)), r3 - 1
                                            yield (outer, ob, (("use",),)), r3 - 1

    def wrapped(ol, r):
        yield (ol,), r
        yield (("if", (ol,), ()),), r
        yield (("try", (ol,), (), (), ()),), r
        yield (("with", "S", (ol,)),), r
        yield (("while", (ol,), ()),), r
        yield (("for", (ol,), ()),), r
        if r:
            for o in ((("asg",),), (("use",),)):
                yield (("if", (ol,), o),), r - 1
                yield (("if", o, (ol,)),), r - 1
                yield (("try", (ol,), o, (), ()),), r - 1
                yield (("try", (ol,), None, (), o),), r - 1

    # the break a `while True` must have takes one of its simple statements: it gets one more
    for ol, r in chain(outer_loops(max_leaves, ("while", "for")), outer_loops(max_leaves + 1, ("wtrue",))):
        if ol[0] == "wtrue" and not has_bound_break(ol[1]):
            continue
        for w, r2 in wrapped(ol, r):
            for pf in [()] + ([(("asg",),)] if r2 else []):
                for sf in [()] + ([(("use",),)] if r2 - len(pf) else []):
                    body = pf + w + sf
                    if body in seen or (size(body) <= 5 and depth(body) <= 3):
                        continue
                    if not valid("local", body) or not tidy(body) or not junk_free("local", body):
                        continue
                    seen.add(body)
                    yield "local", body
