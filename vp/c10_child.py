"""Helper process for C10: check a list of programs in ONE fresh interpreter whose environment (PYTHONHASHSEED,
PYTHONMALLOC, gc state, heap layout) was chosen by the parent; print the renderings as JSON.

stdin : {"junk_import": int, "junk_parse": int, "gc": bool, "junk_seed": int,
         "programs": [{"src": str, "mode": str}], "repeat": int}
stdout: one line  C10RESULT <json>  where json = {"renderings": [[rendering, ...per repeat] ...per program],
                                                   "hashseed": ..., "malloc": ...}
A rendering is a list of [code, lineno, col, message] (module-name tokens normalised) or [["<exception>", ...]].
"""
from __future__ import annotations

import contextlib
import gc
import io
import json
import os
import random
import sys


def make_junk(rng: random.Random, n: int) -> list:
    """n live allocations of assorted size classes (moves every later allocation to other addresses)."""
    out = []
    for _ in range(n):
        k = rng.randrange(6)
        if k == 0:
            out.append(object())
        elif k == 1:
            out.append([None] * rng.randrange(1, 40))
        elif k == 2:
            out.append({"k": rng.random()})
        elif k == 3:
            out.append("s" * rng.randrange(1, 200) + str(rng.random()))
        elif k == 4:
            out.append((rng.random(), rng.random()))
        else:
            out.append(bytearray(rng.randrange(16, 600)))
    # free a random half so that the free lists have holes
    for i in range(0, len(out), 2):
        if rng.random() < 0.5:
            out[i] = None
    return out


_LATE_CODES = ("attribute_is_never_set",)


def render(result) -> list:
    """[code, lineno, col, full message] per diagnostic, in emission order; the diagnostics that the attribute checker
    prints when it is closed (they never reach the visitor's failure list) are taken from the captured stderr."""
    import re

    from vp import harness

    if result.exception is not None:
        e = result.exception
        return [["<exception>", None, None, harness.normalise_text(f"{type(e).__name__}: {str(e)[:300]}")]]
    out = [[d.code, d.lineno, d.col, d.message] for d in result.diags]
    if result.stderr and any(f"(code: {c})" in result.stderr for c in _LATE_CODES):
        for block in result.stderr.split("\n\n"):
            m = re.search(r"\(code: (\w+)\)", block)
            if m and m.group(1) in _LATE_CODES:
                lm = re.search(r"^In .* at line (\d+)", block, re.M)
                out.append([m.group(1), int(lm.group(1)) if lm else None, None, "\n" + harness.normalise_text(block.strip("\n")) + "\n"])
    return out


def main() -> int:
    job = json.loads(sys.stdin.read())
    rng = random.Random(job.get("junk_seed", 0))
    if not job.get("gc", True):
        gc.disable()
    keep = [make_junk(rng, job.get("junk_import", 0))]
    from vp import harness  # imports pyanalyze (asserts it comes from VERIF_REPO)

    out = []
    for prog in job["programs"]:
        rs = []
        for _ in range(job.get("repeat", 1)):
            if job.get("junk_parse", 0):
                keep.append(make_junk(rng, rng.randrange(0, job["junk_parse"] + 1)))
                if len(keep) > 8:
                    del keep[1]
            try:
                with contextlib.redirect_stdout(io.StringIO()):
                    res = harness.run(prog["src"], mode=prog.get("mode", "tests"))
                rs.append(render(res))
            except BaseException as e:  # noqa: BLE001  (import-time failure of the program itself)
                if isinstance(e, (KeyboardInterrupt, SystemExit)):
                    raise
                rs.append([["<import-failed>", None, None, harness.normalise_text(f"{type(e).__name__}: {str(e)[:300]}")]])
        out.append(rs)
    sys.stdout.write(
        "\nC10RESULT "
        + json.dumps({"renderings": out, "hashseed": os.environ.get("PYTHONHASHSEED"), "malloc": os.environ.get("PYTHONMALLOC")})
        + "\n"
    )
    sys.stdout.flush()
    return 0


if __name__ == "__main__":
    sys.exit(main())
