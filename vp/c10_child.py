"""Helper process for C10: check a list of programs in ONE fresh interpreter whose environment (PYTHONHASHSEED,
PYTHONMALLOC, gc state, heap layout) was chosen by the parent; print the renderings as JSON.

stdin : {"junk_import": int, "junk_parse": int, "gc": bool, "junk_seed": int,
         "programs": [{"src": str, "mode": str}], "repeat": int}
stdout: one line  C10RESULT <json>  where json = {"renderings": [[rendering, ...per repeat] ...per program],
                                                   "hashseed": ..., "malloc": ...}
A rendering is a list of [code, lineno, col, message] (module-name tokens normalised) or [["<exception>", ...]].

Isolated groups (history experiments whose leaked state may be the interpreter's own, e.g. sys.modules):
stdin additionally  "groups": [[{"src","mode"}, ...], ...], "probe_modules": [dotted names]
stdout additionally "group_renderings": [[rendering per program] per group], "preloaded": [those probe modules that were
already in sys.modules after importing pyanalyze, before anything was checked].  Every group is checked in its own
image of THIS interpreter, forked after pyanalyze was imported and the (still unused) Checker of each configuration
was built, before any program was checked: all images start from the same state (same hash seed, same heap, same
untouched Checker), so the only thing that differs between the groups [P] and [H, P] is the history.  An entry {"op": "clear-typing-caches"} in a group empties the caches of the
typing module at that point (attribution experiment: state of the interpreter's library, not of pyanalyze).
"""
from __future__ import annotations

import contextlib
import gc
import io
import json
import os
import random
import sys


def make_junk(rng: random.Random, n: int) -> list:
    """n live allocations of assorted size classes (moves every later allocation to other addresses)."""
    out = []
    for _ in range(n):
        k = rng.randrange(6)
        if k == 0:
            out.append(object())
        elif k == 1:
            out.append([None] * rng.randrange(1, 40))
        elif k == 2:
            out.append({"k": rng.random()})
        elif k == 3:
            out.append("s" * rng.randrange(1, 200) + str(rng.random()))
        elif k == 4:
            out.append((rng.random(), rng.random()))
        else:
            out.append(bytearray(rng.randrange(16, 600)))
    # free a random half so that the free lists have holes
    for i in range(0, len(out), 2):
        if rng.random() < 0.5:
            out[i] = None
    return out


_LATE_CODES = ("attribute_is_never_set",)


def render(result) -> list:
    """[code, lineno, col, full message] per diagnostic, in emission order; the diagnostics that the attribute checker
    prints when it is closed (they never reach the visitor's failure list) are taken from the captured stderr."""
    import re

    from vp import harness

    if result.exception is not None:
        e = result.exception
        return [["<exception>", None, None, harness.normalise_text(f"{type(e).__name__}: {str(e)[:300]}")]]
    out = [[d.code, d.lineno, d.col, d.message] for d in result.diags]
    if result.stderr and any(f"(code: {c})" in result.stderr for c in _LATE_CODES):
        for block in result.stderr.split("\n\n"):
            m = re.search(r"\(code: (\w+)\)", block)
            if m and m.group(1) in _LATE_CODES:
                lm = re.search(r"^In .* at line (\d+)", block, re.M)
                out.append([m.group(1), int(lm.group(1)) if lm else None, None, "\n" + harness.normalise_text(block.strip("\n")) + "\n"])
    return out


def clear_typing_caches() -> None:
    """Empty the caches of the typing module (List[X], Union[X, Y], ... return the object made for the first EQUAL
    argument list, and `int | str == str | int`): what CPython's own test-suite does between tests."""
    import typing

    for cleanup in getattr(typing, "_cleanups", []):
        cleanup()


def check_one(prog, harness) -> list:
    if prog.get("op") == "clear-typing-caches":
        clear_typing_caches()
        return [["<op>", None, None, "clear-typing-caches"]]
    try:
        with contextlib.redirect_stdout(io.StringIO()):
            res = harness.run(prog["src"], mode=prog.get("mode", "tests"))
        return render(res)
    except BaseException as e:  # noqa: BLE001  (import-time failure of the program itself)
        if isinstance(e, (KeyboardInterrupt, SystemExit)):
            raise
        return [["<import-failed>", None, None, harness.normalise_text(f"{type(e).__name__}: {str(e)[:300]}")]]


def run_group_forked(group: list, harness):
    """Check the programs of `group`, in order, on one Checker, in a forked image of this interpreter.
    -> list of renderings, or None if the image died."""
    sys.stdout.flush()
    sys.stderr.flush()
    r, w = os.pipe()
    pid = os.fork()
    if pid == 0:
        status = 1
        try:
            os.close(r)
            data = json.dumps([check_one(prog, harness) for prog in group])
            with os.fdopen(w, "w") as f:
                f.write(data)
            status = 0
        finally:
            os._exit(status)
    os.close(w)
    with os.fdopen(r) as f:
        data = f.read()
    _, st = os.waitpid(pid, 0)
    if st != 0 or not data:
        return None
    return json.loads(data)


def main() -> int:
    job = json.loads(sys.stdin.read())
    rng = random.Random(job.get("junk_seed", 0))
    if not job.get("gc", True):
        gc.disable()
    keep = [make_junk(rng, job.get("junk_import", 0))]
    from vp import harness  # imports pyanalyze (asserts it comes from VERIF_REPO)

    probe = [m for m in job.get("probe_modules", []) if m in sys.modules]
    group_out = []
    if job.get("groups"):
        # keep the collector from touching (and thereby copying) the pages shared with the images
        for m in sorted({prog.get("mode", "tests") for group in job["groups"] for prog in group if "src" in prog}):
            harness.constructor_kwargs(m)  # the (unused) Checker of each configuration is built once, before the images split
        gc.collect()
        gc.freeze()
        group_out = [run_group_forked(group, harness) for group in job["groups"]]
        gc.unfreeze()
    out = []
    for prog in job["programs"]:
        rs = []
        for _ in range(job.get("repeat", 1)):
            if job.get("junk_parse", 0):
                keep.append(make_junk(rng, rng.randrange(0, job["junk_parse"] + 1)))
                if len(keep) > 8:
                    del keep[1]
            rs.append(check_one(prog, harness))
        out.append(rs)
    sys.stdout.write(
        "\nC10RESULT "
        + json.dumps({"renderings": out, "hashseed": os.environ.get("PYTHONHASHSEED"), "malloc": os.environ.get("PYTHONMALLOC"),
                      "group_renderings": group_out, "preloaded": probe})
        + "\n"
    )
    sys.stdout.flush()
    return 0


if __name__ == "__main__":
    sys.exit(main())
