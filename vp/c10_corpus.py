"""Corpus for C10 (determinism of diagnostics): programs aimed at every place where pyanalyze iterates a set,
keys a table by id(), or builds a message out of a collection of names.

Every program is importable standalone (bodies that would misbehave are inside never-called functions).
`gen_targeted(rng)` -> (family, source);  `extract_test_snippets()` -> list of (origin, source).
"""
from __future__ import annotations

import ast
import glob
import os
import random
import textwrap

HEADER = (
    "import typing\n"
    "from typing import Any, Dict, List, Literal, Optional, Sequence, Tuple, TypeVar, Union, overload\n"
    "from typing_extensions import NotRequired, Protocol, TypedDict\n"
)

NAMES = ["alpha", "bravo", "charlie", "delta", "echo", "foxtrot", "golf", "hotel", "india", "juliet", "kilo", "lima",
         "mike", "november", "oscar", "papa", "quebec", "romeo", "sierra", "tango", "uniform", "victor", "whiskey", "xray",
         "yankee", "zulu", "a", "b", "c", "d", "k1", "k2", "zz", "yy", "xx", "key", "val"]
TYPES = ["int", "str", "bytes", "float", "bool", "list", "dict", "tuple", "set", "frozenset", "complex", "bytearray"]
LITS = ["1", "2", "3", "10", "255", "-1", "'a'", "'b'", "'xyz'", "''", "b'q'", "b'rs'", "True", "False", "None", "1.5",
        "0", "'left'", "'right'", "42", "7", "'seven'", "100", "'k'"]


def _names(rng: random.Random, n: int) -> list:
    return rng.sample(NAMES, n)


def fam_or_isinstance(rng):
    n = rng.randrange(3, 6)
    ts = rng.sample(TYPES, n + rng.randrange(1, 3))
    ann = "Union[" + ", ".join(ts + ["None"]) + "]"
    tests = []
    for t in ts[:n]:
        r = rng.random()
        if r < 0.75:
            tests.append(f"isinstance(x, {t})")
        elif r < 0.9:
            tests.append(f"type(x) is {t}")
        else:
            tests.append("x is None")
    cond = " or ".join(tests)
    body = [f"def f(x: {ann}, y: {ann}):", f"    if {cond}:", "        reveal_type(x)", "    else:", "        reveal_type(x)"]
    if rng.random() < 0.5:
        body += [f"    if not ({cond}):", "        return", "    reveal_type(x)"]
    if rng.random() < 0.4:
        body += [f"    z = x if ({cond}) else None", "    reveal_type(z)"]
    if rng.random() < 0.4:
        two = " or ".join(f"isinstance({v}, {t})" for v, t in zip("xyxyx", ts[:n]))
        body += [f"    if {two}:", "        reveal_type(x)", "        reveal_type(y)"]
    return "\n".join([HEADER, *body]) + "\n"


def fam_or_literal(rng):
    n = rng.randrange(3, 6)
    lits = rng.sample([l for l in LITS if l not in ("None", "True", "False")], n)
    op = rng.choice(["==", "=="])
    cond = " or ".join(f"x {op} {l}" for l in lits)
    ann = rng.choice(["object", "Union[int, str, bytes, float, None]", "Any"])
    body = [f"def f(x: {ann}):", f"    if {cond}:", "        reveal_type(x)", "    else:", "        reveal_type(x)"]
    if rng.random() < 0.5:
        tup = ", ".join(lits)
        body += [f"    if x in ({tup}):", "        reveal_type(x)"]
    if rng.random() < 0.5:
        body += [f"    while not ({cond}):", "        x = g()", "    reveal_type(x)"]
        body.insert(0, "def g() -> Any: ...")
    return "\n".join([HEADER, *body]) + "\n"


def fam_and_or_mixed(rng):
    ts = rng.sample(TYPES, 5)
    ann = "Union[" + ", ".join(ts + ["None"]) + "]"
    c = [f"isinstance(x, {t})" for t in ts]
    cond = rng.choice([
        f"({c[0]} and flag) or ({c[1]} and flag) or {c[2]}",
        f"not ({c[0]} or {c[1]} or {c[2]} or {c[3]})",
        f"({c[0]} or {c[1]}) and not ({c[1]} or {c[2]})",
        f"{c[0]} or ({c[1]} or ({c[2]} or {c[3]}))",
        f"x is None or {c[0]} or not x",
    ])
    body = [f"def f(x: {ann}, flag: bool):", f"    if {cond}:", "        reveal_type(x)", "    else:", "        reveal_type(x)",
            f"    assert {cond}", "    reveal_type(x)"]
    return "\n".join([HEADER, *body]) + "\n"


def fam_try_assign(rng):
    n = rng.randrange(2, 6)
    vals = rng.sample(LITS, n)
    var = rng.choice(["a", "res", "value"])
    body = ["def g() -> Any: ...", "def f(flag: bool):"]
    pre = rng.random() < 0.5
    if pre:
        body.append(f"    {var} = {rng.choice(LITS)}")
    kind = rng.choice(["try", "try", "with", "tryfinally", "nested"])
    if kind == "with":
        body.append("    with g():")
    else:
        body.append("    try:")
    for v in vals:
        body.append(f"        {var} = {v}")
        if rng.random() < 0.3:
            body.append("        g()")
    if rng.random() < 0.5:
        other = rng.sample(LITS, 3)
        for v in other:
            body.append(f"        other = {v}")
    else:
        other = None
    if kind == "nested":
        body += ["        try:", f"            {var} = {rng.choice(LITS)}", f"            {var} = [g()]", "        except KeyError:", "            pass"]
    if kind == "tryfinally":
        body += ["    except (ValueError, TypeError):", f"        {var} = {rng.choice(LITS)}", "    finally:", "        g()"]
    elif kind != "with":
        body += [f"    except {rng.choice(['Exception', 'ValueError', '(KeyError, OSError)'])}:", "        pass"]
    body.append(f"    reveal_type({var})")
    if other:
        body.append("    reveal_type(other)")
    if rng.random() < 0.4:
        body.append(f"    return {var}")
    return "\n".join([HEADER, *body]) + "\n"


def fam_unused(rng):
    n = rng.randrange(3, 7)
    names = _names(rng, n)
    body = ["def g() -> Any: ...", "def f(p, q):"]
    for nm in names:
        r = rng.random()
        if r < 0.6:
            body.append(f"    {nm} = {rng.choice(LITS)}")
        elif r < 0.75:
            body.append(f"    {nm} = g()")
        elif r < 0.85:
            body.append(f"    for {nm} in range(3): pass")
        else:
            body.append(f"    {nm}: int = 3")
    if rng.random() < 0.4:
        a, b = _names(rng, 2)
        body.append(f"    {a}_u, {b}_u = g()")
    if rng.random() < 0.3:
        body.append(f"    [None for {names[0]}_c in range(3)]")
    if rng.random() < 0.3:
        # several functions: order across functions must be stable, too
        body += ["def f2():", *[f"    {nm}2 = {rng.choice(LITS)}" for nm in names[:3]]]
    return "\n".join([HEADER, *body]) + "\n"


def fam_unexpected_kwargs(rng):
    n = rng.randrange(2, 6)
    kws = _names(rng, n)
    params = rng.choice(["a", "a, b=1", "a, *, keyonly=0", "*args", ""])
    call_pos = "1" if params and not params.startswith("*") else ""
    args = ([call_pos] if call_pos else []) + [f"{k}={rng.choice(LITS)}" for k in kws]
    body = [f"def callee({params}): pass", "class K:", f"    def __init__(self{', ' + params if params else ''}): pass",
            f"    def meth(self{', ' + params if params else ''}): pass", "def f():"]
    body.append(f"    callee({', '.join(args)})")
    if rng.random() < 0.5:
        body.append(f"    K({', '.join(args)})")
    if rng.random() < 0.5:
        body.append(f"    K.meth(K({call_pos}), {', '.join(args)})")
    if rng.random() < 0.4:
        d = ", ".join(f"{k!r}: 1" for k in kws)
        body.append(f"    callee({call_pos + ', ' if call_pos else ''}**{{{d}}})")
    if rng.random() < 0.3:
        body.append(f"    len([], {', '.join(args[1:] or args)})")
        body.append(f"    int({', '.join(args)})")
    return "\n".join([HEADER, *body]) + "\n"


def fam_missing_required(rng):
    n = rng.randrange(2, 6)
    ps = _names(rng, n)
    kind = rng.random()
    if kind < 0.5:
        sig = ", ".join(ps)
    else:
        sig = "*, " + ", ".join(ps)
    body = [f"def callee({sig}): pass", "def f():", "    callee()", f"    callee({ps[0]}=1)"]
    return "\n".join([HEADER, *body]) + "\n"


def fam_protocol(rng, many_missing=True):
    n = rng.randrange(3, 7)
    ms = _names(rng, n)
    body = ["class P(Protocol):"]
    for m in ms:
        if rng.random() < 0.3:
            body.append(f"    {m}: int")
        else:
            body.append(f"    def {m}(self) -> int: ...")
    # many_missing: the implementation lacks >= 2 members (which one is named in the detail depends on the order);
    # otherwise exactly one member is wrong, so only the member listing of the headline can vary
    if many_missing:
        have = rng.sample(ms, rng.randrange(0, n - 1))
    else:
        have = ms[:-1] if rng.random() < 0.5 else ms[1:]
    body.append("class Impl:")
    body.append("    zzz = 1")
    for m in have:
        body.append(f"    def {m}(self) -> int: return 0")
    body += ["def want(p: P) -> None: ...", "def f(i: Impl):", "    want(i)", "    x: P = i", "    reveal_type(x)"]
    if many_missing and rng.random() < 0.5:
        body += ["    want(1)", "    want(Impl())", "    y: List[P] = [i, i]"]
    return "\n".join([HEADER, *body]) + "\n"


def fam_protocol_one(rng):
    return fam_protocol(rng, many_missing=False)


def fam_bad_context_manager(rng):
    lit = rng.choice(["3", "'s'", "1.5", "None", "b'q'"])
    body = ["class Half:", "    def __enter__(self): return self", "def f(i: int, o: object, h: Half):", f"    with {lit}: pass"]
    if rng.random() < 0.6:
        body += ["    with i: pass", "    with o as v: reveal_type(v)"]
    if rng.random() < 0.5:
        body += ["async def af(i: int):", f"    async with {lit}: pass", "    async with i: pass"]
    body += ["def g(i: int):", "    for e in i: pass", "    a, b = i", "    i[0]", "    i()"]
    return "\n".join([HEADER, *body]) + "\n"


BUILTIN_BAD = ["int(1, {kw})", "len([], {kw})", "float('1', {kw})", "str(1, {kw})", "bytes(3, {kw})", "abs(1, {kw})", "sum([1], {kw})",
               "sorted([1], {kw})", "bytearray(3, {kw})", "complex(1, {kw})", "round(1.5, {kw})", "divmod(1, 2, {kw})"]


def fam_builtin_bad_call(rng):
    """Messages that print typeshed signatures (whose parameter annotations are shared, cached Value objects)."""
    body = ["def f():"]
    for call in rng.sample(BUILTIN_BAD, rng.randrange(2, 5)):
        kws = _names(rng, rng.randrange(1, 3))
        body.append("    " + call.format(kw=", ".join(f"{k}=1" for k in kws)))
    body += ["    int()()", "    reveal_type(int)", "    reveal_type(len)", "    reveal_type(sorted)"]
    return "\n".join([HEADER, *body]) + "\n"


WARMUP = HEADER + """import collections
import os
import re

def warm(s: str, b: bytes, i: int, f: float, l: List[int], d: Dict[str, int], o: object, t: Tuple[int, ...], ba: bytearray):
    int(s); int(b); int(f); int(i); int(s, 10); int(ba); float(s); float(i); str(o); str(b, 'utf-8'); bytes(i); bytes(b); bytes(l)
    len(l); len(s); len(d); sorted(l); sorted(l, key=str); abs(i); abs(f); sum(l); sum(l, 2); min(l); max(l); print(s, i)
    dict(d); list(t); tuple(l); set(l); frozenset(l); isinstance(o, int); bool(o); complex(f); complex(s); bytearray(b); bytearray(i)
    round(f); round(f, 2); divmod(i, i); pow(i, i); hash(o); iter(l); next(iter(l)); enumerate(l); zip(l, l); range(i); reversed(l)
    os.path.join(s, s); re.compile(s); s.join([s]); s.format(i); b.decode(); l.append(i); d.get(s); d.items(); repr(o); id(o)
    with open(s) as fh:
        fh.read()
    collections.OrderedDict(d); collections.Counter(l); memoryview(b); slice(i); type(o); callable(o); getattr(o, s); chr(i); ord(s)
"""


def fam_format_keys(rng):
    n = rng.randrange(3, 6)
    ks = _names(rng, n)
    tmpl = " ".join(f"%({k})s" for k in ks)
    have = rng.sample(ks, rng.randrange(0, 2))
    extra = _names(rng, rng.randrange(0, 4))
    d = ", ".join(f"{k!r}: 1" for k in have + [e for e in extra if e not in ks])
    body = ["def f():", f"    print({tmpl!r} % {{{d}}})"]
    if rng.random() < 0.6:
        t2 = " ".join("{" + k + "}" for k in ks)
        kw = ", ".join(f"{k}=1" for k in have + [e for e in extra if e not in ks])
        body.append(f"    print({t2!r}.format({kw}))")
    if rng.random() < 0.7:
        # every field is given, plus 2-4 names that no field uses
        unused = [e for e in _names(rng, 5) if e not in ks][: rng.randrange(2, 5)]
        kw3 = ", ".join(f"{k}=1" for k in ks + unused)
        body.append(f"    print({' '.join('{' + k + '}' for k in ks)!r}.format({kw3}))")
    if rng.random() < 0.4:
        t3 = " ".join("{%d}" % i for i in range(0, n, 2))
        body.append(f"    print({t3!r}.format({', '.join('1' * (n + 2))}))")
    return "\n".join([HEADER, *body]) + "\n"


def fam_literal_union(rng):
    n = rng.randrange(10, 16)
    pool = [str(i) for i in range(30)] + [repr(s) for s in NAMES[:20]]
    lits = rng.sample(pool, n)
    body = [f"def f(x: Literal[{', '.join(lits)}], flag: int):", "    reveal_type(x)"]
    body += ["    y = None"]
    for i, l in enumerate(lits[:8]):
        body.append(f"    {'if' if i == 0 else 'elif'} flag == {i}:")
        body.append(f"        y = {l}")
    body += ["    reveal_type(y)", "    z: Literal[1, 2] = x", "    return [x, y]"]
    if rng.random() < 0.5:
        body.insert(1, f"    want(x)")
        body.insert(0, f"def want(a: Literal[{', '.join(rng.sample(pool, 4))}]) -> None: ...")
    if rng.random() < 0.5:
        ts = rng.sample(TYPES, 6)
        body += [f"def h(u: Union[{', '.join(ts)}], v: Optional[Union[{', '.join(reversed(ts))}]]):", "    reveal_type(u)",
                 "    reveal_type(v)", "    w = u if u else v", "    reveal_type(w)", "    reveal_type([u, v])", "    reveal_type({u: v})"]
    return "\n".join([HEADER, *body]) + "\n"


def fam_typeddict(rng):
    n = rng.randrange(3, 7)
    ks = _names(rng, n)
    body = ["class TD(TypedDict):"]
    for k in ks:
        body.append(f"    {k}: {rng.choice(['int', 'str', 'NotRequired[int]'])}")
    extra = [e for e in _names(rng, 3) if e not in ks]
    given = rng.sample(ks, rng.randrange(0, 2))
    d = ", ".join(f"{k!r}: 1" for k in given + extra)
    kw = ", ".join(f"{k}=1" for k in given + extra)
    body += ["def want(t: TD) -> None: ...", "def f(t: TD):", f"    want({{{d}}})", f"    a: TD = {{{d}}}", f"    TD({kw})",
             "    reveal_type(t)", f"    t[{extra[0] if extra else 'nope'!r}]", "    want({})", "    reveal_type(t.keys())",
             f"    for k in t: reveal_type(k)"]
    if rng.random() < 0.5:
        body += ["class TD2(TypedDict, total=False):", *[f"    {k}: str" for k in ks[:3]], "def f2(t: TD, u: TD2):", "    want(u)",
                 "    x: TD2 = t", "    reveal_type({**t, **u})"]
    return "\n".join([HEADER, *body]) + "\n"


def fam_overload(rng):
    n = rng.randrange(2, 6)
    ts = rng.sample(TYPES, n)
    body = []
    for t in ts:
        body += ["@overload", f"def ov(x: {t}, *, {t}_only: int = 0) -> {t}: ..."]
    body += ["def ov(x: Any, **kwargs: Any) -> Any: return x", "def f(o: object, u: Union[int, str, bytes, float]):", "    ov(o)",
             "    reveal_type(ov(u))", "    ov()", f"    ov(1, {', '.join(k + '=1' for k in _names(rng, 3))})", "    ov(None)"]
    return "\n".join([HEADER, *body]) + "\n"


def fam_typevar(rng):
    n = rng.randrange(2, 5)
    ts = rng.sample(TYPES[:8], n)
    body = [f"T = TypeVar('T', {', '.join(ts)})", "B = TypeVar('B', bound=Union[int, str])", "def same(x: T, y: T) -> T: return x",
            "def one(x: T) -> List[T]: return [x]", "def bd(x: B, y: B) -> Tuple[B, B]: return (x, y)",
            f"def f(u: Union[{', '.join(ts)}], o: object, n: None):", "    reveal_type(same(u, u))", "    reveal_type(one(u))",
            "    same(o, o)", "    same(n, n)", f"    reveal_type(same({rng.choice(LITS)}, {rng.choice(LITS)}))",
            "    reveal_type(bd(1, 'x'))", "    bd(o, n)", "    one(o)"]
    return "\n".join([HEADER, *body]) + "\n"


def fam_attrs(rng):
    ns = _names(rng, 5)
    body = ["class K:", "    def __init__(self) -> None:"]
    for nm in ns[:3]:
        body.append(f"        self.{nm} = {rng.choice(LITS)}")
    body += ["    def use(self) -> None:"]
    for nm in ns:
        body.append(f"        print(self.{nm})")
    body += ["def f(k: K, u: Union[K, int, str, None]):"]
    for nm in ns[2:]:
        body.append(f"    k.{nm}")
    body += [f"    u.{ns[0]}", f"    u.{ns[4]}", "    u.upper()", "    reveal_type(u)"]
    return "\n".join([HEADER, *body]) + "\n"


def fam_match(rng):
    lits = rng.sample([l for l in LITS if l not in ("''",)], 5)
    body = ["def f(x: Union[int, str, bytes, None, float], d: Dict[str, int]):", "    match x:",
            f"        case {lits[0]} | {lits[1]} | {lits[2]}:", "            reveal_type(x)",
            "        case int() | str() | bytes():", "            reveal_type(x)", "        case _:", "            reveal_type(x)",
            "    match d:", "        case {'a': 1, 'b': b, **rest}:", "            reveal_type(rest)", "            reveal_type(b)",
            "        case {'c': c} | {'d': c}:", "            reveal_type(c)"]
    return "\n".join([HEADER, *body]) + "\n"


def fam_possibly_undefined(rng):
    ns = _names(rng, 4)
    body = ["def g() -> Any: ...", "def f(flag: int):"]
    for i, nm in enumerate(ns):
        body += [f"    if flag == {i}:", f"        {nm} = {rng.choice(LITS)}", f"        shared = {rng.choice(LITS)}"]
    body += [f"    print({', '.join(ns)}, shared)", "    reveal_type(shared)", f"    for loopv in g():", f"        shared = loopv",
             "    reveal_type(shared)", f"    del {ns[0]}", f"    print({ns[0]})"]
    return "\n".join([HEADER, *body]) + "\n"


def fam_dict_set_display(rng):
    lits = rng.sample(LITS, 6)
    body = ["def f(flag: bool):", f"    s = {{{', '.join(lits)}}}", "    reveal_type(s)",
            f"    d = {{{', '.join(l + ': ' + m for l, m in zip(lits, reversed(lits)))}}}", "    reveal_type(d)",
            f"    d2 = {{{lits[0]}: 1, {lits[0]}: 2, {lits[1]}: 1, {lits[1]}: 3}}", "    reveal_type(d2)",
            f"    fs = frozenset([{', '.join(lits[:4])}])", "    reveal_type(fs)",
            f"    t = ({', '.join(lits[:3])})", "    for e2 in t: reveal_type(e2)", "    reveal_type(d.get(flag))"]
    return "\n".join([HEADER, *body]) + "\n"


def fam_class_checks(rng):
    ns = _names(rng, 4)
    body = ["import enum", "class E(enum.Enum):", *[f"    {nm} = {i % 2}" for i, nm in enumerate(ns)],
            "class Base:", *[f"    def {nm}(self, a: int) -> int: return a" for nm in ns],
            "class Child(Base):", *[f"    def {nm}(self, a: str, extra) -> str: return a" for nm in ns],
            "def f(e: E, c: Child):", "    reveal_type(e)", "    if e is E." + ns[0] + " or e is E." + ns[2] + ":", "        reveal_type(e)",
            "    else:", "        reveal_type(e)", f"    c.{ns[0]}(1)"]
    return "\n".join([HEADER, *body]) + "\n"


def fam_cond_value(rng):
    ts = rng.sample(TYPES, 3)
    body = [f"def f(x: Union[{', '.join(ts)}, None], y: object):", f"    flag = isinstance(x, {ts[0]})", "    reveal_type(flag)",
            f"    other = x is None or isinstance(y, {ts[1]})", "    reveal_type(other)", "    both = (flag, other, len)", "    reveal_type(both)",
            "    if flag:", "        reveal_type(x)", "    fn = lambda a, b=1: (a, b)", "    reveal_type(fn)", "    reveal_type(f)",
            "    reveal_type(y.__class__)", "    reveal_type(object())", "    reveal_type(print)"]
    return "\n".join([HEADER, *body]) + "\n"


def fam_runtime_repr(rng):
    nm = rng.choice(NAMES[:20])
    body = ["class Plain:", "    pass", f"{nm} = Plain()", "def want(x: int) -> None: ...", "def f():", f"    reveal_type({nm})",
            f"    want({nm})", "    reveal_type([].append)", f"    return {nm}.missing"]
    return "\n".join([HEADER, *body]) + "\n"


def fam_in_narrowing(rng):
    """A value of a NON-literal declared type narrowed by membership / equality against several literals: the narrowed
    union is built by iterating the collection of candidates."""
    strs = rng.sample(["'left'", "'right'", "'a'", "'b'", "'xyz'", "'seven'", "'k'", "'north'", "'south'", "'east'"], rng.randrange(3, 6))
    byts = rng.sample(["b'q'", "b'rs'", "b'x'", "b'yy'", "b'zzz'"], 3)
    enums = rng.sample(["Color.RED", "Color.GREEN", "Color.BLUE", "Color.CYAN", "Color.MAGENTA"], rng.randrange(3, 5))
    mixed = rng.sample(strs + ["1", "2", "42", "None", "1.5"], 4)
    o, c = rng.choice([("(", ")"), ("[", "]"), ("{", "}")])
    body = [
        "import enum",
        "class Color(enum.Enum):", "    RED = 1", "    GREEN = 2", "    BLUE = 3", "    CYAN = 4", "    MAGENTA = 5",
        f"CHOICES = ({', '.join(strs)})",
        "def f(s: str, b: bytes, c: Color, o: object, a: Any, u: Union[int, str, None]):",
        f"    if s in {o}{', '.join(strs)}{c}:", "        reveal_type(s)", "    else:", "        reveal_type(s)",
        f"    if b in ({', '.join(byts)}):", "        reveal_type(b)",
        f"    if c in {o}{', '.join(enums)}{c}:", "        reveal_type(c)", "    else:", "        reveal_type(c)",
        f"    if o in ({', '.join(mixed)}):", "        reveal_type(o)",
        f"    if a in [{', '.join(strs)}]:", "        reveal_type(a)",
        f"    if u not in ({', '.join(mixed)}):", "        return", "    reveal_type(u)",
        "    if s in CHOICES:", "        reveal_type(s)",
        f"    assert c in ({', '.join(enums)})", "    reveal_type(c)",
        "def g(s: str, c: Color):",
        "    match s:", f"        case {' | '.join(strs)}:", "            reveal_type(s)", "        case _:", "            reveal_type(s)",
        "    match c:", f"        case {' | '.join(enums)}:", "            reveal_type(c)",
        f"    if {' or '.join('s == ' + x for x in strs)}:", "        reveal_type(s)",
    ]
    return "\n".join([HEADER, *body]) + "\n"


# ---------------------------------------------------------------------------
# imports that the checked program never executes (the checker alone resolves them), of standard-library submodules that
# neither pyanalyze nor its dependencies load; and unrelated "history" programs that load the same submodules another way

# (dotted submodule, one attribute of it)
SUBMODULES = [
    ("wsgiref.util", "guess_scheme"), ("wsgiref.headers", "Headers"), ("wsgiref.validate", "validator"),
    ("wsgiref.simple_server", "make_server"), ("xml.dom.minidom", "parseString"), ("xml.dom.pulldom", "parseString"),
    ("xml.sax.handler", "ContentHandler"), ("xml.sax.saxutils", "escape"), ("xml.etree.ElementTree", "fromstring"),
    ("email.mime.text", "MIMEText"), ("email.mime.multipart", "MIMEMultipart"), ("email.headerregistry", "Address"),
    ("json.tool", "main"), ("logging.handlers", "RotatingFileHandler"), ("logging.config", "dictConfig"),
    ("ctypes.util", "find_library"), ("http.cookies", "SimpleCookie"), ("http.cookiejar", "CookieJar"),
    ("http.server", "HTTPServer"), ("urllib.robotparser", "RobotFileParser"), ("dbm.dumb", "open"),
    ("xmlrpc.client", "ServerProxy"), ("html.parser", "HTMLParser"), ("concurrent.futures.thread", "ThreadPoolExecutor"),
    ("curses.ascii", "isalpha"), ("encodings.idna", "ToASCII"),
]
# how P imports: statement template, expression that names the attribute afterwards
IMPORT_FORMS = ["import a.b", "import a.b as c", "from a import b", "from a.b import x", "from a.b import x as y", "import a.b, p.q"]
# where the import statement of P sits
IMPORT_PLACES = ["def", "type-checking", "try-in-def", "nested-def", "class-in-def", "if-in-def", "module-level"]
# what P uses afterwards: the submodule it imported / a sibling submodule it never imports / it imports only the package
IMPORT_SHAPES = ["own", "own", "own", "own", "own", "own", "sibling", "package-only"]
# how the unrelated history program H gets the submodule loaded (the last two do not load it: controls)
HISTORY_FORMS = ["module-import-as", "module-import", "module-from-package", "module-from-submodule", "def-import-as",
                 "def-from-submodule", "def-import", "importlib", "other-submodule-of-package", "package-only"]

_P_FUNCS = ["content_type", "build", "lookup", "convert", "prepare", "resolve"]
_H_FUNCS = ["scheme", "helper", "collect", "render", "dispatch", "inspect"]


def _siblings(dotted: str) -> list:
    top = dotted.split(".")[0]
    return [e for e in SUBMODULES if e[0].split(".")[0] == top and e[0] != dotted]


def _import_stmt(form: str, dotted: str, attr: str, alias: str, second=None):
    """-> (statement, expression naming `attr` of the submodule, expression naming the submodule)"""
    pkg, _, sub = dotted.rpartition(".")
    if form == "import a.b":
        return f"import {dotted}", f"{dotted}.{attr}", dotted
    if form == "import a.b as c":
        return f"import {dotted} as {alias}", f"{alias}.{attr}", alias
    if form == "from a import b":
        return f"from {pkg} import {sub}", f"{sub}.{attr}", sub
    if form == "from a.b import x":
        return f"from {dotted} import {attr}", attr, None
    if form == "from a.b import x as y":
        return f"from {dotted} import {attr} as {alias}_{attr}", f"{alias}_{attr}", None
    if form == "import a.b, p.q":
        return f"import {dotted}, {second[0]}", f"{dotted}.{attr}", dotted
    raise KeyError(form)


def gen_import_program(rng, entry=None, form=None, place=None, shape=None):
    """-> (source of P, the dotted submodule whose presence decides what P's uses mean, description).
    P never shares a name with the history programs of gen_import_history."""
    entry = entry or rng.choice(SUBMODULES)
    form = form or rng.choice(IMPORT_FORMS)
    place = place or rng.choice(IMPORT_PLACES)
    shape = shape or rng.choice(IMPORT_SHAPES)
    dotted, attr = entry
    sibs = _siblings(dotted)
    if shape == "sibling" and not sibs:
        shape = "own"
    alias = rng.choice(["mod", "sub", "lib", "impl"])
    second = rng.choice([e for e in SUBMODULES if e[0].split(".")[0] != dotted.split(".")[0]])
    fn = rng.choice(_P_FUNCS)
    uses: list = []
    if shape == "own":
        stmt, expr, modexpr = _import_stmt(form, dotted, attr, alias, second)
        target = dotted
        if form == "import a.b, p.q":
            uses.append(f"print({second[0]}.{second[1]})")
    elif shape == "sibling":
        # the program imports a.b and goes on to use a.c, which it never imports
        stmt, _, _ = _import_stmt("import a.b" if form.startswith("from") else form, dotted, attr, alias, second)
        sib = rng.choice(sibs)
        target = sib[0]
        if form == "import a.b as c":
            stmt += f"\nimport {dotted.split('.')[0]}"  # the alias does not bind the package name
        expr, modexpr = f"{sib[0]}.{sib[1]}", sib[0]
    else:
        # the program imports the package only and uses a submodule through it
        top = dotted.split(".")[0]
        stmt = f"import {top}"
        target, expr, modexpr = dotted, f"{dotted}.{attr}", dotted
    use_pool = [f"value = {expr}", f"print({expr})", f"reveal_type({expr}.__name__)", f"value = [{expr}, {expr}.__doc__]"]
    if modexpr is not None:
        use_pool += [f"reveal_type({modexpr}.__name__)", f"print({modexpr})"]
    uses = rng.sample(use_pool, rng.randrange(1, 3)) + uses + [f"return {expr}"]
    ind = "    "
    imp = stmt.split("\n")
    if place == "def":
        body = [f"def {fn}(name):", *[ind + s for s in imp], *[ind + u for u in uses]]
    elif place == "type-checking":
        body = ["from typing import TYPE_CHECKING", "if TYPE_CHECKING:", *[ind + s for s in imp], "", f"def {fn}(name):", *[ind + u for u in uses]]
    elif place == "try-in-def":
        body = [f"def {fn}(name):", ind + "try:", *[ind * 2 + s for s in imp], ind + f"except {rng.choice(['ImportError', 'Exception'])}:",
                ind * 2 + "return None", *[ind + u for u in uses]]
    elif place == "nested-def":
        body = [f"def {fn}(name):", ind + "def inner():", *[ind * 2 + s for s in imp], *[ind * 2 + u for u in uses], ind + "return inner"]
    elif place == "class-in-def":
        body = [f"def {fn}(name):", ind + "class Holder:", *[ind * 2 + s for s in imp], ind * 2 + f"member = {expr}",
                *[ind * 2 + u for u in uses if not u.startswith("return")], ind + "return Holder.member"]
    elif place == "if-in-def":
        body = [f"def {fn}(name):", ind + "if name:", *[ind * 2 + s for s in imp], *[ind * 2 + u for u in uses], ind + "return None"]
    elif place == "module-level":
        # control: the program's own top-level code really executes the import
        body = [*imp, "", f"def {fn}(name):", *[ind + u for u in uses]]
    else:
        raise KeyError(place)
    eff = {"own": form, "sibling": "import a.b" if form.startswith("from") else form, "package-only": "import a"}[shape]
    return "\n".join(body) + "\n", target, f"{eff}/{place}/{shape}"


def gen_import_history(rng, target: str, hform=None):
    """An unrelated program (no name in common with gen_import_program's) that gets `target` loaded in its own way."""
    hform = hform or rng.choice(HISTORY_FORMS)
    attr = next((a for d, a in SUBMODULES if d == target), "__name__")
    pkg, _, sub = target.rpartition(".")
    fn = rng.choice(_H_FUNCS)
    alias = rng.choice(["wu", "hx", "tool", "backend"])
    ind = "    "
    if hform == "module-import-as":
        body = [f"import {target} as {alias}", "", f"def {fn}(environ):", ind + f"return {alias}.{attr}"]
    elif hform == "module-import":
        body = [f"import {target}", "", f"def {fn}(environ):", ind + f"return {target}.{attr}"]
    elif hform == "module-from-package":
        body = [f"from {pkg} import {sub} as {alias}", "", f"def {fn}(environ):", ind + f"return {alias}.{attr}"]
    elif hform == "module-from-submodule":
        body = [f"from {target} import {attr} as {alias}", "", f"def {fn}(environ):", ind + f"return {alias}"]
    elif hform == "def-import-as":
        body = [f"def {fn}(environ):", ind + f"import {target} as {alias}", ind + f"return {alias}.{attr}"]
    elif hform == "def-from-submodule":
        body = [f"def {fn}(environ):", ind + f"from {target} import {attr} as {alias}", ind + f"return {alias}"]
    elif hform == "def-import":
        body = [f"def {fn}(environ):", ind + f"import {target}", ind + f"return {target}.{attr}"]
    elif hform == "importlib":
        body = ["import importlib", f"{alias} = importlib.import_module({target!r})", "", f"def {fn}(environ):", ind + f"return {alias}.{attr}"]
    elif hform == "other-submodule-of-package":
        others = [e for e in _siblings(target)] or [e for e in SUBMODULES if e[0] != target]
        o = rng.choice(others)
        body = [f"import {o[0]} as {alias}", "", f"def {fn}(environ):", ind + f"return {alias}.{o[1]}"]
    elif hform == "package-only":
        top = target.split(".")[0]
        body = [f"import {top} as {alias}", "", f"def {fn}(environ):", ind + f"return {alias}.__name__"]
    else:
        raise KeyError(hform)
    return "\n".join(body) + "\n", hform


def import_pair_plan(seed: int) -> list:
    """Every (import form of P, history form) combination, in an order fixed by the run's seed."""
    combos = [(f, h) for f in IMPORT_FORMS for h in HISTORY_FORMS]
    random.Random(f"c10-import-pairs-{seed}").shuffle(combos)
    return combos


def gen_import_pair(rng, index: int, seed: int = 0):
    """Pair number `index` of the run: (P, H, target submodule, description)."""
    plan = import_pair_plan(seed)
    form, hform = plan[index % len(plan)]
    place = IMPORT_PLACES[(index // len(plan) + index) % len(IMPORT_PLACES)]
    if place == "module-level" and rng.random() < 0.7:
        place = rng.choice(IMPORT_PLACES[:-1])
    src, target, desc = gen_import_program(rng, form=form, place=place)
    hsrc, hform = gen_import_history(rng, target, hform)
    return src, hsrc, target, f"{desc} after {hform}"


def fam_never_executed_import(rng):
    return gen_import_program(rng)[0]


def fam_import_loader(rng):
    return gen_import_history(rng, rng.choice(SUBMODULES)[0])[0]


# ---------------------------------------------------------------------------
# class hierarchies whose diagnostics enumerate bases / overrides / abstract methods / protocol members

_ATTR_DECLS = [("int", "0"), ("float", "0.0"), ("bytes", "b''"), ("List[int]", "[]"), ("Tuple[int, ...]", "()"), ("Dict[str, int]", "{}"),
               ("bool", "False"), ("complex", "0j")]
_CLASS_NAMES = ["Left", "Right", "Middle", "Upper", "Lower", "Inner", "Outer", "Near", "Far"]


def fam_multi_base_override(rng):
    """A class body whose assignments / methods conflict with the SAME attribute defined directly on 2-4 of its base
    classes: several bases side by side, parent + grandparent (+ great-grandparent), or a diamond."""
    k = rng.randrange(2, 5)
    shape = rng.choice(["multiple", "chain", "diamond", "mixed"])
    if shape == "diamond":
        k = max(k, 3)
    names = rng.sample(_CLASS_NAMES, k)
    attrs = _names(rng, rng.randrange(1, 4))
    meths = [m + "_m" for m in _names(rng, rng.randrange(0, 3))]
    decls = rng.sample(_ATTR_DECLS, k)
    body = []
    for i, cn in enumerate(names):
        if shape == "multiple":
            bases = ""
        elif shape == "chain":
            bases = f"({names[i - 1]})" if i else ""
        elif shape == "diamond":
            bases = "" if i == 0 else f"({names[0]})"
        else:
            bases = f"({names[0]})" if i == 1 else ""
        body.append(f"class {cn}{bases}:")
        t, v = decls[i]
        for a in attrs:
            r = rng.random()
            if r < 0.6:
                body.append(f"    {a}: {t} = {v}")
            elif r < 0.8:
                body.append(f"    {a} = {v}")
            else:
                body.append(f"    {a}: {t}")
        for m in meths:
            body.append(f"    def {m}(self, a: {t}) -> {t}: return a")
        if not attrs and not meths:
            body.append("    pass")
    if shape == "multiple":
        child_bases = names
    elif shape == "chain":
        child_bases = [names[-1]]
    elif shape == "diamond":
        child_bases = names[1:]
    else:
        child_bases = names[1:]
    if shape in ("multiple", "mixed") and rng.random() < 0.5:
        child_bases = child_bases[::-1] if shape == "multiple" else child_bases
    body.append(f"class Both({', '.join(child_bases)}):")
    for a in attrs:
        body.append("    " + rng.choice([f"{a} = 'unbounded'", f"{a}: str = 'x'", f"{a} = None", f"def {a}(self) -> str: return ''"]))
    for m in meths:
        body.append("    " + rng.choice([f"def {m}(self, a: str, extra) -> str: return a", f"{m} = 3", f"def {m}(self) -> None: pass"]))
    body += ["def f(b: Both):", *[f"    reveal_type(b.{a})" for a in attrs[:2]], f"    first: {names[0]} = b", "    return first"]
    if rng.random() < 0.4:
        body += ["class Again(Both):", *[f"    {a} = 1.5j" for a in attrs[:2]]]
    return "\n".join([HEADER, *body]) + "\n"


def fam_abstract_and_protocol_bases(rng):
    """Several unimplemented abstract methods, several missing protocol members, members supplied by different bases."""
    n = rng.randrange(3, 6)
    ms = _names(rng, n)
    body = ["import abc", "class Shape(abc.ABC):"]
    for m in ms:
        body += ["    @abc.abstractmethod", f"    def {m}(self) -> int: ..."]
    have = rng.sample(ms, rng.randrange(0, n - 1))
    body.append("class Partial(Shape):")
    body += [f"    def {m}(self) -> int: return 0" for m in have] or ["    pass"]
    body.append("class WrongTypes(Shape):")
    body += [f"    def {m}(self, extra: int) -> str: return ''" for m in ms]
    ps = _names(rng, n)
    body.append("class Proto(Protocol):")
    for m in ps:
        body.append(f"    def {m}(self) -> int: ..." if rng.random() < 0.7 else f"    {m}: int")
    half = rng.randrange(0, n)
    body += ["class MixA:", *([f"    def {m}(self) -> int: return 0" for m in ps[:half]] or ["    pass"])]
    body += ["class MixB:", *([f"    def {m}(self) -> str: return ''" for m in ps[half:n - 1]] or ["    pass"])]
    body += ["class Joined(MixA, MixB):", "    pass", "class JoinedRev(MixB, MixA):", "    pass",
             "def want(p: Proto) -> None: ...", "def want_shape(s: Shape) -> None: ...",
             "def f(j: Joined, r: JoinedRev, p: Partial):", "    Partial()", "    Shape()", "    WrongTypes()", "    want(j)", "    want(r)", "    want(p)",
             "    want_shape(j)", "    x: Proto = r", "    reveal_type(Partial.__abstractmethods__)", "    reveal_type(p)"]
    return "\n".join([HEADER, *body]) + "\n"


def fam_reveal_locals(rng):
    """reveal_locals() where several names are first bound inside branches / try bodies / loops."""
    n = rng.randrange(3, 7)
    ns = _names(rng, n + 2)
    body = ["from pyanalyze.extensions import reveal_locals", "def g() -> Any: ...", f"def f(flag: int, {ns[-1]}: str):"]
    kind = rng.choice(["if", "if-else", "try", "for", "elif"])
    vals = [rng.choice(LITS) for _ in ns]
    if rng.random() < 0.5:
        body.append(f"    {ns[-2]} = {vals[-2]}")
    if kind == "if":
        body += ["    if flag:", *[f"        {a} = {v}" for a, v in zip(ns[:n], vals)]]
    elif kind == "if-else":
        h = n // 2
        body += ["    if flag:", *([f"        {a} = {v}" for a, v in zip(ns[:h], vals)] or ["        pass"]), "    else:",
                 *[f"        {a} = {v}" for a, v in zip(ns[h:n], vals[h:])]]
    elif kind == "try":
        body += ["    try:", *[f"        {a} = {v}" for a, v in zip(ns[:n], vals)], "    except ValueError:", f"        {ns[0]} = None"]
    elif kind == "for":
        body += ["    for item in g():", *[f"        {a} = {v}" for a, v in zip(ns[:n], vals)]]
    else:
        for i, (a, v) in enumerate(zip(ns[:n], vals)):
            body += [f"    {'if' if i == 0 else 'elif'} flag == {i}:", f"        {a} = {v}", f"        shared = {v}"]
    body += ["    reveal_locals()"]
    if rng.random() < 0.5:
        body += ["    if flag > 3:", f"        late = {rng.choice(LITS)}", f"        {ns[0]} = {rng.choice(LITS)}", "    reveal_locals()"]
    return "\n".join([HEADER, *body]) + "\n"


_SPELL_ATOMS = ["int", "str", "None", "bytes"]


def fam_generic_union_spelling(rng):
    """Common generic classes specialised with a small union (2-3 members out of 4 atoms, written in a random order and
    in either spelling), read back through their generic bases (TypeVar solving against Sequence[T] / Iterable[T],
    iteration, dict methods) and shown: programs of this family meet each other's specialisations in other spellings."""
    def union(members):
        if rng.random() < 0.5 and "None" not in members[:1]:
            return " | ".join(members)
        return "Union[" + ", ".join(members) + "]"
    m1 = rng.sample(_SPELL_ATOMS, rng.choice([2, 2, 3]))
    m2 = rng.sample(_SPELL_ATOMS, rng.choice([2, 3]))
    u1, u2 = union(m1), union(m2)
    seq = rng.choice(["List", "list", "typing.List", "List", "typing.Deque", "Sequence"])
    body = ["T = TypeVar('T')", "def first(xs: Sequence[T]) -> T: return xs[0]", "def each(xs: typing.Iterable[T]) -> List[T]: return list(xs)",
            f"def f(a: {seq}[{u1}], d: Dict[str, {u2}], t: Tuple[{u1}, ...], s: typing.Set[{u2}]):",
            "    reveal_type(first(a))", "    for e in a:", "        reveal_type(e)", "    reveal_type(each(a))",
            "    reveal_type(d.get('k'))", "    for v in d.values():", "        reveal_type(v)", "    reveal_type(first(t))",
            "    reveal_type(each(s))", "    reveal_type(t[2])", "    first(a).no_such_attribute", "    reveal_type(sorted(s))"]
    if rng.random() < 0.5:
        body += [f"def g(o: Optional[{rng.choice([a for a in _SPELL_ATOMS if a != 'None'])}], l: List[Optional[int]]):", "    reveal_type(first([o]))",
                 "    reveal_type(each(l))", "    for e in l:", "        reveal_type(e)"]
    return "\n".join([HEADER, *body]) + "\n"


class _Respell(ast.NodeTransformer):
    """Rotate the members of every Union[...]/Literal[...] subscript; Optional[X] -> Union[None, X]; rotate `A | B | C`
    chains inside annotations."""

    def __init__(self):
        self.changed = False
        self.in_annotation = 0

    @staticmethod
    def _name(node):
        return node.id if isinstance(node, ast.Name) else node.attr if isinstance(node, ast.Attribute) else None

    def visit_Subscript(self, node):
        self.generic_visit(node)
        nm = self._name(node.value)
        if nm in ("Union", "Literal") and isinstance(node.slice, ast.Tuple) and len(node.slice.elts) > 1:
            node.slice.elts = node.slice.elts[1:] + node.slice.elts[:1]
            self.changed = True
        elif nm == "Optional" and not isinstance(node.slice, ast.Tuple):
            self.changed = True
            value = ast.copy_location(ast.Name(id="Union", ctx=ast.Load()), node.value) if isinstance(node.value, ast.Name) else \
                ast.copy_location(ast.Attribute(value=node.value.value, attr="Union", ctx=ast.Load()), node.value)
            return ast.copy_location(ast.Subscript(value=value, slice=ast.Tuple(elts=[ast.Constant(value=None), node.slice], ctx=ast.Load()), ctx=ast.Load()), node)
        return node

    def _annotation(self, node):
        if node is None:
            return None
        self.in_annotation += 1
        try:
            return self.visit(node)
        finally:
            self.in_annotation -= 1

    def visit_arg(self, node):
        node.annotation = self._annotation(node.annotation)
        return node

    def visit_AnnAssign(self, node):
        node.annotation = self._annotation(node.annotation)
        if node.value is not None:
            node.value = self.visit(node.value)
        return node

    def visit_FunctionDef(self, node):
        node.returns = self._annotation(node.returns)
        self.generic_visit(node)
        return node

    visit_AsyncFunctionDef = visit_FunctionDef

    def visit_BinOp(self, node):
        if not (self.in_annotation and isinstance(node.op, ast.BitOr)):
            self.generic_visit(node)
            return node
        members = []

        def flat(n):
            if isinstance(n, ast.BinOp) and isinstance(n.op, ast.BitOr):
                flat(n.left)
                flat(n.right)
            else:
                members.append(self.visit(n))
        flat(node)
        members = members[1:] + members[:1]
        if isinstance(members[0], ast.Constant) and members[0].value is None and len(members) > 1 and \
                isinstance(members[1], ast.Constant) and members[1].value is None:
            return node
        self.changed = True
        out = members[0]
        for m in members[1:]:
            out = ast.BinOp(left=out, op=ast.BitOr(), right=m)
        return ast.copy_location(out, node)


def respelled_twin(source: str):
    """The same program with every union written in another member order (None if there is nothing to respell)."""
    try:
        tree = ast.parse(source)
        tr = _Respell()
        new = ast.fix_missing_locations(tr.visit(tree))
        if not tr.changed:
            return None
        out = ast.unparse(new) + "\n"
        ast.parse(out)
        return out
    except Exception:  # noqa: BLE001
        return None


FAMILIES = [
    ("never-executed-import", fam_never_executed_import, 1), ("import-loader", fam_import_loader, 1),
    ("generic-union-spelling", fam_generic_union_spelling, 3),
    ("multi-base-override", fam_multi_base_override, 4), ("abstract-and-protocol-bases", fam_abstract_and_protocol_bases, 2),
    ("reveal-locals", fam_reveal_locals, 2),
    ("in-narrowing", fam_in_narrowing, 3),
    ("or-isinstance", fam_or_isinstance, 4), ("or-literal", fam_or_literal, 3), ("and-or-mixed", fam_and_or_mixed, 2),
    ("try-assign", fam_try_assign, 4), ("unused-vars", fam_unused, 4), ("unexpected-kwargs", fam_unexpected_kwargs, 3),
    ("missing-required", fam_missing_required, 1), ("protocol-members", fam_protocol, 2), ("protocol-one-wrong", fam_protocol_one, 2), ("bad-context-manager", fam_bad_context_manager, 2), ("builtin-bad-call", fam_builtin_bad_call, 2), ("format-keys", fam_format_keys, 3),
    ("literal-union", fam_literal_union, 3), ("typeddict", fam_typeddict, 3), ("overload", fam_overload, 2),
    ("typevar", fam_typevar, 2), ("attrs", fam_attrs, 2), ("match", fam_match, 1), ("possibly-undefined", fam_possibly_undefined, 2),
    ("displays", fam_dict_set_display, 2), ("class-checks", fam_class_checks, 1), ("cond-value", fam_cond_value, 2), ("runtime-repr", fam_runtime_repr, 1),
]
_WEIGHTED = [f for f in FAMILIES for _ in range(f[2])]


def gen_targeted(rng: random.Random):
    name, fn, _ = rng.choice(_WEIGHTED)
    return name, fn(rng)


def gen_family(name: str, rng: random.Random) -> str:
    for n, fn, _ in FAMILIES:
        if n == name:
            return fn(rng)
    raise KeyError(name)


# ---------------------------------------------------------------------------
# generated programs from the other generators, with reveal_type calls appended


def with_reveals(source: str, rng: random.Random, per_func: int = 3) -> str:
    """Append `reveal_type(v)` for a few local variables at the end of each top-level function (as dead-safe code:
    the statements are appended inside an `if False:`-free position at the function end; functions are never called
    by the determinism check, so reachability at run time does not matter)."""
    try:
        tree = ast.parse(source)
    except SyntaxError:
        return source
    lines = source.split("\n")
    inserts = []
    for fn in tree.body:
        if not isinstance(fn, ast.FunctionDef):
            continue
        names = []
        for node in ast.walk(fn):
            if isinstance(node, ast.Name) and isinstance(node.ctx, ast.Store) and node.id not in names:
                names.append(node.id)
        names += [a.arg for a in fn.args.args]
        if not names:
            continue
        chosen = rng.sample(names, min(per_func, len(names)))
        indent = " " * fn.body[0].col_offset
        # put them before the first top-level statement of the body as well as at the end: positions with
        # different flow states
        inserts.append((fn.end_lineno, [f"{indent}reveal_type({n})" for n in chosen]))
    for lineno, new in sorted(inserts, reverse=True):
        lines[lineno:lineno] = new
    out = "\n".join(lines)
    try:
        ast.parse(out)
    except SyntaxError:
        return source
    return out


# ---------------------------------------------------------------------------
# snippets embedded in the repository's own tests (inputs only)


def extract_test_snippets(repo: str) -> list:
    """(origin, source) for bodies of functions decorated with @assert_passes / @assert_fails in pyanalyze/test_*.py.
    The body is dedented and used as a module; whether it imports standalone is decided by the caller."""
    out = []
    for path in sorted(glob.glob(os.path.join(repo, "pyanalyze", "test_*.py"))):
        try:
            text = open(path).read()
            tree = ast.parse(text)
        except (OSError, SyntaxError):
            continue
        lines = text.split("\n")
        for node in ast.walk(tree):
            if not isinstance(node, ast.FunctionDef) or not node.body:
                continue
            decos = []
            for d in node.decorator_list:
                f = d.func if isinstance(d, ast.Call) else d
                decos.append(f.id if isinstance(f, ast.Name) else getattr(f, "attr", ""))
            if not any(d in ("assert_passes", "assert_fails") for d in decos):
                continue
            first = node.body[0]
            start = first.lineno
            if isinstance(first, ast.Expr) and isinstance(first.value, ast.Constant) and isinstance(first.value.value, str):
                if len(node.body) == 1:
                    continue
                start = node.body[1].lineno
            # include decorators/comment lines of the first statement
            deco = getattr(node.body[0 if start == first.lineno else 1], "decorator_list", [])
            if deco:
                start = min(start, min(d.lineno for d in deco))
            body = textwrap.dedent("\n".join(lines[start - 1 : node.end_lineno])) + "\n"
            out.append((f"{os.path.basename(path)}:{node.name}:{node.lineno}", body))
    return out
