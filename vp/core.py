"""Coordinator / worker plumbing shared by every property check.

A property module (vp/props/cNN.py) provides:

    ID, LEVEL, RULE, ASSUMPTIONS, FLOORS, NSHARDS (optional), shard(ctx), replay(witness)

`shard(ctx)` runs inside a worker subprocess and talks to the coordinator only through `ctx`.
"""
from __future__ import annotations

import hashlib
import importlib
import json
import os
import random
import shutil
import subprocess
import sys
import tempfile
import time
import traceback
from typing import Any, Callable, Optional

HERE = os.path.dirname(os.path.dirname(os.path.abspath(__file__)))
PYTHON = "/venv/bin/python"
KNOWN_FINDINGS = os.path.join(HERE, "known_findings.json")

PROPS = {f"C{i:02d}": f"vp.props.c{i:02d}" for i in range(1, 21)}


def digest(obj: Any) -> str:
    if not isinstance(obj, (str, bytes)):
        obj = json.dumps(obj, sort_keys=True, default=repr)
    if isinstance(obj, str):
        obj = obj.encode("utf-8", "backslashreplace")
    return hashlib.blake2b(obj, digest_size=8).hexdigest()


def jsonable(o: Any, depth: int = 0) -> Any:
    if depth > 8:
        return repr(o)
    if isinstance(o, (str, int, float, bool)) or o is None:
        return o
    if isinstance(o, (list, tuple)):
        return [jsonable(x, depth + 1) for x in o]
    if isinstance(o, (set, frozenset)):
        return sorted((jsonable(x, depth + 1) for x in o), key=repr)
    if isinstance(o, dict):
        return {str(k): jsonable(v, depth + 1) for k, v in o.items()}
    return repr(o)


class Ctx:
    """Worker-side recorder."""

    MAX_SAMPLES = 4
    MAX_WITNESS_PER_KEY = 2

    def __init__(self, prop_id: str, tier: str, seed: int, shard: int, nshards: int):
        self.prop_id = prop_id
        self.tier = tier
        self.seed = seed
        self.shard = shard
        self.nshards = nshards
        self.rng = random.Random(f"{prop_id}/{seed}/{shard}")
        self.counters: dict = {}
        self.histos: dict = {}
        self.distinct: set = set()
        self.samples: list = []
        self.violations: dict = {}
        self.violation_counts: dict = {}
        self.notes: list = []
        self.t0 = time.time()
        self.quick = tier == "quick"

    # --- what a shard owns -------------------------------------------------
    def mine(self, index: int) -> bool:
        return index % self.nshards == self.shard

    def pick(self, quick: Any, thorough: Any) -> Any:
        return quick if self.quick else thorough

    # --- recording ---------------------------------------------------------
    def count(self, name: str, n: int = 1) -> None:
        self.counters[name] = self.counters.get(name, 0) + n

    def histo(self, name: str, key: Any, n: int = 1) -> None:
        h = self.histos.setdefault(name, {})
        k = key if isinstance(key, str) else json.dumps(jsonable(key))
        h[k] = h.get(k, 0) + n

    def nontrivial(self, key: Any) -> None:
        self.distinct.add(digest(key))

    def sample(self, obj: Any, force: bool = False) -> None:
        if force or len(self.samples) < self.MAX_SAMPLES:
            self.samples.append(jsonable(obj))

    def note(self, text: str) -> None:
        if len(self.notes) < 50:
            self.notes.append(text)

    def violation(self, key: str, what: str, witness: dict) -> None:
        """key = mechanism key (structural features only); witness = replayable case."""
        self.violation_counts[key] = self.violation_counts.get(key, 0) + 1
        lst = self.violations.setdefault(key, [])
        w = jsonable(witness)
        size = len(json.dumps(w))
        if len(lst) < self.MAX_WITNESS_PER_KEY:
            lst.append({"what": what, "witness": w, "size": size})
        else:
            # keep the smallest witnesses
            worst = max(range(len(lst)), key=lambda i: lst[i]["size"])
            if size < lst[worst]["size"]:
                lst[worst] = {"what": what, "witness": w, "size": size}

    def dump(self) -> dict:
        return {
            "shard": self.shard,
            "counters": self.counters,
            "histos": self.histos,
            "distinct": sorted(self.distinct),
            "samples": self.samples,
            "violations": self.violations,
            "violation_counts": self.violation_counts,
            "notes": self.notes,
            "wall_s": time.time() - self.t0,
        }


def load_prop(prop_id: str):
    if prop_id not in PROPS:
        raise SystemExit(f"unknown property {prop_id}")
    return importlib.import_module(PROPS[prop_id])


# ---------------------------------------------------------------------------
# worker entry


def worker_main(argv) -> int:
    prop_id, tier, seed, shard, nshards, out = argv
    try:
        import faulthandler

        faulthandler.enable()
    except Exception:
        pass
    sys.setrecursionlimit(3000)
    ctx = Ctx(prop_id, tier, int(seed), int(shard), int(nshards))
    status = "ok"
    err = None
    try:
        prop = load_prop(prop_id)
        # silence pyanalyze's own stderr chatter
        if ctx.shard == 0:
            # listed findings are re-executed on every run, so a KNOWN-FINDING line is printed
            # iff the recorded witness still fails on the current tree
            for e in load_known(prop_id)[0]:
                if "witness" in e:
                    res = prop.replay(e["witness"])
                    ctx.count("known_finding_replays")
                    if res:
                        ctx.violation(res[0], res[1], e["witness"])
        prop.shard(ctx)
    except BaseException as e:  # noqa: BLE001
        status = "crashed"
        err = "".join(traceback.format_exception(type(e), e, e.__traceback__))[-6000:]
    data = ctx.dump()
    data["status"] = status
    data["error"] = err
    tmp = out + ".tmp"
    with open(tmp, "w") as f:
        json.dump(data, f)
    os.replace(tmp, out)
    return 0 if status == "ok" else 3


# ---------------------------------------------------------------------------
# known findings


def load_known(prop_id: str) -> tuple:
    if not os.path.exists(KNOWN_FINDINGS):
        return [], []
    with open(KNOWN_FINDINGS) as f:
        data = json.load(f)
    findings = [e for e in data.get("findings", []) if e.get("property") == prop_id]
    fixed = [e for e in data.get("fixed", []) if f"property={prop_id} " in e]
    return findings, fixed


# ---------------------------------------------------------------------------
# coordinator


def merge(results: list) -> dict:
    counters: dict = {}
    histos: dict = {}
    distinct: set = set()
    samples: list = []
    violations: dict = {}
    vcounts: dict = {}
    notes: list = []
    for r in results:
        for k, v in r["counters"].items():
            counters[k] = counters.get(k, 0) + v
        for name, h in r["histos"].items():
            dst = histos.setdefault(name, {})
            for k, v in h.items():
                dst[k] = dst.get(k, 0) + v
        distinct.update(r["distinct"])
        samples.extend(r["samples"][:2])
        for k, lst in r["violations"].items():
            violations.setdefault(k, []).extend(lst)
        for k, v in r["violation_counts"].items():
            vcounts[k] = vcounts.get(k, 0) + v
        notes.extend(r["notes"])
    for k in violations:
        violations[k].sort(key=lambda w: w["size"])
        violations[k] = violations[k][:2]
    return {
        "counters": counters,
        "histos": histos,
        "distinct": distinct,
        "samples": samples[:6],
        "violations": violations,
        "violation_counts": vcounts,
        "notes": notes[:50],
    }


def trim_histos(histos: dict, limit: int = 60) -> dict:
    out = {}
    for name, h in histos.items():
        items = sorted(h.items(), key=lambda kv: (-kv[1], kv[0]))
        if len(items) > limit:
            rest = sum(v for _, v in items[limit:])
            items = items[:limit] + [(f"<{len(h) - limit} more>", rest)]
        out[name] = dict(items)
    return out


def run_check(prop_id: str, tier: str, seed: int, jobs: Optional[int] = None) -> int:
    t0 = time.time()
    prop = load_prop(prop_id)
    ns = getattr(prop, "NSHARDS", 16)
    if isinstance(ns, dict):
        ns = ns.get(tier, 16)
    nshards = jobs or ns
    watchdog = getattr(prop, "WATCHDOG_S", {"quick": 1500, "thorough": 7200})[tier]
    scratch = tempfile.mkdtemp(prefix=f"verif-{prop_id}-")
    env = dict(os.environ)
    env.setdefault("PYTHONHASHSEED", "0")
    env["PYTHONPATH"] = f"{os.environ.get('VERIF_REPO', '/repo')}:{HERE}"
    env["PYANALYZE_VERIF"] = "1"
    env["PYTHONDONTWRITEBYTECODE"] = "1"
    env["VERIF_SCRATCH"] = scratch
    env["TMPDIR"] = scratch
    procs = []
    extra = list(getattr(prop, "PY_FLAGS", {}).get(tier, []))
    for i in range(nshards):
        out = os.path.join(scratch, f"shard{i}.json")
        log = open(os.path.join(scratch, f"shard{i}.log"), "w")
        p = subprocess.Popen(
            [PYTHON, *extra, "-m", "vp.worker", prop_id, tier, str(seed), str(i), str(nshards), out],
            cwd=HERE, env=env, stdout=log, stderr=subprocess.STDOUT,
        )
        procs.append((p, out, log))
    inconclusive: list = []
    results = []
    deadline = t0 + watchdog
    for i, (p, out, log) in enumerate(procs):
        left = max(1.0, deadline - time.time())
        try:
            p.wait(timeout=left)
        except subprocess.TimeoutExpired:
            p.kill()
            p.wait()
            inconclusive.append(f"shard {i} killed by watchdog after {watchdog}s")
        log.close()
        if os.path.exists(out):
            with open(out) as f:
                r = json.load(f)
            results.append(r)
            if r["status"] != "ok":
                inconclusive.append(f"shard {i} crashed: {r['error']}")
        elif not any(s.startswith(f"shard {i} ") for s in inconclusive):
            tail = ""
            try:
                with open(os.path.join(scratch, f"shard{i}.log")) as f:
                    tail = f.read()[-3000:]
            except OSError:
                pass
            inconclusive.append(f"shard {i} died (rc={p.returncode}) without a result: {tail}")
    shutil.rmtree(scratch, ignore_errors=True)

    m = merge(results)
    findings, fixed = load_known(prop_id)
    known_keys = {e["key"]: e for e in findings}

    # floors
    floors = getattr(prop, "FLOORS", {}).get(tier, {})
    n_distinct = len(m["distinct"])
    for name, floor in floors.items():
        have = n_distinct if name == "distinct_nontrivial" else m["counters"].get(name, 0)
        if have < floor:
            inconclusive.append(f"coverage floor missed: {name}={have} < {floor}")

    exit_code = 0
    lines = []
    new_keys = []
    os.makedirs(os.path.join(HERE, "replays"), exist_ok=True)
    known_hits = {}
    for key, lst in sorted(m["violations"].items()):
        n = m["violation_counts"].get(key, len(lst))
        if key in known_keys:
            known_hits[key] = n
            continue
        new_keys.append(key)
        w = lst[0]
        path = os.path.join(HERE, "replays", f"{prop_id}-{digest(key)}.json")
        with open(path, "w") as f:
            json.dump(
                {"property": prop_id, "key": key, "what": w["what"], "witness": w["witness"],
                 "seed": seed, "tier": tier, "occurrences": n},
                f, indent=1,
            )
        lines.append(f"VIOLATION property={prop_id} replay={path}")
        lines.append(f"  key={key} occurrences={n}\n  what: {w['what']}")
        exit_code = 1
    for key, e in sorted(known_keys.items()):
        if key in known_hits:
            lines.append(
                f"KNOWN-FINDING: property={prop_id} {key}: {e.get('what', '')} "
                f"(observed {known_hits[key]}x this run)"
            )
        else:
            lines.append(
                f"NOTE property={prop_id} listed finding not observed this run: {key}"
            )
    if inconclusive and exit_code == 0:
        exit_code = 2

    wall = time.time() - t0
    coverage = {
        "evaluations": int(m["counters"].get("evaluations", 0)),
        "distinct_nontrivial": n_distinct,
        "rule": getattr(prop, "RULE", ""),
        "samples": m["samples"],
        "counters": m["counters"],
        "histograms": trim_histos(m["histos"]),
        "known_finding_hits": known_hits,
        "new_violation_keys": new_keys,
        "shards": len(results),
        "inconclusive": inconclusive,
        "notes": m["notes"],
        "floors": floors,
    }
    if getattr(prop, "EXHAUSTIVE", {}).get(tier):
        coverage["exhaustive"] = True
    ev = {
        "property_id": prop_id,
        "tier": tier,
        "seed": seed,
        "level": getattr(prop, "LEVEL", "exploration"),
        "coverage": coverage,
        "assumptions": list(getattr(prop, "ASSUMPTIONS", [])),
        "wall_s": round(wall, 2),
        "violations": len(new_keys),
        "verdict": {0: "held-on-explored", 1: "violated", 2: "inconclusive"}[exit_code],
    }
    # evidence that counts is only ever written for /repo itself; runs against a scratch copy carrying a
    # seeded mutation (VERIF_REPO=...) go to a git-ignored side directory
    ev_dir = "evidence" if os.path.realpath(os.environ.get("VERIF_REPO", "/repo")) == "/repo" else "evidence-scratch"
    os.makedirs(os.path.join(HERE, ev_dir), exist_ok=True)
    with open(os.path.join(HERE, ev_dir, f"{prop_id}.json"), "w") as f:
        json.dump(ev, f, indent=1, sort_keys=True)
        f.write("\n")

    for line in lines:
        print(line)
    for s in inconclusive:
        print(f"INCONCLUSIVE property={prop_id} reason={s[:2000]}")
    c = m["counters"]
    brief = ", ".join(f"{k}={v}" for k, v in sorted(c.items())[:14])
    print(
        f"{prop_id} tier={tier} seed={seed}: verdict={ev['verdict']} evaluations={coverage['evaluations']} "
        f"distinct_nontrivial={n_distinct} known={len(known_hits)} new={len(new_keys)} wall={wall:.1f}s"
    )
    print(f"  counters: {brief}")
    return exit_code


def run_replay(prop_id: str, path: str) -> int:
    prop = load_prop(prop_id)
    with open(path) as f:
        data = json.load(f)
    witness = data.get("witness", data)
    res = prop.replay(witness)
    if res:
        key, what = res
        print(f"VIOLATION property={prop_id} replay={path}")
        print(f"  key={key}\n  what: {what}")
        return 1
    print(f"replay of {path}: property held on this case")
    return 0
