"""Broad weighted grammar fuzzer for C12 (totality): random derivations of *syntactically valid, importable* modules.

    gen_program(rng) -> (source, features)       features = set of grammar productions used

Design rules
* Everything risky (ill-typed operations, undefined names, odd annotations that would raise when evaluated) sits in
  function bodies / string annotations / lazily evaluated positions, so that importing the module succeeds.  What is
  evaluated at import (decorators, defaults, class bodies, non-string signature annotations) is drawn from vocabularies
  that evaluate fine.  Programs that still fail to import are discarded (and counted) by the consumer.
* The derivation is budgeted: every statement / compound expression production costs one unit; a program's budget is
  drawn from 12..60, so the random part stays at about <= 60 AST statement/expression nodes.
* Syntactic side conditions CPython enforces after parsing (nonlocal/global placement, yield/await context, walrus in
  comprehensions, starred targets, irrefutable match cases, except* restrictions...) are respected by construction
  where cheap; whatever slips through is rejected with compile() and counted by the consumer.
* No random names: all identifiers come from small fixed vocabularies, so that mechanism keys never see a random name.
"""
from __future__ import annotations

import random
import warnings

HEADER = '''\
import abc, asyncio, collections, contextlib, dataclasses, enum, functools, itertools, os, sys, typing
from dataclasses import dataclass, field
from typing import (Annotated, Any, Callable, ClassVar, Concatenate, Final, Generic, Literal, LiteralString, NamedTuple,
                    Never, NewType, NotRequired, Optional, ParamSpec, Protocol, Required, Self, TypeAlias, TypedDict,
                    TypeGuard, TypeVar, TypeVarTuple, Union, Unpack, overload)
T = TypeVar("T"); K = TypeVar("K", int, str); B = TypeVar("B", bound=int)
Ts = TypeVarTuple("Ts"); P = ParamSpec("P")
g1 = 0; g2 = [1, 2]
def deco(fn): return fn
def deco_args(*a, **k): return deco
class Meta(type): pass
class Base:
    attr: int = 0
    def meth(self, x: int = 0) -> int: return x
class Ctx:
    def __enter__(self): return self
    def __exit__(self, *a): return None
    async def __aenter__(self): return self
    async def __aexit__(self, *a): return None
class Color(enum.Enum):
    RED = 1
    BLUE = 2
class _Hostile:
    """hash / repr / == / bool raise something other than TypeError"""
    def __hash__(self): raise ValueError("hash")
    def __repr__(self): raise ValueError("repr")
    def __eq__(self, other): raise ValueError("eq")
    def __bool__(self): raise ValueError("bool")
HOSTILE = _Hostile()
@dataclass
class DFn:
    fn: str = "x"
    name: int = 0
'''

# module-level values of every awkward runtime kind: what the checker knows *literally* (KnownValue of the imported object)
# and may try to hash / compare / print / pickle / iterate / introspect.  Appended to HEADER by the awkward-value sweeps
# (and by a share of the random derivations); importing it has no effect beyond binding the AW_* names.
AWKWARD_HEADER = '''\
import array, io, re, threading, types, weakref
def _mk_closure(step):
    def inner(v=0):
        return v + step
    return inner
def _mk_class():
    class Local:
        attr = 1
        def meth(self, x: int = 0) -> int: return x
    return Local
def _mk_gen():
    yield 1
async def _mk_coro(): return 1
async def _mk_agen():
    yield 1
def _hostile(name, exc=ValueError, **extra):
    """an instance of a class whose hook `name` raises `exc` (not the exception the protocol expects)"""
    def hook(self, *a, **k): raise exc(name)
    hook.__code__ = hook.__code__.replace(co_name=name, co_qualname=name)  # tracebacks name the hook
    return type("_H" + name.strip("_"), (), {name: hook, **extra})()
class _PickleFails(Exception):
    def __init__(self, a, b): super().__init__(a)
class _LyingClass:
    @property
    def __class__(self): return int
class _NegLen:
    def __len__(self): return -1
class _HugeLen:
    def __len__(self): return 1 << 70
    def __getitem__(self, i): return i
class _EndlessIter:
    def __iter__(self): return itertools.count()
class _DynAttrs:
    def __getattr__(self, name): return self
    def __call__(self, *a, **k): return self
    def __getitem__(self, k): return self
AW_CLOSURE = _mk_closure(1)
AW_LOCAL_CLS = _mk_class()
AW_LOCAL_OBJ = AW_LOCAL_CLS()
AW_LOCAL_METH = AW_LOCAL_OBJ.meth
AW_LAMBDA = lambda x=0: x
AW_GEN = _mk_gen()
AW_GENEXP = (i for i in (1, 2))
AW_CORO = _mk_coro(); AW_CORO.close()
AW_AGEN = _mk_agen()
AW_LOCK = threading.Lock()
AW_RLOCK = threading.RLock()
AW_FILE = io.TextIOWrapper(io.BytesIO(b"ab"))  # an open text file without a descriptor (hundreds of these modules are imported per run)
AW_STRINGIO = io.StringIO("ab")
AW_MODULE = types.ModuleType("aw_mod")
AW_BOUND = Base().meth
AW_BUILTIN_BOUND = [].append
AW_PARTIAL = functools.partial(deco, 1)
AW_PARTIAL_CLOSURE = functools.partial(AW_CLOSURE, v=1)
AW_WEAKREF = weakref.ref(Base)
_aw_referent = Base()
AW_WEAKPROXY = weakref.proxy(_aw_referent)
AW_WEAKDICT = weakref.WeakValueDictionary()
AW_H_REDUCE = _hostile("__reduce__")
AW_H_REDUCE_EX = _hostile("__reduce_ex__", exc=AttributeError)
AW_H_GETSTATE = _hostile("__getstate__", exc=RuntimeError)
AW_H_DIR = _hostile("__dir__")
AW_H_BOOL = _hostile("__bool__")
AW_H_LEN = _hostile("__len__")
AW_H_ITER = _hostile("__iter__")
AW_H_INDEX = _hostile("__index__")
AW_H_HASH = _hostile("__hash__")
AW_H_EQ = _hostile("__eq__", __hash__=lambda self: 0)
AW_H_REPR = _hostile("__repr__", __str__=lambda self: (_ for _ in ()).throw(ValueError("str")))
AW_H_FORMAT = _hostile("__format__")
AW_H_CALL = _hostile("__call__")
AW_H_GETITEM = _hostile("__getitem__")
AW_H_ENTER = _hostile("__enter__", __exit__=lambda self, *a: None)
AW_H_SETATTR = _hostile("__setattr__")
AW_H_CONTAINS = _hostile("__contains__")
AW_H_ADD = _hostile("__add__", __radd__=lambda self, o: (_ for _ in ()).throw(ValueError("radd")))
AW_H_LT = _hostile("__lt__")
AW_H_INSTANCECHECK = type("_MI", (type,), {"__instancecheck__": lambda c, o: (_ for _ in ()).throw(ValueError("ic")),
                                             "__subclasscheck__": lambda c, o: (_ for _ in ()).throw(ValueError("sc"))})("_HI", (), {})
AW_LYING_CLASS = _LyingClass()
AW_NEG_LEN = _NegLen()
AW_HUGE_LEN = _HugeLen()
AW_ENDLESS = _EndlessIter()
AW_DYN = _DynAttrs()
AW_EXC_UNREPLAYABLE = _PickleFails(1, 2)
AW_NAN = float("nan")
AW_CYCLE = []; AW_CYCLE.append(AW_CYCLE)
AW_CYCLE_DICT = {}; AW_CYCLE_DICT["self"] = AW_CYCLE_DICT
AW_NESTED_AWKWARD = (1, [AW_CLOSURE, {"k": AW_LOCAL_OBJ}])
AW_MEMORYVIEW = memoryview(b"ab")
AW_ARRAY = array.array("i", [1, 2])
AW_PATTERN = re.compile("a")
AW_NAMESPACE = types.SimpleNamespace(attr=1)
AW_CODE = deco.__code__
AW_FRAME = sys._getframe()
AW_PROPERTY = property(lambda self: 1)
AW_STATICMETHOD = staticmethod(len)
AW_CLASSMETHOD = classmethod(deco)
AW_CACHED_PROPERTY = functools.cached_property(deco)
AW_UNION_TYPE = int | str
AW_GENERIC_ALIAS = list[int]
AW_MAPPINGPROXY = Base.__dict__
AW_NOTIMPLEMENTED = NotImplemented
AW_SLICE = slice(1, None)
AW_ITER = iter([1, 2])
AW_THREAD_LOCAL = threading.local()
'''
AWKWARD = [l.split(" = ")[0] for l in AWKWARD_HEADER.splitlines() if l.startswith("AW_")]
# objects whose implicitly invoked hooks raise: every isinstance / getattr / hasattr probe of them (or of their class) by the
# checker raises.  They get a sweep of their own (the module-level statements below are themselves checked, so every
# program that contains them exercises the probes) and are not given to the random derivations.
PROBE_HOOK_HEADER = '''\
class _RaisingClass:
    @property
    def __class__(self): raise ValueError("__class__")
class _MetaHostile(type):
    def __getattr__(cls, name): raise ValueError(name)
class _HostileMeta(metaclass=_MetaHostile): pass
AW_H_GETATTR = _hostile("__getattr__")
AW_H_GETATTRIBUTE = _hostile("__getattribute__")
AW_RAISING_CLASS = _RaisingClass()
AW_META_HOSTILE = _HostileMeta
AW_META_HOSTILE_OBJ = _HostileMeta()
'''
PROBE_HOOK_VALUES = [l.split(" = ")[0] for l in PROBE_HOOK_HEADER.splitlines() if l.startswith("AW_")]

LOCALS = ["a", "b", "c", "x", "y", "z"]
PARAMS = ["p", "q", "r", "s"]
UNDEFINED = ["undef1", "undef2"]
BUILTINS = ["len", "print", "int", "str", "list", "dict", "range", "isinstance", "sorted", "zip", "enumerate", "map",
            "max", "sum", "type", "getattr", "iter", "next", "tuple", "set", "bool", "float", "bytes", "object", "repr",
            "hash", "abs", "divmod", "reversed", "any", "all", "callable", "vars", "format", "slice", "super", "open",
            "NotImplemented", "Exception", "ValueError", "KeyError", "BaseExceptionGroup", "__name__", "__file__"]
MODULE_NAMES = ["g1", "g2", "deco", "Base", "Ctx", "Color", "Meta", "os", "sys", "typing", "functools", "collections",
                "asyncio", "T", "Ts", "P", "itertools", "enum", "dataclasses"]
ATTRS = ["attr", "meth", "real", "append", "items", "name", "value", "missing", "__class__", "__dict__", "path", "x", "RED",
         "__doc__", "upper", "keys"]
INT_LITS = ["0", "1", "2", "-1", "10", "255", "1_000", "0x1F", "0b11"]
# pyanalyze evaluates operators on literal operands: an exponent that is itself computed (`x ** (y ** z)`) would make the
# in-process check run for ever inside C code, where no alarm can interrupt it; `**` therefore only gets these exponents
# (unbounded constant folding is observed separately, in a resource-limited subprocess, by C12's termination probe)
SAFE_EXPONENTS = ["0", "1", "2", "-1", "0.5", "'a'", "None", "undef1"]
STR_LITS = ["'a'", "''", "'ab'", "'%s'", "'%d %s'", "'{}'", "'{0} {x}'", "'k'", "'\\n'", "'é'", "'日本'", "\"q'\"", "r'\\d'"]
OTHER_LITS = ["None", "True", "False", "...", "1.5", "0.0", "1e10", "2j", "b'x'", "b''", "()", "[]", "{}", "1.", "float('nan')"]
BINOPS = ["+", "-", "*", "/", "//", "%", "**", "@", "<<", ">>", "&", "|", "^"]
CMPOPS = ["<", "<=", ">", ">=", "==", "!=", "is", "is not", "in", "not in"]
UNOPS = ["-", "+", "~", "not "]

# annotation vocabularies ---------------------------------------------------
# evaluate fine at import in any position
SAFE_ANN = [
    "int", "str", "float", "bool", "bytes", "object", "None", "list", "dict", "tuple", "type", "Any", "list[int]", "dict[str, int]",
    "tuple[int, ...]", "tuple[int, str]", "tuple[()]", "set[int]", "frozenset[str]", "type[int]", "type[Base]", "Optional[int]",
    "Union[int, str]", "int | None", "int | str | None", "Optional", "Union", "Callable", "Callable[..., int]", "Callable[[int], str]",
    "Callable[[], None]", "Callable[P, T]", "Callable[Concatenate[int, P], T]", "Literal[1]", "Literal['a', 'b']", "Literal[True, None]",
    "Literal[b'x']", "Literal[Color.RED]", "Literal[-1]", "Literal[1, 'a', None]", "Literal", "Annotated[int, 'meta']",
    "Annotated[int, 1, 2]", "Annotated[list[int], object()]", "Annotated[Optional[int], None]", "Final", "Final[int]", "ClassVar",
    "ClassVar[int]", "ClassVar[list[int]]", "T", "K", "B", "list[T]", "dict[K, T]", "type[T]", "tuple[T, ...]", "tuple[*Ts]",
    "tuple[int, *Ts]", "tuple[Unpack[Ts]]", "tuple[int, *tuple[str, ...]]", "tuple[*tuple[int, ...], str]",
    "tuple[Unpack[tuple[int, ...]]]", "Generic[T]", "Base", "Color", "Ctx", "Meta", "Self", "Never", "LiteralString",
    "TypeGuard[int]", "typing.List[int]", "typing.Dict[str, typing.Any]", "typing.Sequence[int]", "typing.Iterable[T]",
    "typing.Awaitable[int]", "typing.Generator[int, str, None]", "typing.AsyncIterator[int]", "typing.Type[Base]",
    "typing.Tuple[int, ...]", "typing.Tuple", "typing.Mapping[str, int]", "collections.abc.Sequence[int]",
    "collections.abc.Callable[[int], int]", "collections.OrderedDict[str, int]", "functools.partial[int]", "enum.Enum",
    "os.PathLike[str]", "type[Any]", "type[type]", "type[type[int]]", "list[list[list[int]]]", "dict[str, list[tuple[int, ...]]]",
    "P.args", "P.kwargs", "Required[int]", "NotRequired[int]", "'int'", "'list[int]'", "'Base'", "'Later'", "'Optional[Later]'",
    "'tuple[int, *tuple[str, ...]]'", "'tuple[*Ts]'", "'Callable[..., Later]'", "'undef1'", "'int | undef1'", "'1 + '", "''",
    "'list[int'", "'lambda: 1'", "'Literal[\"x\"]'", "'typing.Optional[int]'", "list['Later']", "Optional['Later']",
    "dict[str, 'Later']", "Callable[..., 'Later']", "Annotated['Later', 1]", "Union['Later', None]", "tuple['Later', ...]",
]
# only valid where annotations are NOT evaluated (function bodies, or module under `from __future__ import annotations`)
LAZY_ANN = [
    "NewType()", "NewType('Y', int, 3)", "TypeVar()", "typing.TypeVar()", "TypeVar('X', 1)", "ParamSpec()", "dict[str, list[TypeVar()]]",
    "Literal()", "Optional()", "Callable()", "Annotated()", "list()", "Generic()",
    "Later", "list[Later]", "Later | None", "Optional[Later]", "undef1", "list[undef1]", "1", "(1, 2)", "[int]", "{'a': int}",
    "int()", "len", "lambda: int", "Optional[int, str]", "list[int][str]", "int[str]", "Literal[1 + 2]", "Literal[[1]]",
    "Literal[int]", "Literal[()]", "Literal[...]", "Annotated[int]", "Annotated", "Callable[int]", "Callable[[int]]",
    "Callable[..., ...]", "Callable[[...], int]", "Union[()]", "Union[int]", "tuple[...]", "tuple[int, ..., str]", "tuple[*int]",
    "Unpack", "Unpack[int]", "Final[Final[int]]", "ClassVar[Final[int]]", "Final[ClassVar[int]]", "ClassVar[T]", "Self[int]",
    "Generic", "Protocol[T]", "type[1]", "type[int, str]", "typing", "os.path", "g1", "g2[0]", "Base.attr", "Base()", "Color.RED",
    "not int", "int if g1 else str", "int or str", "-int", "int + str", "x", "p", "[x for x in (int,)]", "f'{int}'", "b'int'",
    "int | 1", "None | None", "'int' | None", "dict[int]", "dict[int, str, bytes]", "list[()]", "P", "Ts", "Concatenate[int, P]",
    "Callable[P, int][int]", "TypeGuard", "Required", "NotRequired[Required[int]]", "Never[int]", "typing.NoReturn[int]",
    "await_", "__debug__", "...", "NotImplemented", "super()", "type(None)", "int.__class__", "a.b.c",
    "'Later'.x", "''.join", "list[int].append", "Later[int]", "Later.inner", "dict[str, 'undef1']", "list[*Ts]", "list[*tuple[int, ...]]",
    "tuple[*Ts, *Ts]", "Annotated[*Ts, 1]", "Optional[*Ts]", "Callable[[*Ts], None]", "Callable[[int, *Ts], T]",
]
NOT_WRAPPABLE = {"Optional", "Union", "Literal", "Generic[T]", "Self", "Never", "TypeGuard[int]", "typing.Tuple", "Callable"}
# malformed string annotations: fine in a def signature, but typing.NamedTuple / TypedDict compile them at class creation
MALFORMED_STR_ANN = {"'1 + '", "''", "'list[int'", "'lambda: 1'"}
TYPE_PARAMS = ["T", "T: int", "T: (int, str)", "*Ts", "**P", "T, U", "T: 'Later'", "T: list[T]", "T: undef1", "T, *Ts, **P"]
SAFE_DEFAULTS = ["None", "0", "1", "''", "'a'", "()", "(1, 2)", "[]", "{}", "True", "...", "g1", "g2", "len", "Base", "Color.RED",
                 "lambda: 0", "-1", "1.5", "b'x'", "int", "Base.attr", "os.sep", "frozenset()", "[1, 2]", "{'a': 1}"]
FUNC_DECORATORS = ["deco", "deco_args()", "deco_args(1, k='a')", "functools.lru_cache", "functools.lru_cache(maxsize=None)",
                   "functools.cache", "contextlib.contextmanager", "typing.no_type_check", "typing.final", "functools.wraps(deco)",
                   "staticmethod", "(lambda f: f)", "deco if g1 else deco", "[deco][0]", "typing.overload", "asyncio.coroutine_"]
METHOD_DECORATORS = ["staticmethod", "classmethod", "property", "functools.cached_property", "abc.abstractmethod", "deco",
                     "deco_args()", "typing.final", "typing.overload", "functools.lru_cache(maxsize=None)", "typing.override_",
                     "contextlib.contextmanager"]
CLASS_DECORATORS = ["deco", "dataclass", "dataclass(frozen=True)", "dataclass(order=True, slots=True)", "dataclasses.dataclass(eq=False)",
                    "typing.final", "functools.total_ordering_", "typing.runtime_checkable_", "deco_args(1)", "enum.unique_"]
BASES = ["Base", "object", "Ctx", "Exception", "dict", "list", "int", "str", "tuple", "Generic[T]", "Protocol", "Protocol[T]",
         "abc.ABC", "typing.Generic[T, K]", "Base, Ctx", "dict[str, int]", "list[T], Generic[T]", "collections.UserDict",
         "typing.Sequence[int]", "typing.NamedTuple_", "enum.Enum", "enum.IntEnum", "enum.Flag", "enum.StrEnum", "TypedDict",
         "NamedTuple", "Color_", "BaseException", "type", "Meta", "tuple[int, str]", "contextlib.AbstractContextManager"]
CLASS_KEYWORDS = ["metaclass=Meta", "metaclass=abc.ABCMeta", "metaclass=type", "total=False"]


# statements; "{v}" = a local name, "\n" is followed by the current indentation when instantiated
ILL_STMTS = [
    "{v}, {v} = 1", "{v}, {v} = 1, 2, 3", "[{v}, *{v}] = None", "for {v} in 1: pass", "for {v}, {v} in [1]: pass",
    "with 1: pass", "with 1 as x, 2 as y: pass", "{v}: int = 'a'", "{v}: str = 1; {v}.nope", "1 .real = 2", "g2.nope = 1", "Base.attr = 'a'",
    "Base().attr = 'a'", "None.x = 1", "(1)[0] = 1", "'a'[0] = 'b'", "(1, 2)[0] = 3", "del undef1", "del {v}, {v}", "del g2[0][1]", "del (1)[0]",
    "{v} += undef1", "{v} = {v} = undef1", "undef1 += 1", "undef1.x += 1", "undef1[0] += 1", "g2[0] @= 1", "g2['a'] += 1", "Base.attr += 'a'",
    "self.nope += 1", "raise 1", "raise ValueError from 1", "assert 1, undef1", "return_ = later_fn(1)(2)(3)", "x = await_ = 1", "async_ = 1",
    "print(later_fn.__wrapped__.nope)", "later_fn.attr = 1", "later_fn()()", "Later.inner.nope.more", "Later().nope()", "Later(1, 2, 3)",
    "Later.nope = 1", "x = Later[int]", "x: Later = Later()", "x: 'Later' = 1", "x: Final = 1; x = 2", "x: ClassVar[int] = 1",
    "x: Final[int]", "x: int; x.nope", "x: 'undef1' = 1", "x: 'tuple[int, *tuple[str, ...]]' = (1,)", "x: tuple[int, *tuple[str, ...]] = (1, 'a')",
    "x: Annotated[int, undef1] = 1", "x: Literal[undef1] = 1", "x: Callable[..., undef1] = print", "x: Optional = None", "x: Optional[()] = None",
    "try:\n    pass\nexcept 1:\n    pass", "try:\n    pass\nexcept* undef1 as e:\n    e.nope",
    "match 1:\n    case int(1, 2):\n        pass", "match 1:\n    case str():\n        pass",
    "match undef1:\n    case undef1.x:\n        pass", "match g1:\n    case Base(1):\n        pass",
    "match g1:\n    case Base.attr:\n        pass", "match g1:\n    case os.sep | Color.RED:\n        pass",
    "match g1:\n    case {'a': 1, **rest}:\n        rest.nope", "match g1:\n    case [1, *rest, 2] as whole:\n        rest.nope; whole.nope",
    "match g1:\n    case 1 | 'a' | None | Color.RED:\n        pass", "match g1, g2:\n    case (1, [*_]):\n        pass",
    "match g1:\n    case later_fn():\n        pass", "match g1:\n    case g1():\n        pass",
    "match g1:\n    case {os.sep: 1}:\n        pass", "match g1:\n    case Later(inner=Later(v=1)):\n        pass",
    "class L1(Base(), nope=1): pass", "class L2(TypedDict, total=False): pass", "class L3(metaclass=Meta): pass", "class L4(undef1, metaclass=undef2): pass",
    "class L5(*g2, **g1): pass", "if p: pass", "while not p: break", "x = p and q or r", "x = 1 if p else 2", "assert p", "x = [i for i in g2 if p]",
    "os.path.join(*g2, 10**30, 'k')", "print(*g2, *g2, sep=1, **g1)", "later_fn(*g2, **g1)", "later_fn(*(1, 2), y=1)", "functools.partial(later_fn, *g2)()",
]

ILL_EXPRS = [
    "sys.version_info >= '3.8'", "(sys.version_info < 3)", "(sys.platform == 3)", "(sys.version_info[0] >= 'a')",
    "range(10 ** 20)", "[*range(10 ** 20)]", "len(range(10 ** 20))", "list(range(10 ** 20))[:1]",
    "HOSTILE", "{HOSTILE: 1}", "{HOSTILE}", "(HOSTILE == 1)", "(1 == HOSTILE)", "[HOSTILE, HOSTILE]", "(HOSTILE in (1, 2))", "(not HOSTILE)",
    "DFn()", "DFn('a')", "DFn(fn='b', name=1)", "DFn().fn",
    "super().__nope", "range('a')", "(10 ** 5000).nope", "max(10 ** 5000, 'a')", "Meta", "[Meta, int][0]", "type(Meta)", "Meta('X', (), {})",
    "([] @ {})",
    "len()",
    "later_fn(1, 2, 3, 4, 5, 6, 7)",
    "later_fn(nope=1)",
    "Base().meth(1, 2, 3)",
    "Base.meth()",
    "Base(1, 2)",
    "os.nope",
    "Color.GREEN",
    "'%d' % 'a'",
    "'%s %s' % (1,)",
    "'{} {}'.format(1)",
    "{[]: 1}",
    "{1: 'a', 1: 'b'}",
    "(1 < 'a')",
    "(1 in 2)",
    "(-'a')",
    "(~1.5)",
    "int('a', 'b', 'c')",
    "isinstance(1)",
    "isinstance(1, 2)",
    "isinstance(1, (int, 'str'))",
    "super().nope",
    "[*1]",
    "{**1}",
    "print(*1)",
    "print(**1)",
    "dict(**{1: 2})",
    "(lambda x: x)()",
    "(lambda: 0)(1)",
    "(1).real()",
    "'a'.upper(1)",
    "[].append()",
    "{}.get()",
    "(1, 2)[5]",
    "(1, 2)['a']",
    "()[1:'a']",
    "[1][None]",
    "{'a': 1}['b']",
    "'abc'[1.5]",
    "b'abc'['a']",
    "range(1)[1, 2]",
    "Ctx()[0]",
    "Base.attr.nope",
    "type(1)(2)(3)",
    "getattr(1)",
    "getattr(1, 2)",
    "typing.cast(1)",
    "typing.cast('undef1', 1)",
    "typing.cast('tuple[int, *tuple[str, ...]]', 1)",
    "typing.assert_type(1, 'list[int')",
    "typing.assert_type(1, undef1)",
    "functools.partial(later_fn, 1, 2, 3, nope=4)",
    "functools.partial(1)",
    "NewType('N', 1)",
    "TypeVar('T', int)",
    "TypeVar(1)",
    "typing.NamedTuple('N', [('a', 1)])",
    "typing.NamedTuple('N', a=int)",
    "TypedDict('TD', {1: int})",
    "TypedDict('TD', {'a': 1})",
    "enum.Enum('E', 1)",
    "Optional[1]",
    "Union[1, 2]",
    "list[1][2]",
    "Callable[1]",
    "Literal[int][0]",
    "Annotated[int]",
    "Generic[1]",
    "tuple[int, ...][0]",
    "type[int][int]",
    "(1 if undef1 else 2)()",
    "sorted(1, key=2)",
    "max()",
    "zip(1, 2)",
    "sum('a', 'b')",
    "open(1, 2, 3)",
    "str(1, 2, 3, 4)",
    "dict(1)",
    "dict([1])",
    "dict(a=1, **{'a': 2})",
    "Color(3)",
    "Color['NOPE']",
    "Color.RED.value.nope",
    "Color.RED()",
    "Meta('X', (), {}, 1)",
    "type('X', 1, 2)",
    "object().x",
    "object.__new__()",
    "NotImplemented()",
    "...()",
    "...[0]",
    "(1)(2)(3)",
    "1 .real.imag.nope",
    "divmod(1, 'a')",
    "abs('a')",
    "hash([])",
    "iter(1)",
    "next(1)",
    "reversed(1)",
    "len(1)",
    "(1 @ 2)",
    "(1 << 'a')",
    "('a' ** 2)",
    "(None < None)",
    "(not undef1)",
    "(1 is 1)",
    "('a' is 'a')",
    "([] == [] == {})",
]


class Fuzz:
    def __init__(self, rng: random.Random, budget: int):
        self.rng = rng
        self.budget = budget
        self.feats: set = set()
        self.future = False
        self.counter = 0
        # context flags (saved/restored around scopes)
        self.in_func = False
        self.is_async = False
        self.is_gen = False
        self.in_loop = False
        self.no_jump = False      # inside except*: no return/break/continue
        self.in_lambda = False
        self.in_comp_iter = False
        self.in_class_body = False
        self.in_or = False
        self.nested = 0           # function nesting depth
        self.names = list(LOCALS)
        # a fifth of the derivations (decided by the budget, so that the main random stream is the same with and without)
        # get the awkward module-level values: a private stream replaces some of the names by AW_* names
        self.awkward = budget % 5 == 0
        self.aw_rng = random.Random(budget * 7919 + 13)

    # ------------------------------------------------------------------ utilities
    def f(self, name: str) -> None:
        self.feats.add(name)

    def spend(self, n: int = 1) -> bool:
        self.budget -= n
        return self.budget > 0

    def chance(self, p: float) -> bool:
        return self.rng.random() < p

    def pick(self, seq):
        return self.rng.choice(seq)

    def weighted(self, table):
        total = sum(w for w, _ in table)
        r = self.rng.random() * total
        for w, v in table:
            r -= w
            if r <= 0:
                return v
        return table[-1][1]

    class _Saved:
        def __init__(self, fz, **kw):
            self.fz, self.kw = fz, kw

        def __enter__(self):
            self.old = {k: getattr(self.fz, k) for k in self.kw}
            for k, v in self.kw.items():
                setattr(self.fz, k, v)

        def __exit__(self, *a):
            for k, v in self.old.items():
                setattr(self.fz, k, v)

    def ctx(self, **kw):
        return Fuzz._Saved(self, **kw)

    # ------------------------------------------------------------------ names and atoms
    def name(self) -> str:
        res = self._name()
        if self.awkward and self.aw_rng.random() < 0.25:
            self.f("name:awkward-module-level-value")
            return self.aw_rng.choice(AWKWARD)
        return res

    def _name(self) -> str:
        r = self.rng.random()
        if r < 0.45:
            return self.pick(self.names)
        if r < 0.60:
            return self.pick(PARAMS)
        if r < 0.75:
            return self.pick(MODULE_NAMES)
        if r < 0.90:
            return self.pick(BUILTINS)
        if r < 0.94:
            return self.pick(["self", "cls", "w1", "n1", "Later", "later_fn"])
        self.f("ill:undefined-name")
        return self.pick(UNDEFINED)

    def literal(self) -> str:
        r = self.rng.random()
        if r < 0.4:
            return self.pick(INT_LITS)
        if r < 0.7:
            return self.pick(STR_LITS)
        return self.pick(OTHER_LITS)

    def atom(self) -> str:
        return self.literal() if self.chance(0.45) else self.name()

    # ------------------------------------------------------------------ expressions
    def expr(self, depth: int = 0) -> str:
        if depth >= 4 or self.budget <= 0 or self.chance(0.28):
            return self.atom()
        self.spend()
        table = [
            (10, self.e_binop), (4, self.e_unary), (4, self.e_boolop), (7, self.e_compare), (4, self.e_ifexp),
            (5, self.e_lambda), (14, self.e_call), (9, self.e_attr), (10, self.e_subscript), (8, self.e_display),
            (9, self.e_comp), (7, self.e_fstring), (4, self.e_walrus), (6, self.e_illtyped), (2, self.e_multiline),
        ]
        if self.is_async and not self.in_lambda:
            table.append((6, self.e_await))
        if self.is_gen and not self.in_lambda and not self.in_comp_iter and not self.in_class_body:
            table.append((3, self.e_yield))
        return self.weighted(table)(depth + 1)

    def e_binop(self, d):
        self.f("expr:binop")
        op = self.pick(BINOPS)
        if op == "**":
            return f"({self.expr(d)} ** {self.pick(SAFE_EXPONENTS)})"
        return f"({self.expr(d)} {op} {self.expr(d)})"

    def e_unary(self, d):
        self.f("expr:unaryop")
        return f"({self.pick(UNOPS)}{self.expr(d)})"

    def e_boolop(self, d):
        self.f("expr:boolop")
        op = self.pick([" and ", " or "])
        return "(" + op.join(self.expr(d) for _ in range(self.rng.randrange(2, 4))) + ")"

    def e_compare(self, d):
        n = self.weighted([(6, 1), (3, 2), (1, 3)])
        self.f("expr:compare-chained" if n > 1 else "expr:compare")
        s = self.expr(d)
        for _ in range(n):
            s += f" {self.pick(CMPOPS)} {self.expr(d)}"
        return f"({s})"

    def e_ifexp(self, d):
        self.f("expr:ifexp")
        return f"({self.expr(d)} if {self.expr(d)} else {self.expr(d)})"

    def e_lambda(self, d):
        self.f("expr:lambda")
        params = self.pick(["", "x", "x, y", "x=1", "*a", "**k", "x, /, y", "x, *, y=2", "*a, **k", "x, y=(1, 2), *z", "_", "x, /"])
        with self.ctx(in_lambda=True):
            body = self.expr(d)
        return f"(lambda {params}: {body})" if params else f"(lambda: {body})"

    def call_args(self, d) -> str:
        args = []
        for _ in range(self.weighted([(3, 0), (5, 1), (4, 2), (2, 3), (1, 5)])):
            if self.chance(0.15):
                self.f("expr:star-arg")
                args.append("*" + self.expr(d + 1))
            elif self.chance(0.06):
                self.f("expr:genexp-arg")
                args.append(self.e_comp(d + 1, kind="gen"))
            else:
                args.append(self.expr(d + 1))
        kws = []
        for k in self.rng.sample(["x", "key", "sep", "p", "default", "end"], self.weighted([(7, 0), (3, 1), (1, 2)])):
            self.f("expr:keyword-arg")
            kws.append(f"{k}={self.expr(d + 1)}")
        if self.chance(0.1):
            self.f("expr:dstar-arg")
            kws.append("**" + self.expr(d + 1))
            if self.chance(0.2):
                kws.append("**" + self.expr(d + 1))
        if kws and self.chance(0.1) and not any(k.startswith("**") for k in kws[:1]):
            kws.insert(1, "*" + self.atom())  # *args after a keyword (but before any **kwargs) is legal
        return ", ".join(args + kws)

    def e_call(self, d):
        self.f("expr:call")
        r = self.rng.random()
        if r < 0.45:
            fn = self.name()
        elif r < 0.7:
            fn = f"{self.postfix_base(d + 1)}.{self.pick(ATTRS)}"
        elif r < 0.8:
            fn = self.pick(["later_fn", "Later", "Base", "Ctx", "Color", "deco", "functools.partial", "os.path.join", "typing.cast",
                            "isinstance", "issubclass", "getattr", "hasattr", "super", "type", "dict", "str.format", "'{} {}'.format",
                            "'%s %s'.__mod__", "asyncio.gather", "dataclasses.replace", "typing.NamedTuple", "enum.Enum", "TypeVar",
                            "NewType", "functools.reduce", "sorted", "min", "zip", "dict.fromkeys", "int.from_bytes", "reveal_type_",
                            "typing.assert_type", "typing.reveal_type", "typing.assert_never", "callable", "len", "range", "print"])
        else:
            fn = self.expr(d + 1)
        return f"{fn}({self.call_args(d)})"

    def postfix_base(self, d) -> str:
        """an expression that may be followed by `.attr` (a bare number may not: `1.real`)"""
        base = self.expr(d)
        if base[:1].isdigit() or base[:1] in "-.":
            base = f"({base})"
        return base

    def e_attr(self, d):
        self.f("expr:attribute")
        return f"{self.postfix_base(d)}.{self.pick(ATTRS)}"

    def slice_part(self, d):
        r = self.rng.random()
        lo = self.expr(d + 2) if self.chance(0.6) else ""
        hi = self.expr(d + 2) if self.chance(0.6) else ""
        if r < 0.5:
            self.f("expr:slice")
            return f"{lo}:{hi}"
        self.f("expr:slice-step")
        return f"{lo}:{hi}:{self.expr(d + 2) if self.chance(0.7) else ''}"

    def e_subscript(self, d):
        base = self.expr(d)
        r = self.rng.random()
        if r < 0.4:
            self.f("expr:subscript-index")
            idx = self.expr(d)
        elif r < 0.7:
            idx = self.slice_part(d)
        elif r < 0.85:
            self.f("expr:subscript-tuple")
            idx = ", ".join(self.slice_part(d) if self.chance(0.4) else self.expr(d + 1) for _ in range(self.rng.randrange(2, 4)))
        elif r < 0.93:
            self.f("expr:subscript-starred")
            idx = f"*{self.atom()}" + (f", {self.expr(d + 1)}" if self.chance(0.5) else "")
        else:
            self.f("expr:subscript-empty-tuple-or-ellipsis")
            idx = self.pick(["()", "...", "..., 0", "None", "-1", "True", "'a':", ":'b'", "::'c'"])
        return f"{base}[{idx}]"

    def e_display(self, d):
        kind = self.pick(["list", "tuple", "set", "dict"])
        n = self.weighted([(2, 0), (4, 1), (4, 2), (2, 3)])
        if kind == "dict":
            self.f("expr:dict-display")
            items = []
            for _ in range(n):
                if self.chance(0.2):
                    self.f("expr:dict-dstar")
                    items.append("**" + self.expr(d + 1))
                else:
                    items.append(f"{self.expr(d + 1)}: {self.expr(d + 1)}")
            return "{" + ", ".join(items) + "}"
        items = []
        for _ in range(n):
            if self.chance(0.2):
                self.f("expr:display-star")
                items.append("*" + self.expr(d + 1))
            else:
                items.append(self.expr(d + 1))
        self.f(f"expr:{kind}-display")
        if kind == "list":
            return "[" + ", ".join(items) + "]"
        if kind == "set":
            return "{" + ", ".join(items) + "}" if items else "set()"
        return "(" + ", ".join(items) + ("," if len(items) == 1 else "") + ")"

    def comp_target(self) -> str:
        r = self.rng.random()
        if r < 0.6:
            return self.pick(["i", "j", "k"])
        if r < 0.8:
            return self.pick(["i, j", "(i, j)", "i, (j, k)", "[i, j]"])
        self.f("comp:star-target")
        return self.pick(["i, *j", "*i, j", "(i, *j, k)"])

    def e_comp(self, d, kind=None):
        kind = kind or self.pick(["list", "set", "dict", "gen"])
        self.f(f"expr:{kind}comp")
        with self.ctx(names=self.names + ["i", "j", "k"], is_gen=False):
            nfor = self.weighted([(7, 1), (3, 2)])
            clauses = []
            for ci in range(nfor):
                is_async = self.is_async and not self.in_lambda and self.chance(0.25)
                if is_async:
                    self.f("comp:async-for")
                with self.ctx(in_comp_iter=True):
                    it = self.expr(d + 1)
                clause = f"{'async ' if is_async else ''}for {self.comp_target()} in {it}"
                for _ in range(self.weighted([(5, 0), (4, 1), (1, 2)])):
                    self.f("comp:if")
                    clause += f" if {self.expr(d + 1)}"
                clauses.append(clause)
            if nfor > 1:
                self.f("comp:nested-for")
            if kind == "dict":
                elt = f"{self.expr(d + 1)}: {self.expr(d + 1)}"
            else:
                elt = self.expr(d + 1)
        body = f"{elt} {' '.join(clauses)}"
        return {"list": f"[{body}]", "set": "{" + body + "}", "dict": "{" + body + "}", "gen": f"({body})"}[kind]

    def e_fstring(self, d):
        self.f("expr:fstring")
        parts = []
        for _ in range(self.rng.randrange(1, 4)):
            r = self.rng.random()
            if r < 0.25:
                parts.append(self.pick(["text ", "{{", "}}", "%s", " ", "é", "{{}}"]))
                continue
            inner = self.expr(d + 1)
            if not inner.startswith("("):
                inner = f"({inner})" if not inner.replace("_", "").isalnum() else inner
            field = inner
            if self.chance(0.25):
                self.f("fstring:self-documenting")
                field += self.pick(["=", " = ", "= "])
            if self.chance(0.3):
                self.f("fstring:conversion")
                field += self.pick(["!r", "!s", "!a"])
            if self.chance(0.4):
                r2 = self.rng.random()
                if r2 < 0.4:
                    field += self.pick([":>10", ":d", ":.2f", ":x", ":", ":%Y", ":,", ":zz", ":05", ":^"])
                    self.f("fstring:spec")
                elif r2 < 0.8:
                    self.f("fstring:nested-spec")
                    field += ":" + self.pick([">", "", "0", "^"]) + "{" + self.pick(LOCALS + INT_LITS[:5]) + "}" + self.pick(["", ".{" + self.pick(LOCALS) + "}", "d"])
                else:
                    self.f("fstring:doubly-nested-spec")
                    field += ":{" + self.pick(LOCALS) + ":{" + self.pick(LOCALS) + "}}"
            parts.append("{" + field + "}")
        body = "".join(parts)
        prefix = self.pick(["f", "f", "f", "rf", "F"])
        if "\\" in body or '"' in body:
            quote = '"""'
        else:
            quote = '"'
        if self.chance(0.08):
            self.f("fstring:implicit-concat")
            return f"('lit' {prefix}{quote}{body}{quote} 'more')"
        return f"{prefix}{quote}{body}{quote}"

    def e_walrus(self, d):
        if self.in_comp_iter or self.in_class_body:
            return self.atom()
        self.f("expr:walrus")
        return f"({self.pick(['w1', 'w2'])} := {self.expr(d)})"

    def e_await(self, d):
        self.f("expr:await")
        return f"(await ({self.expr(d)}))"

    def e_yield(self, d):
        if self.is_async or self.chance(0.6):
            self.f("expr:yield")
            return f"(yield {self.expr(d)})" if self.chance(0.8) else "(yield)"
        self.f("expr:yield-from")
        return f"(yield from {self.expr(d)})"

    def e_multiline(self, d):
        self.f("layout:multiline-expr")
        r = self.rng.random()
        if r < 0.4:
            return "(\n" + self.expr(d) + "\n    ,\n" + self.expr(d) + "\n)"
        if r < 0.7:
            return "'''line1\nline2 é\n'''"
        return "[\n  # comment inside\n  " + self.expr(d) + ",\n]"

    def e_illtyped(self, d):
        self.f("ill:expression")
        a = self.atom
        if self.chance(0.75):
            return self.pick(ILL_EXPRS)
        forms = [
            lambda: f"{self.pick(INT_LITS)}({self.call_args(d)})",
            lambda: f"{self.pick(INT_LITS)}[{self.expr(d)}]",
            lambda: f"None.{self.pick(ATTRS)}",
            lambda: f"None({a()})",
            lambda: f"None[{a()}]",
            lambda: f"('a' + {self.pick(INT_LITS)})",
            lambda: f"({self.pick(INT_LITS)} + None)",
            lambda: f"len({a()}, {a()})",
            lambda: f"{self.pick(UNDEFINED)}.{self.pick(ATTRS)}",
            lambda: f"{self.pick(UNDEFINED)}({a()})",
        ]
        return self.pick(forms)()

    # ------------------------------------------------------------------ annotations
    def annotation(self, lazy: bool) -> str:
        """lazy = the annotation is never evaluated at import time."""
        self.f("annotation")
        pool = SAFE_ANN
        if (lazy or self.future) and self.chance(0.5):
            pool = LAZY_ANN
            self.f("annotation:odd-lazy")
        s = self.pick(pool)
        if s.startswith("'"):
            self.f("annotation:string")
        if "Later" in s:
            self.f("annotation:forward-ref")
        if "*" in s or "Unpack" in s:
            self.f("annotation:star-or-unpack")
        for w in ("Annotated", "Literal", "Callable", "Final", "ClassVar", "Optional"):
            if w in s:
                self.f(f"annotation:{w}")
        if self.chance(0.12) and pool is SAFE_ANN and s not in NOT_WRAPPABLE and not s.startswith(("'", "*", "Final", "ClassVar", "Required", "NotRequired", "P.")):
            wrap = self.pick(["Optional[{}]", "list[{}]", "Annotated[{}, 'm']", "Union[{}, None]", "tuple[{}, ...]", "Callable[..., {}]",
                              "type[{}]", "dict[str, {}]", "'{}'"])
            if not (wrap == "'{}'" and "'" in s):
                s = wrap.format(s)
        return s

    # ------------------------------------------------------------------ targets
    def simple_target(self) -> str:
        r = self.rng.random()
        if r < 0.5:
            return self.pick(self.names[:6])
        if r < 0.75:
            self.f("target:attribute")
            return f"{self.pick(self.names + ['self', 'Base', 'g2'])}.{self.pick(ATTRS[:8] + ['x'])}"
        self.f("target:subscript")
        return f"{self.pick(self.names + ['g2', 'self'])}[{self.expr(2) if self.chance(0.7) else self.slice_part(2)}]"

    def target(self, depth=0, star=True) -> str:
        if depth >= 2 or self.chance(0.6):
            return self.simple_target()
        n = self.rng.randrange(1, 4)
        items = [self.target(depth + 1, star) for _ in range(n)]
        if star and self.chance(0.35):
            self.f("target:starred")
            i = self.rng.randrange(len(items))
            items[i] = "*" + self.pick(self.names[:6])
        self.f("target:tuple")
        if self.chance(0.25):
            return "[" + ", ".join(items) + "]"
        return "(" + ", ".join(items) + ("," if len(items) == 1 else "") + ")"

    # ------------------------------------------------------------------ patterns
    def pattern(self, depth: int, top: bool, last: bool, bind: bool) -> str:
        """bind=False -> no capture names (for or-pattern alternatives)."""
        r = self.rng.random()
        if depth >= 3:
            r = r * 0.35
        if r < 0.16:
            self.f("pattern:value")
            return self.pick(["0", "1", "-1", "'a'", "b'x'", "1.5", "-1.5", "1+2j", "-1-2j", "2j", "Color.RED", "os.sep", "Base.attr",
                              "undef1.x", "g1.real", "''", "f_.x"]).replace("f_.x", "'a' 'b'")
        if r < 0.22:
            self.f("pattern:singleton")
            return self.pick(["None", "True", "False"])
        if r < 0.35:
            if not bind or (top and not last):
                self.f("pattern:wildcard-nested" if not top else "pattern:value")
                return "_" if not top or last else "0"
            self.f("pattern:capture" if self.chance(0.6) else "pattern:wildcard")
            self.counter += 1
            return self.pick([f"m{self.counter}", "_"])
        if r < 0.52:
            self.f("pattern:sequence")
            n = self.rng.randrange(0, 4)
            items = [self.pattern(depth + 1, False, False, bind) for _ in range(n)]
            if self.chance(0.4):
                self.f("pattern:star")
                self.counter += 1
                items.insert(self.rng.randrange(len(items) + 1), self.pick([f"*m{self.counter}" if bind else "*_", "*_"]))
            if self.chance(0.5):
                return "[" + ", ".join(items) + "]"
            return "(" + ", ".join(items) + ("," if len(items) == 1 else "") + ")" if items else "()"
        if r < 0.66:
            self.f("pattern:mapping")
            keys = self.rng.sample(["'a'", "'b'", "1", "None", "Color.RED", "b'k'", "-1", "os.sep"], self.rng.randrange(0, 3))
            items = [f"{k}: {self.pattern(depth + 1, False, False, bind)}" for k in keys]
            if self.chance(0.3) and bind:
                self.f("pattern:mapping-rest")
                self.counter += 1
                items.append(f"**m{self.counter}")
            return "{" + ", ".join(items) + "}"
        if r < 0.82:
            self.f("pattern:class")
            cls = self.pick(["int", "str", "Base", "Color", "Ctx", "list", "dict", "tuple", "undef1", "os.PathLike", "g1", "Later",
                             "bool", "float", "bytes", "type", "object", "typing.Sequence", "collections.abc.Mapping", "later_fn"])
            pos = [self.pattern(depth + 1, False, False, bind) for _ in range(self.weighted([(5, 0), (4, 1), (1, 2)]))]
            kw = [f"{k}={self.pattern(depth + 1, False, False, bind)}" for k in self.rng.sample(["attr", "real", "x", "name"], self.weighted([(6, 0), (3, 1), (1, 2)]))]
            if kw:
                self.f("pattern:class-keyword")
            if pos:
                self.f("pattern:class-positional")
            return f"{cls}({', '.join(pos + kw)})"
        if r < 0.91:
            self.f("pattern:or")
            was_in_or = self.in_or
            with self.ctx(in_or=True):
                alts = [self.pattern(depth + 1, False, False, False) for _ in range(self.rng.randrange(2, 4))]
            alts = [a for a in alts if a != "_"] or ["0"]
            if (not top or last) and not was_in_or:
                if self.chance(0.15):
                    alts.append("_")
            return "(" + " | ".join(alts) + ")"
        self.f("pattern:as")
        if not bind:
            return "0"
        inner = self.pattern(depth + 1, top, last, bind)
        if inner in ("_",) or inner.startswith("*"):
            inner = "0"
        self.counter += 1
        return f"({inner} as m{self.counter})"

    # ------------------------------------------------------------------ statements
    def block(self, ind: str, min_stmts: int = 1, max_stmts: int = 4) -> list:
        out = []
        n = self.rng.randrange(min_stmts, max_stmts + 1)
        for _ in range(n):
            if self.budget <= 0 and out:
                break
            out.extend(self.stmt(ind))
        return out or [ind + "pass"]

    def stmt(self, ind: str) -> list:
        self.spend()
        table = [
            (12, self.s_expr), (14, self.s_assign), (6, self.s_augassign), (7, self.s_annassign), (5, self.s_if),
            (4, self.s_for), (3, self.s_while), (5, self.s_try), (4, self.s_with), (6, self.s_match), (3, self.s_del),
            (2, self.s_raise), (2, self.s_assert), (2, self.s_import), (4, self.s_nested_def), (2, self.s_nested_class),
            (2, self.s_type_alias), (1, self.s_pass), (4, self.s_illtyped), (1, self.s_layout),
        ]
        if not self.no_jump:
            table.append((5, self.s_return))
            if self.in_loop:
                table.append((3, self.s_jump))
        if self.is_async:
            table += [(4, self.s_async_for), (4, self.s_async_with)]
        if self.budget <= 2:
            table = [(1, self.s_expr), (1, self.s_assign), (1, self.s_pass)]
        return self.weighted(table)(ind)

    def s_expr(self, ind):
        self.f("stmt:expr")
        return [ind + self.expr()]

    def s_pass(self, ind):
        self.f("stmt:pass")
        return [ind + self.pick(["pass", "...", "'docstring'", "pass; pass", "pass  # trailing comment"])]

    def s_assign(self, ind):
        self.f("stmt:assign")
        n = self.weighted([(8, 1), (2, 2), (1, 3)])
        if n > 1:
            self.f("stmt:assign-multi-target")
        targets = " = ".join(self.target() for _ in range(n))
        r = self.rng.random()
        if r < 0.1:
            self.f("stmt:assign-star-value")
            value = f"*{self.expr(1)}, {self.expr(1)}"
        elif r < 0.2:
            value = f"{self.expr(1)}, {self.expr(1)}"
        else:
            value = self.expr()
        return [f"{ind}{targets} = {value}"]

    def s_augassign(self, ind):
        t = self.simple_target()
        self.f("stmt:augassign-" + ("attribute" if "." in t.split("[")[0] and not t.endswith("]") else "subscript" if t.endswith("]") else "name"))
        op = self.pick(BINOPS)
        return [f"{ind}{t} {op}= {self.pick(SAFE_EXPONENTS) if op == '**' else self.expr()}"]

    def s_annassign(self, ind):
        self.f("stmt:annassign")
        lazy = self.in_func
        r = self.rng.random()
        if r < 0.7 or not self.in_func:
            t = self.pick(self.names[:6])
        elif r < 0.85:
            self.f("stmt:annassign-attribute")
            t = f"self.{self.pick(ATTRS[:4])}"
        else:
            self.f("stmt:annassign-subscript-or-paren")
            t = self.pick([f"({self.pick(self.names[:6])})", f"{self.pick(self.names[:6])}[0]"])
        ann = self.annotation(lazy)
        if self.chance(0.3):
            self.f("stmt:annassign-no-value")
            return [f"{ind}{t}: {ann}"]
        return [f"{ind}{t}: {ann} = {self.expr()}"]

    def s_return(self, ind):
        self.f("stmt:return")
        if (self.is_async and self.is_gen) or self.chance(0.2):
            return [ind + "return"]
        if self.chance(0.1):
            self.f("stmt:return-star")
            return [f"{ind}return *{self.expr(1)}, {self.expr(1)}"]
        return [f"{ind}return {self.expr()}"]

    def s_jump(self, ind):
        self.f("stmt:break-continue")
        return [ind + self.pick(["break", "continue"])]

    def s_if(self, ind):
        self.f("stmt:if")
        test = self.pick([self.expr, self.expr, self.narrowing_test])()
        out = [f"{ind}if {test}:"] + self.block(ind + "    ", 1, 2)
        for _ in range(self.weighted([(6, 0), (3, 1), (1, 2)])):
            self.f("stmt:elif")
            out += [f"{ind}elif {self.expr()}:"] + self.block(ind + "    ", 1, 2)
        if self.chance(0.4):
            self.f("stmt:else")
            out += [f"{ind}else:"] + self.block(ind + "    ", 1, 2)
        return out

    def narrowing_test(self):
        self.f("expr:narrowing-test")
        v = self.pick(self.names[:6] + PARAMS)
        return self.pick([
            f"isinstance({v}, int)", f"isinstance({v}, (int, str))", f"{v} is None", f"{v} is not None", f"not {v}", f"{v} == 1",
            f"{v} in (1, 'a')", f"callable({v})", f"hasattr({v}, 'attr')", f"issubclass({v}, Base)", f"type({v}) is int", f"len({v}) == 2",
            f"isinstance({v}, undef1)", f"isinstance({v}, 1)", f"isinstance({v}, list[int])", f"isinstance({v}, typing.Sequence)",
            f"isinstance({v}, Later) and {v}.inner", f"({v} := {self.pick(PARAMS)}) is not None" if not (self.in_comp_iter or self.in_class_body) else f"{v}",
            f"{v}.attr is None", f"{v}[0] is None", f"isinstance({v}.attr, int)", f"{v} is Color.RED", f"{v} == Color.RED", f"{v} is True",
            f"isinstance({v}, int | str)", f"isinstance({v}, Union[int, str])", f"isinstance({v}, (int, (str, (bytes,))))", f"isinstance({v}, type)",
            f"isinstance({v}, Callable)", f"isinstance({v}, Color)", f"isinstance({v}, type(None))", f"{v} is ...", f"{v} is NotImplemented",
        ])

    def s_for(self, ind):
        self.f("stmt:for")
        head = f"{ind}for {self.target() if self.chance(0.5) else self.pick(self.names[:6])} in {self.expr()}:"
        if self.chance(0.08):
            self.f("stmt:for-star-iter")
            head = f"{ind}for {self.pick(self.names[:6])} in *{self.atom()}, {self.atom()}:"
        with self.ctx(in_loop=True):
            out = [head] + self.block(ind + "    ", 1, 3)
        if self.chance(0.25):
            self.f("stmt:for-else")
            out += [f"{ind}else:"] + self.block(ind + "    ", 1, 2)
        return out

    def s_async_for(self, ind):
        self.f("stmt:async-for")
        with self.ctx(in_loop=True):
            out = [f"{ind}async for {self.target() if self.chance(0.3) else self.pick(self.names[:6])} in {self.expr()}:"] + self.block(ind + "    ", 1, 3)
        if self.chance(0.25):
            out += [f"{ind}else:"] + self.block(ind + "    ", 1, 2)
        return out

    def s_while(self, ind):
        self.f("stmt:while")
        test = self.pick([self.expr, self.narrowing_test, lambda: "True", lambda: "1"])()
        with self.ctx(in_loop=True):
            out = [f"{ind}while {test}:"] + self.block(ind + "    ", 1, 3)
        if self.chance(0.3):
            self.f("stmt:while-else")
            out += [f"{ind}else:"] + self.block(ind + "    ", 1, 2)
        return out

    def exc_type(self) -> str:
        return self.pick(["Exception", "ValueError", "(KeyError, TypeError)", "BaseException", "OSError", "undef1", "1", "(int, str)",
                          "Base", "g1", "()", "ExceptionGroup", "Exception()", "(ValueError, undef1)", "os.error", "typing.Any", "None",
                          "tuple([ValueError])", "p", "KeyboardInterrupt", "StopIteration", "(Exception, (ValueError, (KeyError,)))"])

    def s_try(self, ind):
        star = self.chance(0.35)
        self.f("stmt:try-except-star" if star else "stmt:try")
        out = [f"{ind}try:"] + self.block(ind + "    ", 1, 2)
        nh = self.weighted([(2, 0), (6, 1), (2, 2)])
        for hi in range(nh):
            asname = f" as {self.pick(['e', 'exc'])}" if self.chance(0.5) else ""
            if star:
                head = f"{ind}except* {self.exc_type()}{asname}:"
                with self.ctx(no_jump=True, in_loop=False):
                    body = self.block(ind + "    ", 1, 2)
            else:
                if hi == nh - 1 and self.chance(0.15):
                    self.f("stmt:bare-except")
                    head = f"{ind}except:"
                else:
                    head = f"{ind}except {self.exc_type()}{asname}:"
                with self.ctx(names=self.names + (["e", "exc"] if asname else [])):
                    body = self.block(ind + "    ", 1, 2)
            out += [head] + body
        if nh and self.chance(0.3):
            self.f("stmt:try-else")
            out += [f"{ind}else:"] + self.block(ind + "    ", 1, 2)
        if nh == 0 or self.chance(0.3):
            self.f("stmt:finally")
            out += [f"{ind}finally:"] + self.block(ind + "    ", 1, 2)
        return out

    def with_items(self) -> str:
        n = self.weighted([(5, 1), (4, 2), (1, 3)])
        if n > 1:
            self.f("stmt:with-multiple-items")
        items = []
        for _ in range(n):
            e = self.pick([lambda: "Ctx()", lambda: "open('f')", self.expr, lambda: "contextlib.suppress(Exception)", lambda: "later_cm()",
                           lambda: "contextlib.nullcontext(1)", lambda: "1", lambda: "undef1"])()
            if self.chance(0.55):
                self.f("stmt:with-as")
                e += f" as {self.target()}"
            items.append(e)
        s = ", ".join(items)
        if n > 1 and self.chance(0.3):
            self.f("stmt:with-parenthesized")
            s = f"({s})"
        return s

    def s_with(self, ind):
        self.f("stmt:with")
        return [f"{ind}with {self.with_items()}:"] + self.block(ind + "    ", 1, 3)

    def s_async_with(self, ind):
        self.f("stmt:async-with")
        return [f"{ind}async with {self.with_items()}:"] + self.block(ind + "    ", 1, 3)

    def s_match(self, ind):
        self.f("stmt:match")
        subj = self.pick([self.expr, self.atom, lambda: f"{self.atom()}, {self.atom()}", lambda: self.pick(PARAMS)])()
        out = [f"{ind}match {subj}:"]
        ncases = self.rng.randrange(1, 4)
        for ci in range(ncases):
            last = ci == ncases - 1
            guarded = self.chance(0.25)
            pat = self.pattern(0, True, last or guarded, True)
            if guarded:
                self.f("pattern:guard")
                pat += f" if {self.expr(1)}"
            elif self.chance(0.1):
                self.f("pattern:open-sequence")
                pat = self.pick(["0, 1", "*_, 0", "m_a, *m_b"]) if last else self.pick(["0, 1", "*_, 0", "0, *_"])
            out.append(f"{ind}    case {pat}:")
            with self.ctx(names=self.names + [f"m{self.counter}"] if self.counter else self.names):
                out += self.block(ind + "        ", 1, 2)
        return out

    def s_del(self, ind):
        self.f("stmt:del")
        n = self.weighted([(6, 1), (3, 2)])
        ts = [self.simple_target() if self.chance(0.7) else self.target(star=False) for _ in range(n)]
        return [f"{ind}del {', '.join(ts)}"]

    def s_raise(self, ind):
        self.f("stmt:raise")
        r = self.rng.random()
        if r < 0.2:
            return [ind + "raise"]
        if r < 0.6:
            return [f"{ind}raise {self.pick(['ValueError', 'ValueError(1)', '1', 'undef1', 'Base', 'None', 'e', 'Exception()'])}"]
        self.f("stmt:raise-from")
        return [f"{ind}raise {self.expr(2)} from {self.pick(['None', 'e', '1', 'undef1', 'ValueError()'])}"]

    def s_assert(self, ind):
        self.f("stmt:assert")
        t = self.pick([self.expr, self.narrowing_test, lambda: "(1, 'always true tuple')", lambda: "False"])()
        return [f"{ind}assert {t}" + (f", {self.expr(2)}" if self.chance(0.4) else "")]

    def s_import(self, ind):
        self.f("stmt:import")
        return [ind + self.pick([
            "import os.path as osp", "import os, sys as system", "from os import path, sep as s_", "import nonexistent_mod_", "from os import nope_",
            "from typing import List, Dict as D_", "import collections.abc", "from . import sibling_", "from .. import up_", "from .rel_ import name_",
            "import xml.etree.ElementTree as ET", "import json",
            "from collections import *" if not self.in_func else "import collections as c_", "import os.nope_.deeper_", "from os.path import (join,\n" + ind + "    split)",
        ])]

    def s_type_alias(self, ind):
        self.f("stmt:type-alias-pep695")
        name = self.pick(["Alias", "Alias2"])
        params = f"[{self.pick(TYPE_PARAMS)}]" if self.chance(0.35) else ""
        return [f"{ind}type {name}{params} = {self.annotation(True)}"]

    def s_layout(self, ind):
        self.f("layout:odd")
        return [ind + self.pick([
            "x = 1; y = 2; x + y", "x = \\\n" + ind + "    1", "# just a comment\n" + ind + "pass", "x = (  # comment\n" + ind + "    1 +\n" + ind + "    undef1)",
            "if x: pass", "for i in (): pass", "while 0: break", "class _Tiny: pass", "def _tiny(): pass", "x = '''a\n  b\n''' + 1", "\tpass".strip(),
            "with Ctx(): pass", "try: pass\n" + ind + "finally: pass", "x = [\n" + ind + "  1,\n" + ind + "  undef1,\n" + ind + "]",
            "lambda: (yield)", "print(end='')  # static analysis: not-an-ignore", "x = 1  # type: ignore", "x: int = 'é日本' + undef1",
        ])]

    def s_illtyped(self, ind):
        self.f("ill:statement")
        return [ind + self.pick(ILL_STMTS).replace("\n", "\n" + ind).replace("{v}", self.pick(self.names[:6]))]

    # ------------------------------------------------------------------ functions
    def params(self, method: str = "", lazy: bool = False) -> str:
        """method: '' | 'self' | 'cls' | 'static'"""
        names = list(PARAMS)
        self.rng.shuffle(names)
        n = self.weighted([(2, 0), (4, 1), (4, 2), (2, 3), (1, 4)])
        names = names[:n]
        parts = []
        if method in ("self", "cls"):
            first = method if self.chance(0.92) else self.pick(["this", "_"])
            if self.chance(0.1):
                first += f": {self.pick(['Self', 'Any', 'T', chr(39) + 'Later' + chr(39)])}"
            parts.append(first)

        def one(nm, allow_default=True, must_default=False):
            s = nm
            if self.chance(0.6):
                s += f": {self.annotation(lazy)}"
            if must_default or (allow_default and self.chance(0.35)):
                s += (" = " if ":" in s else "=") + self.pick(SAFE_DEFAULTS)
                return s, True
            return s, False

        shape = self.weighted([(6, "plain"), (2, "posonly"), (2, "kwonly"), (2, "star"), (2, "both"), (1, "all")])
        self.f(f"params:{shape}")
        seen_default = False
        out = []
        if shape in ("posonly", "all") and names:
            s, dflt = one(names.pop(0))
            seen_default = dflt
            out += [s, "/"]
        npos = len(names) if shape in ("plain", "posonly") else max(0, len(names) - 1)
        for nm in names[:npos]:
            s, dflt = one(nm, must_default=seen_default)
            seen_default = seen_default or dflt
            out.append(s)
        rest = names[npos:]
        if shape in ("star", "both", "all"):
            ann = ""
            if self.chance(0.5):
                ann = ": " + self.pick(["int", "*Ts", "Unpack[Ts]", "P.args", "Any", "'int'", "*tuple[int, ...]", "*tuple[int, str]", "object", "T"])
                self.f("params:star-annotation")
            out.append(f"*args{ann}")
        elif shape == "kwonly" and rest:
            out.append("*")
        if shape in ("kwonly", "star", "all"):
            for nm in rest:
                s, _ = one(nm)
                out.append(s)
        if shape in ("both", "all") or (shape == "star" and self.chance(0.3)):
            ann = ""
            if self.chance(0.5):
                ann = ": " + self.pick(["int", "Unpack[LaterTD]" if lazy or self.future else "'Unpack[LaterTD]'", "P.kwargs", "Any", "'str'", "object", "T"])
            out.append(f"**kwargs{ann}")
        return ", ".join(parts + out)

    def funcdef(self, ind: str, name: str, method: str = "", decorators=None, toplevel: bool = False) -> list:
        """Everything in the signature is evaluated at definition time: lazy only when nested (never executed)."""
        lazy = self.in_func  # nested defs are never executed
        self.spend(2)
        is_async = self.chance(0.28)
        is_gen = self.chance(0.25)
        kind = ("async-" if is_async else "") + ("generator" if is_gen else "function")
        self.f(f"def:{kind}")
        out = []
        for dec in decorators or []:
            out.append(f"{ind}@{dec}")
        tparams = ""
        if self.chance(0.15):
            self.f("def:pep695-type-params")
            tparams = f"[{self.pick(TYPE_PARAMS)}]"
        ret = ""
        if self.chance(0.55):
            ret = f" -> {self.annotation(lazy)}"
            self.f("def:return-annotation")
        sig = f"{ind}{'async ' if is_async else ''}def {name}{tparams}({self.params(method, lazy)}){ret}:"
        out.append(sig)
        inner = ind + "    "
        body = []
        with self.ctx(in_func=True, is_async=is_async, is_gen=is_gen, in_loop=False, no_jump=False, in_lambda=False, in_comp_iter=False,
                      in_class_body=False, nested=self.nested + 1, names=list(LOCALS)):
            if self.chance(0.15):
                self.f("def:docstring")
                body.append(inner + self.pick(['"""doc."""', "'''multi\n" + inner + "line é'''", "'doc'"]))
            if self.chance(0.15):
                self.f("stmt:global")
                body.append(inner + self.pick(["global g1", "global g1, g2", "global g_new"]))
            if self.nested >= 2 and self.chance(0.4):
                self.f("stmt:nonlocal")
                body.append(inner + "nonlocal n1")
                body.append(inner + self.pick(["n1 += 1", "n1 = 'a'", "del n1", "n1: int", "print(n1)"]).replace("n1: int", "n1 = n1"))
            body.append(inner + f"n1 = {self.literal()}") if self.chance(0.5) or self.nested == 1 else None
            body += self.block(inner, 1, 5)
            if is_gen and not any("yield" in l for l in body):
                body.append(inner + (f"yield {self.expr(2)}" if self.chance(0.8) else "yield"))
            if is_gen and not is_async and self.chance(0.3):
                self.f("expr:yield-from")
                body.append(inner + self.pick(["x = yield from {}", "yield from {}", "return (yield from {})"]).format(self.expr(2)))
            if is_async and not any("await" in l for l in body) and self.chance(0.5):
                self.f("expr:await")
                body.append(inner + f"await ({self.expr(2)})")
        return out + body

    def s_nested_def(self, ind):
        self.f("def:nested")
        decs = [self.pick(FUNC_DECORATORS + ["undef1", "1", "later_fn", "deco(1)(2)"])] if self.chance(0.25) else []
        if decs:
            self.f("decorator:function")
        return self.funcdef(ind, self.pick(["inner", "helper", "a", "later_fn"]), decorators=decs)

    def s_nested_class(self, ind):
        self.f("class:nested")
        return self.classdef(ind, self.pick(["Inner", "Local", "Base"]), lazy=True)

    # ------------------------------------------------------------------ classes
    def classdef(self, ind: str, name: str, lazy: bool) -> list:
        """lazy=True: the class statement itself is never executed (nested in a function)."""
        self.spend(2)
        kind = self.weighted([(6, "plain"), (3, "dataclass"), (3, "enum"), (2, "slots"), (2, "protocol"), (2, "namedtuple"), (2, "typeddict"),
                              (2, "generic"), (2, "meta"), (1, "exception")])
        self.f(f"class:{kind}")
        decs, bases, kws = [], [], []
        tparams = ""
        if kind == "dataclass":
            decs.append(self.pick(["dataclass", "dataclass(frozen=True)", "dataclasses.dataclass(order=True)", "dataclass(slots=True)", "dataclass(kw_only=True)"]))
        elif kind == "enum":
            bases.append(self.pick(["enum.Enum", "enum.IntEnum", "enum.Flag", "enum.StrEnum", "enum.Enum", "str, enum.Enum", "int, enum.Enum"]))
        elif kind == "protocol":
            bases.append(self.pick(["Protocol", "Protocol[T]", "typing.Protocol"]))
            if self.chance(0.3):
                decs.append("typing.runtime_checkable")
        elif kind == "namedtuple":
            bases.append("NamedTuple")
        elif kind == "typeddict":
            bases.append("TypedDict")
            if self.chance(0.4):
                kws.append("total=False")
        elif kind == "generic":
            if self.chance(0.5):
                self.f("class:pep695-type-params")
                tparams = f"[{self.pick(['T', 'T: int', 'T, U', '*Ts', '**P', 'T: (int, str)'])}]"
            else:
                bases.append(self.pick(["Generic[T]", "Generic[T, K]", "list[T]", "dict[str, T]", "Generic[*Ts]", "Generic[P]", "Base, Generic[T]"]))
        elif kind == "meta":
            self.f("class:metaclass-keyword")
            bases.append(self.pick(["Base", "object", ""]))
            kws.append(self.pick(["metaclass=Meta", "metaclass=abc.ABCMeta", "metaclass=type"]))
        elif kind == "exception":
            bases.append(self.pick(["Exception", "ValueError", "BaseException", "KeyError, Base"]))
        else:
            if self.chance(0.6):
                bases.append(self.pick(["Base", "object", "Ctx", "Base, Ctx", "dict", "list", "int", "str", "tuple", "abc.ABC", "dict[str, int]",
                                        "collections.UserDict", "Base", "contextlib.AbstractContextManager", "tuple[int, str]",
                                        "collections.namedtuple('NT', 'a b')", "typing.NamedTuple('NT2', [('a', int)])"]))
            if lazy and self.chance(0.3):
                bases = [self.pick(["undef1", "1", "Later", "later_fn", "Base()", "Color", "g1", "int, str", "Base, Base", "bool", "type(None)", "*g2", "Optional[int]"])]
                self.f("class:odd-bases")
                if self.chance(0.3):
                    kws.append(self.pick(["metaclass=undef1", "metaclass=1", "nope=1", "**g1"]))
            if self.chance(0.2) and not decs:
                decs.append(self.pick(["deco", "typing.final", "deco_args(1)", "deco"]))
                self.f("decorator:class")
        bases = [b for b in bases if b]
        head = f"{ind}class {name}{tparams}" + (f"({', '.join(bases + kws)})" if bases or kws else "") + ":"
        out = [f"{ind}@{d}" for d in decs] + [head]
        inner = ind + "    "
        body = []
        cls_lazy = lazy
        with self.ctx(in_class_body=True, in_func=lazy, in_loop=False, no_jump=True, is_async=False, is_gen=False, in_lambda=False):
            if self.chance(0.2):
                body.append(inner + '"""Class doc."""')
            if kind == "enum":
                isflag = "Flag" in bases[0] or "Int" in bases[0] or bases[0].startswith("int")
                isstr = "Str" in bases[0] or bases[0].startswith("str")
                for i, m in enumerate(self.rng.sample(["A", "B", "C_", "RED"], self.rng.randrange(1, 4))):
                    val = f"'{m.lower()}'" if isstr else str(2 ** i) if isflag else self.pick([str(i + 1), f"'{m}'", f"({i}, 'x')", "enum.auto()", "None", f"[{i}]"])
                    body.append(f"{inner}{m} = {val}")
                if self.chance(0.2):
                    self.f("class:enum-alias-or-nonmember")
                    if any(l.strip().startswith("A =") for l in body):
                        body.append(inner + "ALIAS = A")
            elif kind in ("namedtuple", "typeddict"):
                flds = self.rng.sample(["fa", "fb", "fc"], self.rng.randrange(1, 4))
                for fld in flds:
                    ann = self.pick([a for a in SAFE_ANN if not a.startswith(("Final", "ClassVar", "*", "P.", "Self")) and a not in MALFORMED_STR_ANN and a not in NOT_WRAPPABLE]
                                    if not cls_lazy else SAFE_ANN + LAZY_ANN)
                    if kind == "typeddict" and self.chance(0.25):
                        ann = self.pick(["Required[int]", "NotRequired[str]", "NotRequired[list[int]]"])
                    dflt = f" = {self.pick(SAFE_DEFAULTS)}" if kind == "namedtuple" and self.chance(0.3) and fld == flds[-1] else ""
                    body.append(f"{inner}{fld}: {ann}{dflt}")
            else:
                if kind == "slots" or (kind == "plain" and self.chance(0.1) and not bases):
                    self.f("class:__slots__")
                    body.append(inner + self.pick(["__slots__ = ('sa', 'sb')", "__slots__ = ['sa']", "__slots__ = 'sa'", "__slots__ = ()", "__slots__ = {'sa': 'doc'}"]))
                for fld in self.rng.sample(["fa", "fb", "fc"], self.weighted([(3, 0), (4, 1), (3, 2)])):
                    r = self.rng.random()
                    ann = self.annotation(cls_lazy)
                    if kind == "dataclass":
                        # dataclass inspects annotations (strings starting with ClassVar/InitVar) and defaults (no mutable defaults)
                        ann = self.pick(["int", "str", "list[int]", "Optional[int]", "'int'", "'Later'", "ClassVar[int]", "dataclasses.InitVar[int]", "Any", "T",
                                         "tuple[int, ...]", "Callable[..., int]", "Literal[1]", "Annotated[int, 'm']", "dict[str, 'Later']", "'ClassVar[int]'"])
                        dflt = self.pick(["", "", " = 0", " = None", " = field(default=1)", " = field(default_factory=list)", " = dataclasses.field(init=False, default=0)",
                                          " = field(repr=False, default='a')", " = 'a'", " = ()"])
                        if "InitVar" in ann:
                            dflt = ""
                        if "ClassVar" in ann and "field(" in dflt:
                            dflt = " = 0"
                        body.append(f"{inner}{fld}: {ann}{dflt}")
                        continue
                    if kind == "slots" or any("__slots__" in l for l in body):
                        body.append(f"{inner}{fld}: {ann}")
                    elif r < 0.5:
                        body.append(f"{inner}{fld}: {ann} = {self.pick(SAFE_DEFAULTS)}")
                    elif r < 0.7:
                        body.append(f"{inner}{fld}: {ann}")
                    else:
                        body.append(f"{inner}{fld} = {self.pick(SAFE_DEFAULTS)}")
                if kind == "dataclass":
                    # fields without default must precede fields with default (unless kw_only)
                    nodef = [l for l in body if "=" not in l.split(":", 1)[-1] or "ClassVar" in l]
                    withdef = [l for l in body if l not in nodef]
                    body = nodef + withdef
            if kind not in ("typeddict", "namedtuple") or (kind == "namedtuple" and self.chance(0.3)):
                nm = self.weighted([(2, 0), (5, 1), (3, 2), (1, 3)])
                with self.ctx(in_class_body=False):
                    for mi in range(nm):
                        if self.budget <= 0 and mi:
                            break
                        meth = self.method(inner, kind, cls_lazy)
                        if kind == "namedtuple" and any("super" in l or "__class__" in l for l in meth):
                            continue  # typing.NamedTuple re-creates the class: zero-argument super() raises at class creation
                        body += meth
            if lazy and self.chance(0.3):
                with self.ctx(in_func=True):
                    body += self.stmt(inner) if self.chance(0.5) else [inner + self.pick(["x = undef1", "print(fa)", "fa += 1", "def __init__(self): self.nope: int = undef1",
                                                                                              "attr = property(1, 2, 3)", "__slots__ = 1", "class Inner2(undef1): pass"])]
        return out + (body or [inner + "pass"])

    def method(self, ind: str, class_kind: str, lazy: bool) -> list:
        r = self.rng.random()
        with self.ctx(in_func=lazy):
            if r < 0.14:
                self.f("class:property")
                out = self.funcdef(ind, "prop", "self", ["property"])
                if self.chance(0.5):
                    self.f("class:property-setter")
                    out += [f"{ind}@prop.setter", f"{ind}def prop(self, value{self.pick(['', ': int', ': ' + chr(39) + 'Later' + chr(39)])}):",
                            f"{ind}    self._prop = {self.pick(['value', 'undef1', 'value.nope', 'self.prop + 1'])}"]
                if self.chance(0.2):
                    out += [f"{ind}@prop.deleter", f"{ind}def prop(self): del self._prop"]
                return out
            if r < 0.24:
                self.f("class:classmethod")
                return self.funcdef(ind, self.pick(["make", "cm"]), "cls", ["classmethod"])
            if r < 0.32:
                self.f("class:staticmethod")
                return self.funcdef(ind, self.pick(["sm", "util"]), "static", ["staticmethod"])
            if r < 0.52 and class_kind not in ("namedtuple", "enum", "dataclass", "protocol"):
                self.f("class:dunder")
                name = self.pick(["__init__", "__eq__", "__hash__", "__len__", "__iter__", "__getitem__", "__call__", "__enter__", "__exit__", "__bool__",
                                  "__add__", "__radd__", "__iadd__", "__contains__", "__getattr__", "__setattr__", "__repr__", "__lt__", "__aiter__",
                                  "__anext__", "__await__", "__class_getitem__", "__init_subclass__", "__set_name__", "__get__", "__post_init__",
                                  "__index__", "__del__", "__missing__", "__next__", "__setitem__", "__delitem__"])
                return self.funcdef(ind, name, "cls" if name in ("__class_getitem__", "__init_subclass__") else "self")
            if r < 0.58:
                self.f("class:method-odd-first-arg")
                return self.funcdef(ind, "odd", "")
            decs = []
            if self.chance(0.25):
                self.f("decorator:method")
                decs = [self.pick(["deco", "deco_args()", "typing.final", "functools.lru_cache(maxsize=None)", "abc.abstractmethod", "functools.cached_property",
                                   "contextlib.contextmanager", "deco", "functools.wraps(deco)"])]
            return self.funcdef(ind, self.pick(["meth", "run", "other"] + ([] if class_kind == "namedtuple" else ["fa"])), "self", decs)

    # ------------------------------------------------------------------ module
    def module(self) -> str:
        self.future = self.chance(0.3)
        lines = []
        if self.future:
            self.f("module:future-annotations")
            lines.append("from __future__ import annotations")
        if self.chance(0.05):
            lines.insert(0, "#!/usr/bin/env python")
        if self.chance(0.05):
            lines.insert(0, "# -*- coding: utf-8 -*-")
        if self.chance(0.08) and not self.future:
            self.f("module:docstring")
            lines.append('"""Module docstring é.\n\nsecond paragraph."""')
        lines.append(HEADER + AWKWARD_HEADER if self.awkward else HEADER)
        items = []
        n_items = self.rng.randrange(2, 6)
        for i in range(n_items):
            if self.budget <= 0 and items:
                break
            r = self.rng.random()
            if r < 0.52:
                decs = []
                for _ in range(self.weighted([(6, 0), (3, 1), (1, 2)])):
                    self.f("decorator:function")
                    decs.append(self.pick([d for d in FUNC_DECORATORS if not d.endswith("_") and d not in ("staticmethod", "typing.overload")]))
                if "contextlib.contextmanager" in decs:
                    decs = ["contextlib.contextmanager"]
                name = f"f{i}"
                items.append(self.funcdef("", name, decorators=decs, toplevel=True))
            elif r < 0.82:
                items.append(self.classdef("", f"C{i}", lazy=False))
            elif r < 0.90:
                with self.ctx(in_func=False):
                    items.append(self.s_type_alias(""))
                    if self.chance(0.5):
                        self.f("module:typealias-annotation")
                        items.append([f"Alias3: TypeAlias = {self.pick(SAFE_ANN)}"])
            else:
                self.f("module:variable")
                with self.ctx(in_func=False):
                    ann = self.annotation(False)
                items.append([self.pick([f"v{i}: {ann} = {self.pick(SAFE_DEFAULTS)}", f"v{i}: {ann}", f"v{i} = {self.pick(SAFE_DEFAULTS)}",
                                         f"v{i}: Final = {self.pick(SAFE_DEFAULTS)}", f"N{i} = NewType('N{i}', int)", f"v{i} = functools.partial(deco, 1)",
                                         f"v{i}, *w{i} = 1, 2, 3", f"v{i} = [c for c in 'ab' if c]", f"v{i} = lambda x, /, *a, k=1, **kw: (x, a, k, kw)",
                                         f"if sys.version_info >= (3, 8):\n    v{i} = 1\nelse:\n    v{i} = ''", f"try:\n    import nonexistent_\nexcept ImportError:\n    nonexistent_ = None",
                                         f"if typing.TYPE_CHECKING:\n    from os import PathLike as PL_\n    v{i}: PL_",
                                         f"for v{i} in range(2):\n    pass", f"with contextlib.suppress(Exception):\n    v{i} = 1",
                                         f"__all__ = ['f0', 'Later', 'nope_']", f"v{i} = typing.NamedTuple('v{i}', [('a', int), ('b', 'Later')])",
                                         f"v{i} = TypedDict('v{i}', {{'a': int, 'b': 'Later'}})", f"v{i} = enum.Enum('v{i}', 'A B')",
                                         f"v{i} = collections.namedtuple('v{i}', ['a', 'b'])", f"@overload\ndef ov{i}(x: int) -> int: ...\n@overload\ndef ov{i}(x: str) -> str: ...\ndef ov{i}(x): return x"])])
        for it in items:
            lines.extend(it)
            sep = self.rng.random()
            if sep < 0.7:
                lines.append("")
            elif sep < 0.74:
                self.f("layout:form-feed")
                lines.append("\x0c")
            elif sep < 0.8:
                lines.append("# comment between items é")
        # the names earlier code refers to forward
        tail = TAIL
        if self.chance(0.1):
            tail = tail.rstrip("\n")
            self.f("layout:no-trailing-newline")
        elif self.chance(0.05):
            tail = tail + "\n\n# trailing comment"
            self.f("layout:trailing-comment-no-newline")
        return "\n".join(lines) + "\n" + tail


TAIL = '''\
class Later:
    inner: "Later | None" = None
    def __init__(self, v: int = 0) -> None:
        self.v = v
class LaterTD(TypedDict):
    k: int
def later_fn(x: int = 0, *, y: str = "") -> "Later":
    return Later(x)
@contextlib.contextmanager
def later_cm():
    yield 1
'''


def gen_program(rng: random.Random, budget=None):
    """-> (source, sorted feature list).  Source is syntactically valid (checked with compile) or None after 20 attempts
    (each rejected attempt is reported in the third element)."""
    rejected = 0
    for _ in range(20):
        fz = Fuzz(rng, budget or rng.randrange(12, 61))
        try:
            src = fz.module()
        except RecursionError:
            rejected += 1
            continue
        try:
            with warnings.catch_warnings():
                warnings.simplefilter("ignore")  # SyntaxWarning for `1()` etc. is the point of the ill-typed forms
                compile(src, "<fuzz>", "exec", dont_inherit=True)
        except (SyntaxError, ValueError, OverflowError, MemoryError, RecursionError, SystemError):  # SystemError: CPython 3.12 symtable bug with __class__
            rejected += 1
            continue
        return src, sorted(fz.feats), rejected
    return None, [], rejected


# ---------------------------------------------------------------------------
# deterministic vocabulary sweeps: every vocabulary item in a fixed set of standard contexts.  They make the set of
# crash sites a run reports independent of the seed (the random derivations then only add combinations).

USES = [
    "if x: pass", "while not x: break", "y = x and 1", "y = 1 if x else 2", "assert x", "y = [i for i in g2 if x]", "y = x()", "y = x(1, k=2)", "y = x[0]",
    "y = x[1:2]", "y = x.attr", "x.attr = 1", "x[0] = 1", "del x[0]", "y = x + 1", "y = 1 + x", "x += 1", "y = -x", "y = x < 1", "y = x == 1", "y = x is None",
    "y = 1 in x", "for i in x: pass", "y = [*x]", "y = {**x}", "print(*x)", "print(**x)", "y = len(x)", "y = isinstance(x, int)", "y = isinstance(1, x)",
    "y = f'{x}'", "y = f'{x!r:>{x}}'", "y = '%s' % x", "y = '%d' % x", "y = '{}'.format(x)", "a, b = x", "a, *b = x", "with x: pass", "with x as c: pass",
    "match x:\n    case int(): pass\n    case [a, *b]: pass\n    case {'k': v}: pass\n    case Base(attr=1): pass\n    case None: pass\n    case _: pass",
    "y = str(x)", "y = hash(x)", "y = bool(x)", "y = iter(x)", "y = next(x)", "y = x if isinstance(x, int) else None", "y = x or None", "raise x",
    "y = lambda: x", "y = (x, x)", "y = {x: x}", "y = {x}", "y = [x]", "y = x @ x", "y = x ** 2", "y = x // x", "y = ~x", "y = not x", "y = x.__class__",
    "y = type(x)", "y = getattr(x, 'attr')", "y = getattr(x, 'attr', None)", "y = hasattr(x, 'attr')", "y = callable(x)", "y = x.__dict__", "return x",
    "y = typing.cast(int, x)", "y = typing.cast(x, 1)", "y = sorted(x)", "y = dict(x)", "y = list(x)", "y = tuple(x)", "y = set(x)", "y = x.items()",
    "y = super(x)", "y = issubclass(x, int)", "y = issubclass(int, x)", "y = x == x", "y = x != None", "try:\n    pass\nexcept x:\n    pass",
    "y = later_fn(x)", "y = later_fn(*x)", "y = later_fn(**x)", "y = later_fn(y=x)", "y = Later(x)", "y = functools.partial(x, 1)", "y = functools.partial(later_fn, x)",
]
ASYNC_USES = ["y = await x", "async for i in x: pass", "async with x as c: pass", "y = [i async for i in x]", "y = await asyncio.gather(x, x)"]
GEN_USES = ["yield x", "y = yield x", "yield from x", "y = yield from x"]


def _indent(text: str, ind: str) -> str:
    return "\n".join(ind + l for l in text.split("\n"))


def _compiles(src: str) -> bool:
    try:
        with warnings.catch_warnings():
            warnings.simplefilter("ignore")
            compile(src, "<sweep>", "exec", dont_inherit=True)
        return True
    except Exception:  # noqa: BLE001
        return False


def _is_expr(text: str) -> bool:
    try:
        compile(text, "<e>", "eval", dont_inherit=True)
        return True
    except Exception:  # noqa: BLE001
        return False


def _assemble(future: bool, defs: list) -> str:
    """defs that do not compile on their own (with the header) are dropped one by one"""
    head = ("from __future__ import annotations\n" if future else "") + HEADER
    good = [d for d in defs if _compiles(head + d + "\n" + TAIL)]
    return head + "\n".join(good) + "\n" + TAIL


def sweep_programs(mine=None) -> list:
    """-> [(sweep name, source)] ; deterministic.  mine(index) -> bool selects the modules to build (all when None)."""
    out = []
    counter = [0]

    def emit(name, future, defs=None, src=None):
        i = counter[0]
        counter[0] += 1
        if mine is not None and not mine(i):
            return
        if src is None:
            src = _assemble(future, defs() if callable(defs) else defs)
        else:
            if callable(src):
                src = src()
            if not _compiles(src):
                return
        out.append((name, src))

    anns = list(dict.fromkeys(SAFE_ANN + LAZY_ANN))
    # (1) every annotation in every annotation position of a function / class / alias / cast (never evaluated: future import)
    def annotation_defs(chunk):
        defs = []
        for j, a in enumerate(chunk):
            defs += [
                f"def p{j}(x: {a}, /, y: {a} = g1, *, z: {a}): pass", f"def r{j}() -> {a}: pass", f"async def ar{j}() -> {a}: pass",
                f"def l{j}():\n    v: {a}\n    w: {a} = g1\n    return w", f"def s{j}(*args: {a}, **kwargs: {a}): pass",
                f"def c{j}():\n    return typing.cast({a}, g1)", f"def at{j}():\n    return typing.assert_type(g1, {a})", f"def t{j}():\n    type A = {a}\n    return A",
                f"def tp{j}[V: {a}](x: V) -> V: return x", f"class K{j}:\n    f: {a}\n    g: {a} = g1\n    def m(self, x: {a}) -> {a}: ...",
                f"@dataclass\nclass D{j}:\n    f: {a}", f"class TD{j}(TypedDict):\n    f: {a}", f"class NT{j}(NamedTuple):\n    f: {a}",
                f"def lam{j}():\n    return lambda x=1: typing.cast({a}, x)", f"def sa{j}(self):\n    self.x: {a} = g1",
            ]
            if _is_expr(a) and not a.startswith(("'", '"')):
                defs += [f"def q{j}(x: {a!r}) -> {a!r}: pass", f"def cq{j}():\n    return typing.cast({a!r}, g1)", f"def lq{j}():\n    v: {a!r} = g1",
                         f"def oq{j}(x: Optional[{a!r}], y: list[{a!r}]): pass"]
        return defs

    for i in range(0, len(anns), 10):
        emit("annotation-positions", True, lambda chunk=anns[i: i + 10]: annotation_defs(chunk))
    # (2) module level and class level annotated assignment: an exception escaping there aborts the whole module -> one module each
    for a in anns:
        emit("annotation-module-level", True, src="from __future__ import annotations\n" + HEADER + f"v0: {a} = g1\n" + TAIL)
    # (3) a parameter of every (importable) annotation used in every way
    def use_defs(a):
        defs = []
        for k, u in enumerate(USES):
            defs.append(f"def u{k}(x: {a}):\n" + _indent(u, "    "))
        defs.append(f"async def au(x: {a}):\n" + _indent("\n".join(ASYNC_USES), "    "))
        for k, u in enumerate(GEN_USES):
            defs.append(f"def gu{k}(x: {a}):\n" + _indent(u, "    "))
        defs.append(f"def star(*x: {a}, **kw: {a}):\n    if x: pass\n    if kw: pass\n    y = x[0]; z = kw['a']; later_fn(*x, **kw)")
        defs.append(f"class KU:\n    x: {a}\n    def m(self):\n        if self.x: pass\n        y = self.x.attr; z = self.x(); w = self.x[0]\n        for i in self.x: pass")
        return defs

    for a in SAFE_ANN:
        emit("annotated-parameter-uses", True, lambda a=a: use_defs(a))
    # (4) every ill-typed / odd expression in every expression position
    exprs = list(dict.fromkeys(ILL_EXPRS + INT_LITS + STR_LITS + OTHER_LITS + ["g1", "g2", "Base", "Base()", "Later", "later_fn", "Color.RED", "undef1", "os", "len",
                                                                               "super()", "lambda: 0", "(i for i in g2)", "[i for i in g2]", "{1: 2}", "{1, 2}"]))
    def expr_defs(chunk):
        defs = []
        for j, e in enumerate(chunk):
            for k, u in enumerate(USES):
                defs.append(f"def e{j}_{k}(x=0):\n" + _indent(u.replace("x", f"({e})") if " x" in u or "x " in u or "(x" in u or "x)" in u or "{x" in u else u, "    "))
        return defs

    for i in range(0, len(exprs), 6):
        emit("expression-positions", False, lambda chunk=exprs[i: i + 6]: expr_defs(chunk))
    # (5) every ill-typed statement in several enclosing constructs
    wraps = ["{s}", "for i in g2:\n    {s}", "while g1:\n    {s}\nelse:\n    {s}", "try:\n    {s}\nexcept Exception:\n    {s}\nfinally:\n    {s}",
             "with Ctx() as c:\n    {s}", "if g1:\n    {s}\nelif g2:\n    {s}\nelse:\n    {s}", "class Local:\n    {s}", "def inner():\n    {s}",
             "match g1:\n    case 1:\n        {s}\n    case _:\n        {s}", "try:\n    {s}\nexcept* ValueError:\n    pass"]
    def stmt_defs(chunk):
        defs = []
        for j, st in enumerate(chunk):
            st = st.replace("{v}", "a")
            for k, w in enumerate(wraps):
                body = "\n".join(_indent(st, l[: len(l) - len(l.lstrip())]) if "{s}" in l else l for l in w.split("\n"))
                defs.append(f"def s{j}_{k}(self, p=None, q: P.kwargs = None, r: Any = None):\n" + _indent(body, "    "))
                if k == 0:
                    defs.append(f"async def as{j}(self, p=None, q=None, r=None):\n" + _indent(body, "    "))
        return defs

    for i in range(0, len(ILL_STMTS), 8):
        emit("statement-contexts", False, lambda chunk=ILL_STMTS[i: i + 8]: stmt_defs(chunk))

    # (6) PEP 695 type parameter lists (bounds are evaluated lazily, so the module imports) on defs, classes, aliases
    def tparam_defs(tp):
        first = tp.split(",")[0].split(":")[0].strip().lstrip("*")
        return [f"def tf[{tp}](x: {first}) -> {first}: return x", f"async def atf[{tp}](*args: {first}): pass", f"class TC[{tp}]:\n    def m(self, x: {first}) -> {first}: return x",
                f"type TA[{tp}] = list[{first}]", f"def outer():\n    def inner[{tp}](x: {first}): pass\n    class Inner[{tp}]: pass\n    type InnerA[{tp}] = {first}\n    return inner, Inner, InnerA",
                f"class TM:\n    def meth[{tp}](self, x: {first}) -> {first}: return x", "def use():\n    return tf(1), TC(), TA, TM().meth(1)"]

    # (7) odd signatures (star-annotations, ParamSpec components, Unpack[TypedDict]) defined and called
    sigs = ["p, *args: *tuple[int, str], **kwargs", "*args: *tuple[int, str]", "p, /, *args: *tuple[int, ...]", "*args: *Ts", "p=0, *args: *Ts", "*args: Unpack[Ts]",
            "**kwargs: Unpack[LaterTD]", "p, **kwargs: Unpack[LaterTD]", "k, **kwargs: Unpack[LaterTD]", "*args: P.args, **kwargs: P.kwargs",
            "x, *args: P.args, **kwargs: P.kwargs", "*args: P.args", "**kwargs: P.kwargs", "*, x, **kwargs: P.kwargs", "*args: P.kwargs, **kwargs: P.args",
            "*args: *tuple[*Ts, int]", "*args: *tuple[()]", "*args: *tuple[int, *tuple[str, ...]]", "x: int = 0, /, y: str = '', *args: bytes, z: float = 0.0, **kw: None",
            "self, /", "*args: 'int'", "*args: '*Ts'", "**kwargs: 'Unpack[LaterTD]'", "x: T, *args: T, **kwargs: T", "*args: Unpack[tuple[int, str]]",
            "x: Callable[[*Ts], None], *args: *Ts", "f: Callable[P, T], *args: P.args, **kwargs: P.kwargs", "f: Callable[Concatenate[int, P], T], *args: P.args, **kwargs: P.kwargs"]

    def sig_defs(chunk):
        defs = []
        for j, sg in enumerate(chunk):
            defs += [f"def sg{j}({sg}): pass", f"def call_sg{j}():\n    sg{j}()\n    sg{j}(1)\n    sg{j}(1, 'a')\n    sg{j}(1, 'a', b'x', k=1)\n    sg{j}(*g2, **g1)\n    return sg{j}",
                     f"async def asg{j}({sg}): return args if 'args' in dir() else None", f"class SG{j}:\n    def m(self, {sg}): pass\n    def use(self):\n        self.m(1, 'a'); SG{j}.m(self, 1)",
                     f"def lam_sg{j}():\n    return (lambda {sg.split(':')[0] if ':' not in sg.split(',')[0] else 'x'}: 0)"]
        return defs

    for i in range(0, len(sigs), 7):
        emit("odd-signatures", True, lambda chunk=sigs[i: i + 7]: sig_defs(chunk))

    # (8) parameters declared as unions of >= 10 literals (MultiValuedValue answers those from an index of its literal
    # members) receiving every odd literal, incl. literals of a hashable type with unhashable content
    odd = list(dict.fromkeys(["([], 1)", "(1, [2])", "(1, {})", "[1]", "{1}", "{'a': 1}", "1.0", "True", "(1,)", "frozenset({1})", "bytearray(b'x')",
                              "('a', 'b')", "(1.0, 2)", "[[1], [1.0]]", "Color.RED", "len", "lambda: 0", "None", "...", "g2", "undef1"] + INT_LITS + STR_LITS))
    big_head = ("Digit = Literal[0, 1, 2, 3, 4, 5, 6, 7, 8, 9]\nMixed = Literal[1, True, 2, 3, 4, 5, 6, 7, 8, 9]\n"
                "Word = Literal['a', 'b', 'c', 'd', 'e', 'f', 'g', 'h', 'i', 'j', 'k']\nDigitOrList = Union[Digit, list[int]]\n"
                "DigitOrTuple = Union[Digit, tuple[int, ...]]\nDigitOrTD = Union[Digit, 'LaterTD']\n"
                "def td(x: Digit): pass\ndef tm(x: Mixed): pass\ndef tw(x: Word): pass\ndef tdl(x: DigitOrList): pass\n"
                "def tdt(x: DigitOrTuple): pass\ndef tdd(x: DigitOrTD): pass")

    def big_union_defs(chunk):
        defs = [big_head]
        for j, e in enumerate(chunk):
            defs.append(f"def bu{j}(p: Digit, q: DigitOrList):\n    td({e}); tm({e}); tw({e}); tdl({e}); tdt({e}); tdd({e})\n    v: Digit = {e}\n"
                        f"    w: DigitOrTuple = {e}\n    if p == {e} or q == {e}: pass\n    if {e} in (0, 1, 2, 3, 4, 5, 6, 7, 8, 9, 'a'): pass\n    return [v, w, p, {e}]")
        return defs

    for i in range(0, len(odd), 8):
        emit("big-literal-unions", False, lambda chunk=odd[i: i + 8]: big_union_defs(chunk))

    # (9) every single-specifier % template (str and bytes; the template space of the format-string property) applied to
    # a good and a bad operand, and a sample of str.format templates
    convs, flags = list("diouxXeEfFgGcrsab%") + ["y"], ["", "#", "0", "-", " ", "+", "-0"]
    widths, precs, lenmods = ["", "5", "*"], ["", ".2", ".*", "."], ["", "l"]
    specs = [f"%{f}{w}{pr}{lm}{c}" for c in convs for f in flags for w in widths for pr in precs for lm in lenmods]
    lines = []
    for sp in specs:
        nstar = sp.count("*")
        good = "(" + "3, " * nstar + "1,)"
        bad = "(" + "'3', " * nstar + "'x',)" if nstar else "'x'"
        for lit in (repr("<" + sp + ">"), "b" + repr("<" + sp + ">")):
            lines.append(f"({lit} % {good}, {lit} % {bad})")
    for sp in ["%(a)s", "%(a)d %(b)s", "%(a)s %s", "%(a", "%(a)", "%()s", "%(a)5.2f", "%(a)*d"]:
        for args in ["{'a': 1}", "{'b': 1}", "{}", "{b'a': 1}", "{'a': 1, 'b': 2}", "(1,)", "1", "g1"]:
            lines.append(f"({sp!r} % {args}, b{sp!r} % {args})")
    for t in ["{}", "{0}", "{0}{}", "{a}", "{a.real}", "{0[0]}", "{!r}", "{:>{}}", "{:{w}}", "{0!x}", "{", "}", "{0", "{0.}", "{[}", "{:{}", "{²}", "{0:zz}", "{a!r:>{w}}"]:
        for args in ["", "1", "1, 2", "a=1", "1, a=2, w=3", "*g2", "**g1"]:
            lines.append(f"{t!r}.format({args})")
    for i in range(0, len(lines), 90):
        emit("format-templates", False, src=HEADER + "def fmt_holder():\n" + _indent("\n".join(lines[i: i + 90]), "    ") + "\n" + TAIL)

    for tp in TYPE_PARAMS + ["T = int", "T: int = bool", "*Ts = *tuple[int, str]", "**P = [int, str]", "T: (int, undef1)", "T: 'undef1'", "T: 1", "T: (int,)", "T: ()",
                             "T: Later", "T: list[Later]", "T: T", "T: U, U: T", "T, T2: T", "T: Callable[[T], T]", "T: int | None", "T: Literal[1]"]:
        emit("type-parameters", False, lambda tp=tp: tparam_defs(tp))
    # (10) constant subscripts / slices / unpacking of sequence displays and variadic tuple annotations that contain 0-2
    # star members (of unknown, known and unknowable length) at every position: the number of members *written* is not
    # the length of the sequence
    for name, defs in star_sequence_defs():
        emit("star-sequence-subscripts", True, defs)

    # (11) module-level values of every awkward runtime kind in every value position (incl. attribute stores on receivers
    # of known class, which the attribute checker records, and attribute reads it judges in its final pass)
    for i in range(0, len(AWKWARD), AWKWARD_PER_MODULE):
        emit("awkward-values", False, src=lambda chunk=AWKWARD[i: i + AWKWARD_PER_MODULE]: awkward_module(chunk))
    # (12) the same for the objects whose __getattribute__ / __getattr__ / __class__ hooks (of the object or its metaclass) raise
    for i in range(0, len(PROBE_HOOK_VALUES), AWKWARD_PER_MODULE):
        emit("probe-hook-values", False, src=lambda chunk=PROBE_HOOK_VALUES[i: i + AWKWARD_PER_MODULE]: awkward_module(chunk, extra_header=PROBE_HOOK_HEADER))
    return out


# --- (10) -----------------------------------------------------------------
STAR_SOURCES = ["xs", "ts", "kt", "vt", "pu", "g2", "'ab'", "range(3)", "undef1", "()"]
STAR_SIG = ("xs: list[int], ts: tuple[str, ...], kt: tuple[int, str], vt: tuple[int, *tuple[str, ...], bytes], pu, idx: int, "
            "lit: Literal[-5, -1, 0, 5], e: bytes")
_ELTS = ["1", "'a'", "e", "None"]
_ELT_TYPES = ["int", "str", "bytes", "None"]


def star_patterns(max_len: int = 4, max_stars: int = 2) -> list:
    """every sequence over {E(lement), S(tar)} of length 0..max_len with at most max_stars stars"""
    import itertools

    return ["".join(p) for n in range(max_len + 1) for p in itertools.product("ES", repeat=n) if p.count("S") <= max_stars]


def subscript_indices(n: int) -> list:
    """index expressions for a sequence with n written members: every constant from -(n+3) to n+2, slices around the
    boundaries, non-literal and ill-typed indices"""
    ints = [str(i) for i in range(-(n + 3), n + 3)]
    slices = [":", "1:", ":-1", "-2:", "::2", "::-1", f"-{n + 2}:", f":{n + 2}", "1:-1", "-1:1", f"{n + 1}:", f":-{n + 1}", "idx:", ":idx", "0:0",
              f"-{n + 1}::-1", "::0", "lit:", "None:None"]
    other = ["True", "None", "'a'", "1, 2", "idx", "lit", "-idx", "~0", "1.5", "...", "()", "*xs", "slice(1, 2)", "-(1)", "10 ** 30", "-10 ** 30"]
    return ints + slices + other


def star_sequence_uses(d: str, n: int, is_list: bool) -> list:
    """statements using the sequence expression d (n written members) beyond a plain subscript"""
    uses = [f"y = {d}[1:][-{n + 1}]", f"y = {d}[:-1][-{max(n, 1)}]", f"y = {d}[::-1][-{n + 2}]", f"y = {d}[idx][lit]", f"y = {d}[-{n + 1}][0]",
            f"a0, b0 = {d}", f"a0, *b0 = {d}", f"*a0, b0 = {d}", f"a0, b0, c0, d0, e0 = {d}", f"a0, *b0, c0 = {d}", f"for i in {d}: pass",
            f"for a0, b0 in {d}: pass", f"y = len({d})", f"y = {d} + {d}", f"y = ({d} + {d})[-{2 * n + 1}]", f"y = {d} * 2", f"y = ({d} * 2)[-{n + 1}]",
            f"y = 1 in {d}", f"y = {d} == {d}", f"y = {d} < {d}", f"later_fn(*{d})", f"y = [*{d}, *{d}][-{n + 3}]", f"y = (*{d}, 0)[-{n + 2}]",
            f"y = max({d})", f"y = sorted({d})[-{n + 2}]", f"y = list({d})[-{n + 2}]", f"y = tuple({d})[-{n + 2}]", f"y = reversed({d})", f"y = f'{{{d}}}'",
            f"y = {d}[-{n + 1}] if {d} else None", f"{d}[0].nope", f"y = {d}.__getitem__(-{n + 1})", f"y = {d}.index(1)", f"y = dict({d})", f"y = set({d})",
            f"match {d}:\n    case [a1, *b1, c1]: pass\n    case [a1, b1, c1, d1, e1]: pass\n    case [*b1]: pass\n    case []: pass",
            f"with {d} as (a0, *b0): pass", f"y = [i for i in {d}][-{n + 1}]", f"y = (lambda *a: a[-{n + 1}])(*{d})"]
    if is_list:
        uses = [f"w = {d}", f"w[-{n + 2}] = 0", f"del w[-{n + 1}]", f"w[-{n + 2}:] = []", "w[lit] += 1", f"w[-{n + 3}] += 1", f"y = w[-{n + 2}]",
                f"w.append(0); w.insert(-{n + 2}, 0); y = w.pop(-{n + 1})", f"w += {d}; y = w[-{n + 3}]", f"w *= 2; y = w[-{n + 3}]"] + uses
    return uses + [f"return {d}[-{n + 2}]"]


def _display(pattern: str, sources, kind: str) -> str:
    items, si = [], 0
    for k, c in enumerate(pattern):
        if c == "E":
            items.append(_ELTS[k % len(_ELTS)])
        else:
            items.append("*" + sources[si % len(sources)])
            si += 1
    body = ", ".join(items)
    if kind == "list":
        return f"[{body}]"
    return f"({body}{',' if len(items) == 1 else ''})"


def star_sequence_defs() -> list:
    """-> [(name, callable -> [function source])] : one module per member pattern, then the annotated forms"""
    mods = []
    ann_jobs = []
    for pi, pat in enumerate(star_patterns()):
        n = len(pat)
        nstars = pat.count("S")
        combos = [(s,) for s in STAR_SOURCES] if nstars else [()]
        if nstars == 2:
            combos = [(s, s) for s in STAR_SOURCES[:6]] + [("xs", "ts"), ("kt", "xs"), ("pu", "vt"), ("undef1", "xs")]

        def display_defs(pi=pi, pat=pat, n=n, combos=combos):
            defs = []
            for ci, srcs in enumerate(combos):
                for kind in ("tuple", "list"):
                    d = _display(pat, srcs, kind)
                    body = [f"y = {d}[{ix}]" for ix in subscript_indices(n)] + star_sequence_uses(d, n, kind == "list")
                    defs.append(f"def ss{pi}_{ci}_{kind}({STAR_SIG}):\n" + _indent("\n".join(body), "    "))
            return defs

        mods.append((pat or "empty", display_defs))
        # the same member pattern as a tuple annotation (a parameter, a local, an alias, a string)
        star_types = [("*tuple[float, ...]", "*tuple[complex, ...]"), ("*Ts", "*tuple[float, ...]"), ("Unpack[tuple[float, ...]]", "Unpack[Ts]"),
                      ("*tuple[int, str]", "*tuple[float, ...]"), ("*tuple[()]", "*tuple[()]")] if nstars else [()]
        for ti, sts in enumerate(star_types):
            ann_jobs.append((pi, ti, pat, sts))

    def annotated_defs(jobs):
        defs = []
        for pi, ti, pat, sts in jobs:
            n = len(pat)
            items, si = [], 0
            for k, c in enumerate(pat):
                if c == "E":
                    items.append(_ELT_TYPES[k % len(_ELT_TYPES)])
                else:
                    items.append(sts[si % len(sts)])
                    si += 1
            ann = f"tuple[{', '.join(items)}]" if items else "tuple[()]"
            body = [f"y = v[{ix}]" for ix in subscript_indices(n)] + star_sequence_uses("v", n, False)[:-1]
            body += [f"w: {ann} = v", f"y = w[-{n + 1}]", f"y = typing.cast({ann!r}, pu)[-{n + 2}]", f"type A = {ann}", "z: A = v", f"y = z[-{n + 3}]", f"return v[-{n + 2}]"]
            defs.append(f"def sa{pi}_{ti}(v: {ann}, {STAR_SIG}):\n" + _indent("\n".join(body), "    "))
        return defs

    for i in range(0, len(ann_jobs), 12):
        mods.append(("annotated", lambda jobs=ann_jobs[i: i + 12]: annotated_defs(jobs)))
    return mods


# --- (11) -----------------------------------------------------------------
AWKWARD_PER_MODULE = 3
# value positions beyond USES: stores to attributes of receivers whose class is known (self / cls / annotated parameter /
# constructor call / module-level instance), class attributes, defaults, decorators, bases, annotations, containers
AWKWARD_POSITIONS = '''
class AK$J:
    cattr = $V
    pair = ($V, 1)
    def __init__(self, p=$V, *, k=($V,)) -> None:
        self.x = $V
        self.y: object = $V
        self.z = [$V]
        self.t = ($V, 1)
        self.d = {'k': $V}
        self.w = $V if p else None
        self.u = self.v = $V
        self.a, self.b = $V, 1
        self.p = p
        self.k = k
        self.lam = lambda: $V
        self.call = later_fn($V)
    @classmethod
    def cm(cls):
        cls.c = $V
        cls.cattr = [$V, None]
        return cls.c
    @staticmethod
    def sm(o: "AK$J"):
        o.x = $V
        o.s = {$V: 1}
        return o.s
    def set_later(self, q):
        self.x = q
        self.x = $V
        self.x += 1
        setattr(self, 'dyn', $V)
        self.__dict__['k'] = $V
        with Ctx() as self.cm_target: pass
        for self.loop in ($V, 1): pass
        (self.tup, *self.rest) = ($V, $V, 1)
        if (w1 := $V): self.wal = w1
    def read(self):
        return self.x, self.z[0], self.t[0], self.d['k'], self.nope, self.c, self.cattr, self.x.attr, self.x(), self.x[0], AK$J.nope2
    def __eq__(self, other): return self.x == $V
    def __hash__(self): return hash($V)
    def __bool__(self): return bool($V)
class AKS$J(AK$J):
    __slots__ = ('sl',)
    def __init__(self):
        super().__init__()
        self.sl = $V
        self.x = None
    def read2(self): return self.sl, self.x, self.nope3, super().nope4
def akd$J():
    @dataclass
    class AKD:
        f: object = $V
        g: tuple = ($V,)
        def m(self): self.f = $V; return self.f, self.g, self.h
    class AKE(enum.Enum):
        A = $V
    class AKN(NamedTuple):
        f: object = $V
    return AKD($V).f, AKD(f=$V).m(), dataclasses.replace(AKD(), f=$V), AKE.A.value, AKE($V), AKN().f, AKN($V)[0]
def ako$J(o: Base, l: "Later", c: Ctx, u: Union[Base, Ctx], t: type[Base], a: Any, n: None, ak: AK$J):
    o.attr = $V; o.new = $V; l.inner = $V; l.v = $V; c.state = $V; u.both = $V; t.attr = $V; a.any = $V; n.none = $V
    ak.x = $V; ak.other = [$V]
    Base().attr = $V
    Base.attr = $V
    Later().v = $V
    later_fn().v = $V
    g2.attr = $V
    os.attr = $V
    $V.attr = $V
    o.attr, l.v = $V, $V
    o.attr = l.v = $V
    o.attr: int = $V
    del o.attr
    return o.attr, o.new, l.inner, l.v, c.state, o.nope5, l.nope6, ak.x, ak.nope7
def akp$J(p=$V, q=[$V], *a, k=$V, **kw):
    return p, q, k
def akc$J():
    @$V
    def g1(): pass
    @$V
    class K1: pass
    class K2($V): pass
    class K3(metaclass=$V): pass
    class K4(Base, k=$V): pass
    return g1, K1, K2, K3, K4
def aka$J(x: $V, *a: $V, **k: $V) -> $V:
    v: $V = x
    w: list[$V] = []
    z: Optional[$V] = None
    t: "$V" = x
    u: Literal[$V] = x
    an: Annotated[int, $V] = 1
    c: Callable[[$V], $V] = print
    y = typing.cast($V, x), typing.cast(list[$V], x), typing.assert_type(x, $V), isinstance(x, ($V, int)), issubclass(int, ($V,))
    return x
def akn$J():
    y = [$V, $V], ($V, $V), {$V: $V}, {$V, 1}, [$V] * 2, [$V] + [1], ($V,) == ($V,), $V in [$V], $V in {1: $V}, [*($V,)], {**{'k': $V}}
    y = $V if $V else $V; y = $V and $V; y = $V or 1; y = not $V; y = $V is $V; y = $V == $V; y = $V != 1; y = 1 < $V < 2
    y = [i for i in [$V] if i]; y = {i: i for i in ($V,)}; y = any(i for i in [$V])
    y = f"{$V} {$V!r} {$V!s:>10} {$V=} {1:{$V}}"
    y = str($V), repr($V), hash($V), bool($V), len($V), int($V), float($V), list($V), dict($V), iter($V), id($V), type($V), dir($V), vars($V), callable($V)
    y = print($V, sep=$V, end=$V, file=$V); y = sorted([$V, $V]); y = max($V, $V); y = sum([$V]); y = range($V); y = [1, 2][$V]; y = (1, 2)[$V:$V]
    y = getattr($V, 'attr'); y = getattr(g1, $V); y = getattr($V, 'attr', $V); y = hasattr($V, 'meth'); y = isinstance($V, Base); y = isinstance(g1, $V)
    y = functools.partial($V); y = functools.partial(later_fn, $V)(); y = later_fn(x=$V); y = later_fn(y=$V); y = Later(v=$V); y = Base().meth($V)
    y = $V.meth; y = $V.meth(); y = $V.__class__; y = $V.__dict__; y = $V.__doc__; y = $V.__name__; y = $V.__call__; y = $V.nope
    y = -$V, +$V, ~$V, $V + $V, $V * 2, 2 * $V, $V % (1,), '%s %r' % ($V, $V), '{} {x}'.format($V, x=$V), $V @ $V, $V ** 2, $V | $V
    a0, b0 = $V; a0, *b0 = $V; [a0, [b0, c0]] = $V
    for a0, b0 in $V: pass
    with $V as cm0, $V: pass
    del $V.attr, $V[0]
    $V.attr += 1; $V[0] += 1; $V[$V] = $V
    assert $V, $V
    try: raise $V
    except $V: pass
    try: raise ValueError from $V
    except ($V, ValueError) as e0: pass
    match $V:
        case int() | str(): pass
        case [a1, *b1]: pass
        case {'k': v1, **r1}: pass
        case Base(attr=1): pass
        case AK$J(x=1): pass
        case _: pass
    match g1:
        case AK$J.cattr: pass
    global g_aw
    g_aw = $V
    return $V
async def aky$J():
    y = await $V
    async for i in $V: pass
    async with $V as c0: pass
    y = [i async for i in $V]
    y = await asyncio.gather($V, $V)
    yield $V
def akg$J():
    y = yield $V
    yield from $V
    return $V
'''


def awkward_positions(v: str, j: int) -> str:
    return AWKWARD_POSITIONS.replace("$V", v).replace("$J", str(j))


def awkward_module(values, uses: bool = True, extra_header: str = "") -> str:
    """HEADER + AWKWARD_HEADER + for every value: AWKWARD_POSITIONS and (uses=True) every USES template with the value for x"""
    import re

    defs = []
    for j, v in enumerate(values):
        defs.append(awkward_positions(v, j))
        for k, u in enumerate(USES if uses else []):
            defs.append(f"def aw{j}_{k}(p=0):\n" + _indent(re.sub(r"\bx\b", v, u), "    "))
    return HEADER + AWKWARD_HEADER + extra_header + "\n".join(d for d in defs if _compiles(d)) + "\n" + TAIL


AWKWARD_PER_CLI_FILE = 25


def awkward_cli_programs() -> list:
    """-> [(name, source)] : the value positions (no USES) for every awkward value, for whole-file runs"""
    return [(f"{AWKWARD[i]}..{AWKWARD[min(i + AWKWARD_PER_CLI_FILE, len(AWKWARD)) - 1]}", awkward_module(AWKWARD[i: i + AWKWARD_PER_CLI_FILE], uses=False))
            for i in range(0, len(AWKWARD), AWKWARD_PER_CLI_FILE)]
