"""Run the real pyanalyze in-process on a source string and normalise its diagnostics.

Every entry point asserts that the pyanalyze being driven is /repo's working tree.
"""
from __future__ import annotations

import ast
import contextlib
import io
import os
import re
import subprocess
import sys
import types
from pathlib import Path
from dataclasses import dataclass, field
from typing import Any, Mapping, Optional, Sequence

REPO = os.environ.get("VERIF_REPO", "/repo")
PYTHON = "/venv/bin/python"

if REPO not in sys.path:
    sys.path.insert(0, REPO)

import pyanalyze  # noqa: E402

assert os.path.realpath(pyanalyze.__file__).startswith(
    os.path.realpath(REPO) + os.sep
), f"pyanalyze imported from {pyanalyze.__file__}, expected {REPO}"

from pyanalyze.analysis_lib import make_module  # noqa: E402
from pyanalyze.checker import Checker  # noqa: E402
from pyanalyze.error_code import DISABLED_BY_DEFAULT, DISABLED_IN_TESTS, ErrorCode  # noqa: E402
from pyanalyze.name_check_visitor import ClassAttributeChecker, NameCheckVisitor  # noqa: E402

TEST_CONFIG = os.path.join(REPO, "pyanalyze", "test.toml")

_MODNAME_RE = re.compile(r"<test input [0-9a-f]+>|[0-9a-f]{64}\.py|[0-9a-f]{64}")


def normalise_text(s: str) -> str:
    return _MODNAME_RE.sub("<M>", s)


@dataclass(frozen=True)
class Diag:
    code: str
    lineno: Optional[int]
    col: Optional[int]
    description: str
    message: str = field(compare=False, default="")

    def key(self):
        return (self.code, self.lineno, self.col, self.description)

    def short(self) -> str:
        return f"{self.code}@{self.lineno}:{self.col}: {self.description}"


def to_diag(failure: Mapping[str, Any]) -> Diag:
    code = failure.get("code")
    return Diag(
        code.name if code is not None else "<none>",
        failure.get("lineno"),
        failure.get("col_offset"),
        normalise_text(str(failure.get("description", ""))),
        normalise_text(str(failure.get("message", ""))),
    )


def settings_for(mode: str = "tests", overrides: Optional[Mapping[str, bool]] = None):
    """mode: 'tests' (what the suite uses), 'default' (CLI defaults), 'all' (every code on)."""
    if mode == "tests":
        s = {code: code not in DISABLED_IN_TESTS for code in ErrorCode}
    elif mode == "default":
        s = {code: code not in DISABLED_BY_DEFAULT for code in ErrorCode}
    elif mode == "all":
        s = {code: True for code in ErrorCode}
    elif mode == "none":
        s = {code: False for code in ErrorCode}
    else:
        raise ValueError(mode)
    if overrides:
        for name, val in overrides.items():
            s[getattr(ErrorCode, name)] = val
    return s


_KW_CACHE: dict = {}


def constructor_kwargs(
    mode: str = "tests",
    overrides: Optional[Mapping[str, bool]] = None,
    config_file: Optional[str] = None,
    fresh: bool = False,
) -> dict:
    """Route settings through prepare_constructor_kwargs, i.e. the CLI's path to Options+Checker."""
    key = (mode, tuple(sorted((overrides or {}).items())), config_file)
    if not fresh and key in _KW_CACHE:
        return dict(_KW_CACHE[key])
    kwargs: dict = {"settings": settings_for(mode, overrides)}
    if config_file is not None:
        kwargs["config_file"] = Path(config_file)
    kw = dict(NameCheckVisitor.prepare_constructor_kwargs(kwargs))
    if not fresh:
        _KW_CACHE[key] = kw
    return dict(kw)


@dataclass
class Result:
    diags: list
    tree: Optional[ast.Module]
    module: Optional[types.ModuleType]
    new_code: Optional[str] = None
    stderr: str = ""
    exception: Optional[BaseException] = None
    visitor: Any = None

    def codes_on_line(self, lineno: int) -> set:
        return {d.code for d in self.diags if d.lineno == lineno}

    def by_line(self) -> dict:
        out: dict = {}
        for d in self.diags:
            out.setdefault(d.lineno, []).append(d)
        return out


def forget_module(mod: Optional[types.ModuleType]) -> None:
    if mod is not None:
        sys.modules.pop(getattr(mod, "__name__", ""), None)


def run(
    source: str,
    *,
    mode: str = "tests",
    overrides: Optional[Mapping[str, bool]] = None,
    config_file: Optional[str] = None,
    fresh_checker: bool = False,
    kwargs: Optional[dict] = None,
    module: Optional[types.ModuleType] = None,
    extra_scope: Optional[Mapping[str, object]] = None,
    annotate: bool = False,
    apply_changes: bool = False,
    add_ignores: bool = False,
    check_attributes: bool = True,
    keep_module: bool = False,
    tree: Optional[ast.Module] = None,
    final_checks: bool = False,
) -> Result:
    """Check `source` with the real NameCheckVisitor; never lets stderr noise escape."""
    if tree is None:
        tree = ast.parse(source)
    kw = dict(kwargs) if kwargs is not None else constructor_kwargs(
        mode, overrides, config_file, fresh=fresh_checker
    )
    made_module = False
    if module is None:
        module = make_module(source, extra_scope or {})
        made_module = True
    err = io.StringIO()
    exc = None
    diags: list = []
    new_code = None
    visitor = None
    keep_tree = tree
    try:
        with contextlib.redirect_stderr(err):
            with ClassAttributeChecker(
                enabled=check_attributes, options=kw["checker"].options
            ) as attribute_checker:
                visitor = NameCheckVisitor(
                    module.__name__,
                    source,
                    tree,
                    module=module,
                    attribute_checker=attribute_checker,
                    annotate=annotate,
                    add_ignores=add_ignores,
                    **kw,
                )
                res = visitor.check_for_test(apply_changes=apply_changes)
                if apply_changes:
                    res, new_code = res
                res = list(res)
                if final_checks:
                    res += NameCheckVisitor.perform_final_checks(kw)
            diags = [to_diag(f) for f in res]
            raw = res
    except BaseException as e:  # noqa: BLE001 - C12 wants to see these
        if isinstance(e, (KeyboardInterrupt, SystemExit)):
            raise
        exc = e
        raw = []
    finally:
        if made_module and not keep_module:
            forget_module(module)
    r = Result(diags, keep_tree, module, new_code, err.getvalue(), exc, visitor)
    r.raw = raw  # type: ignore[attr-defined]
    return r


def run_cli(argv: Sequence[str], *, cwd: Optional[str] = None, env: Optional[dict] = None,
            timeout: float = 120.0) -> subprocess.CompletedProcess:
    e = dict(os.environ)
    e["PYTHONPATH"] = REPO + (":" + e["PYTHONPATH"] if e.get("PYTHONPATH") else "")
    e.pop("PYANALYZE_VERIF", None)
    if env:
        e.update(env)
    return subprocess.run(
        [PYTHON, "-m", "pyanalyze", *argv],
        cwd=cwd, env=e, capture_output=True, text=True, timeout=timeout,
    )


def reveal_types(result: Result) -> dict:
    """lineno -> list of revealed type strings (from reveal_type diagnostics)."""
    out: dict = {}
    for d in result.diags:
        if d.code == "reveal_type" or d.description.startswith("Revealed type is"):
            m = re.match(r"Revealed type is '?(.*?)'?$", d.description, re.S)
            out.setdefault(d.lineno, []).append(m.group(1) if m else d.description)
    return out
