"""Generator of small ILL-TYPED multi-diagnostic programs (shared by C10, C11, C16).

`gen_program(rng) -> source`   deterministic given the rng (a `random.Random`).

Shape guarantees (by construction; `gen_program_info` also returns what the generator *expects*, which
the consuming check compares with what pyanalyze actually reports and counts):

* 3-12 diagnostics, at least 3 distinct error codes;
* a diagnostic on physical line 1 (or on line 2 when the file starts with a `#!` header, ~12 %) and one on the
  last physical line; ~20 % of programs have no trailing newline at EOF;
* lines carrying several diagnostics (same and different codes, two statements on one line, two codes at the
  same position, two codes on the very same AST node), diagnostics inside multi-line calls / list displays / multi-line `def` signatures, after a
  backslash continuation and after a multi-line string, inside loops (visited twice by pyanalyze), try/with/if,
  nested functions and methods;
* blank lines, own-line comments and trailing comments sprinkled in (never ignore comments);
* the module imports cleanly: everything that would fail at run time is inside never-called function bodies;
  module-level lines only carry diagnostics that execute fine (`x: int = "a"`).
"""
from __future__ import annotations

import random
from typing import Callable, List, Tuple

PRELUDE = [
    "import os",
    "",
    "def deco(fn): return fn",
    "",
    'def f1(a: int, b: str = "") -> int:',
    "    return a",
    "",
]


class _G:
    def __init__(self, rng: random.Random):
        self.rng = rng
        self.n = 0

    def fresh(self, stem: str = "undef") -> str:
        self.n += 1
        return f"{stem}_{self.n}"


Snippet = Tuple[List[str], List[str]]  # (lines relative to the statement's indentation, expected codes)

# ---------------------------------------------------------------------------
# single-line statements


def _s_undefined(g) -> Snippet:
    return [f"print({g.fresh()})"], ["undefined_name"]


def _s_call(g) -> Snippet:
    return ["f1(1, 2, 3)"], ["incompatible_call"]


def _s_arg(g) -> Snippet:
    return [f'f1("{g.fresh("s")}")'], ["incompatible_argument"]


def _s_osattr(g) -> Snippet:
    return [f"os.{g.fresh('nothing')}"], ["undefined_attribute"]


def _s_fmt(g) -> Snippet:
    return ['"%d" % "a"'], ["bad_format_string"]


def _s_binop(g) -> Snippet:
    return [f'1 + "{g.fresh("t")}"'], ["unsupported_operation"]


def _s_unpack(g) -> Snippet:
    a, b = g.fresh("q"), g.fresh("r")
    return [f"{a}, {b} = 1, 2, 3", f"print({a}, {b})"], ["bad_unpack"]


def _s_dupkey(g) -> Snippet:
    return ["{1: 1, 1: 2}"], ["duplicate_dict_key"]


def _s_unhashable(g) -> Snippet:
    return ["{[]: 1}"], ["unhashable_key"]


def _s_listattr(g) -> Snippet:
    return [f"[].{g.fresh('nope')}"], ["undefined_attribute"]


def _s_len(g) -> Snippet:
    return ["len(1)"], ["incompatible_argument"]


def _s_annassign(g) -> Snippet:
    v = g.fresh("z")
    return [f"{v}: str = 1", f"print({v})"], ["incompatible_assignment"]


def _s_noneattr(g) -> Snippet:
    return [f"None.{g.fresh('foo')}"], ["undefined_attribute"]


def _s_import(g) -> Snippet:
    m = g.fresh("nonexistent_mod")
    return [f"import {m}", f"print({m})"], ["import_failed"]


def _s_del(g) -> Snippet:
    return [f"del {g.fresh()}"], ["undefined_name"]


def _s_with(g) -> Snippet:
    return ["with 3: pass"], ["invalid_context_manager"]


def _s_notcallable(g) -> Snippet:
    return ["os.sep()"], ["not_callable"]


def _s_lambda(g) -> Snippet:
    return [f"lambda: {g.fresh()}"], ["undefined_name"]


def _s_comp(g) -> Snippet:
    return [f"[{g.fresh()} for _ in range(3)]"], ["undefined_name"]


def _s_unusedvar(g) -> Snippet:
    return [f"{g.fresh('unused')} = 1"], ["unused_variable"]


# several diagnostics on one line


def _m_three_codes(g) -> Snippet:
    return [f'f1("s", {g.fresh()}, 1 + "c")'], ["unsupported_operation", "undefined_name", "incompatible_call"]


def _m_two_undefined(g) -> Snippet:
    return [f"print({g.fresh()}, {g.fresh()})"], ["undefined_name", "undefined_name"]


def _m_add_calls(g) -> Snippet:
    return [f'f1({g.fresh()}) + f1("t")'], ["undefined_name", "incompatible_argument"]


def _m_two_stmts(g) -> Snippet:
    return ['f1("a"); f1(1, 2, 3)'], ["incompatible_argument", "incompatible_call"]


def _m_same_node(g) -> Snippet:
    # two codes on the same AST node
    return ['"%s %s" % (p,)'], ["bad_format_string", "use_fstrings"]


def _m_attr_assign(g) -> Snippet:
    return [f"{g.fresh()}.x = {g.fresh()}"], ["undefined_name", "undefined_name"]


def _m_for(g) -> Snippet:
    return [f"for {g.fresh('i')} in 3: pass"], ["unsupported_operation", "unused_variable"]


# multi-line constructs


def _ml_call(g) -> Snippet:
    return ["f1(", '    "s",', f"    b={g.fresh()},", ")"], ["incompatible_argument", "undefined_name"]


def _ml_nested_call(g) -> Snippet:
    return (
        [f"f1({g.fresh()}, b=f1(", '    "t"), zz=1 + "q")'],
        ["undefined_name", "incompatible_call", "incompatible_argument", "unsupported_operation"],
    )


def _ml_list(g) -> Snippet:
    v = g.fresh("v")
    return [f"{v} = [", f"    {g.fresh()},", '    1 + "x",', "]", f"print({v})"], ["undefined_name", "unsupported_operation"]


def _ml_backslash(g) -> Snippet:
    v = g.fresh("w")
    return [f"{v} = 1 + \\", '    "a"', f"print({v})"], ["unsupported_operation"]


def _ml_backslash2(g) -> Snippet:
    v = g.fresh("w")
    return [f"{v} = f1(1) + \\", '    f1("a")', f"print({v})"], ["incompatible_argument"]


def _ml_string(g) -> Snippet:
    return ['f1("""a', f'b""", {g.fresh()})'], ["incompatible_argument", "undefined_name"]


def _ml_def(g) -> Snippet:
    k = g.fresh("k")
    return (
        [f"def {k}(", '    a: int = "x",', "    b: str = 1,", ") -> None:", "    pass", f"print({k})"],
        ["incompatible_default", "incompatible_default"],
    )


def _ml_call_lastline(g) -> Snippet:
    return ["f1(1,", "   b=3)"], ["incompatible_argument"]


SINGLE = [
    _s_undefined, _s_call, _s_arg, _s_osattr, _s_fmt, _s_binop, _s_unpack, _s_dupkey, _s_unhashable, _s_listattr,
    _s_len, _s_annassign, _s_noneattr, _s_import, _s_del, _s_with, _s_notcallable, _s_lambda, _s_comp, _s_unusedvar,
]
MULTI_DIAG = [_m_three_codes, _m_two_undefined, _m_add_calls, _m_two_stmts, _m_same_node, _m_attr_assign, _m_for]
MULTI_LINE = [_ml_call, _ml_nested_call, _ml_list, _ml_backslash, _ml_backslash2, _ml_string, _ml_def, _ml_call_lastline]

# statements that may end a file with a diagnostic on the very last physical line (all single physical last line)
LAST_BODY = [_s_undefined, _s_arg, _m_three_codes, _m_two_undefined, _ml_call_lastline, _ml_nested_call, _s_binop,
             _m_two_stmts, _ml_string]


def _line1(g) -> Snippet:
    r = g.rng.randrange(8)
    if r == 0:
        return ['x0: int = "a"'], ["incompatible_assignment"]
    if r == 1:
        return ['x0: int = "a"; y0: str = 1'], ["incompatible_assignment", "incompatible_assignment"]
    if r == 2:
        return ['def f0(p: int = "zz") -> None: pass'], ["incompatible_default"]
    if r == 3:
        return ["X0 = {1: 1, 1: 2}"], ["duplicate_dict_key"]
    if r == 4:
        return [f"L0 = lambda: {g.fresh()}"], ["undefined_name"]
    if r == 5:
        return ['def f0() -> int: return "s"'], ["incompatible_return_value"]
    if r == 6:
        return ['x0: int = "a"  # first line'], ["incompatible_assignment"]
    return [f'def f0(p: int = "zz") -> int: return {g.fresh()}'], ["incompatible_default", "undefined_name"]


WRAPPERS: List[Tuple[str, Callable[[List[str]], List[str]]]] = []


def _indent(lines: List[str], by: str = "    ") -> List[str]:
    return [by + ln if ln else ln for ln in lines]


def _wrap(g, body: List[str]) -> List[str]:
    r = g.rng.randrange(7)
    if r == 0:
        return ["if f1(1):"] + _indent(body)
    if r == 1:
        return ["for _i in range(2):"] + _indent(body)  # loop bodies are visited twice: dedupe filter
    if r == 2:
        return ["while f1(1):"] + _indent(body)
    if r == 3:
        return ["try:"] + _indent(body) + ["except Exception:", "    pass"]
    if r == 4:
        return ["try:", "    pass", "finally:"] + _indent(body)
    if r == 5:
        return ["with open(os.devnull):"] + _indent(body)
    n = g.fresh("inner")
    return [f"def {n}() -> None:"] + _indent(body) + [f"print({n})"]


def _decorate(g, stmt_lines: List[str], single_line: bool) -> List[str]:
    """Sprinkle blank lines / comments around a statement (never inside a multi-line construct)."""
    out = []
    r = g.rng.random()
    if r < 0.10:
        out.append("")
    elif r < 0.20:
        out.append("# a note")
    out.extend(stmt_lines)
    if single_line and len(stmt_lines) == 1 and g.rng.random() < 0.12:
        out[-1] = out[-1] + "  # trailing note"
    return out


def _attempt(rng: random.Random):
    g = _G(rng)
    target = rng.randrange(3, 13)
    expected: List[str] = []
    lines: List[str] = []

    header = rng.random() < 0.12
    if header:
        lines.append("#!/usr/bin/env python")
    l1, c1 = _line1(g)
    lines.extend(l1)
    expected += c1
    lines.extend(PRELUDE)

    # what ends the file
    last_kind = rng.randrange(4)
    if last_kind == 0:
        last_lines, last_codes, last_indented = ["y_last: str = 1"], ["incompatible_assignment"], False
    elif last_kind == 1:
        ret = rng.choice(["undef", "lit"])
        if ret == "undef":
            last_lines, last_codes = [f"return {g.fresh()}"], ["undefined_name"]
        else:
            last_lines, last_codes = ['return "s"'], ["incompatible_return_value"]
        last_indented = True
    else:
        fn = rng.choice(LAST_BODY)
        last_lines, last_codes = fn(g)
        last_indented = True
    budget = target - len(expected) - len(last_codes)

    # a module-level class whose method carries two codes on the *same AST node* (method_first_arg + missing_return)
    class_block: List[str] = []
    if budget >= 2 and rng.random() < 0.25:
        budget -= 2
        expected += ["method_first_arg", "missing_return"]
        class_block = [f"class {g.fresh('K')}:", "    def m() -> int:", "        pass", ""]

    # body statements
    stmts: List[Tuple[List[str], List[str], bool]] = []
    guard = 0
    while budget > 0 and guard < 40:
        guard += 1
        r = rng.random()
        pool = SINGLE if r < 0.45 else MULTI_DIAG if r < 0.72 else MULTI_LINE
        fn = rng.choice(pool)
        ls, cs = fn(g)
        if len(cs) > budget:
            continue
        budget -= len(cs)
        stmts.append((ls, cs, pool is not MULTI_LINE))
    # distribute statements over 1-3 functions (+ optionally a class with a method)
    nfun = rng.randrange(1, 4) if stmts else 1
    groups: List[List[Tuple[List[str], List[str], bool]]] = [[] for _ in range(nfun)]
    for s in stmts:
        groups[rng.randrange(nfun)].append(s)
    for gi, grp in enumerate(groups):
        is_last_fn = gi == nfun - 1
        if class_block and gi == nfun // 2:
            lines.extend(class_block)
        in_class = rng.random() < 0.2
        head: List[str] = []
        body: List[str] = []
        for ls, cs, single in grp:
            expected += cs
            st = list(ls)
            if rng.random() < 0.3:
                st = _wrap(g, st)
                single = False
            body.extend(_decorate(g, st, single))
        if is_last_fn and last_indented:
            body.extend(last_lines)
            expected += last_codes
        if not body:
            body = ["pass"]
        elif not (is_last_fn and last_indented) and rng.random() < 0.3:
            body.append("return None")
        name = g.fresh("g")
        if rng.random() < 0.2:
            head.append("@deco")
        ret = "None" if not (is_last_fn and last_indented and last_lines[0].startswith("return")) else "int"
        if in_class:
            cname = g.fresh("K")
            lines.append(f"class {cname}:")
            lines.extend(_indent(head + [f"def {name}(self, p: int = 0) -> {ret}:"] + _indent(body)))
        else:
            lines.extend(head + [f"def {name}(p: int = 0) -> {ret}:"] + _indent(body))
        if not (is_last_fn and last_indented):
            lines.append("")
    if not last_indented:
        lines.extend(last_lines)
        expected += last_codes
    trailing_newline = rng.random() < 0.8
    source = "\n".join(lines) + ("\n" if trailing_newline else "")
    return source, expected


def gen_program_info(rng: random.Random):
    """-> (source, expected_codes_multiset_as_sorted_list)"""
    for _ in range(200):
        source, expected = _attempt(rng)
        if 3 <= len(expected) <= 12 and len(set(expected)) >= 3:
            return source, sorted(expected)
    raise RuntimeError("illtyped generator could not satisfy its shape constraints")


def gen_program(rng: random.Random) -> str:
    return gen_program_info(rng)[0]
