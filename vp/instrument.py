"""AST instrumentation: the module object handed to pyanalyze is built from an instrumented copy of the AST
(every observed expression wrapped as __rec(k, <expr>)), while pyanalyze analyses the ORIGINAL source and tree.
The functions pyanalyze sees as KnownValue(f) are the instrumented functions, so calling module.f(...) afterwards
runs the very objects the checker reasoned about; __rec judges each value online, at evaluation time.
"""
from __future__ import annotations

import ast
import linecache
import secrets
import sys
import types
from typing import Callable, Optional

from vp import ty

OBSERVED = (ast.Name, ast.Subscript, ast.Call, ast.BinOp, ast.IfExp, ast.Attribute, ast.Compare, ast.BoolOp, ast.UnaryOp)


def node_key(node: ast.AST) -> tuple:
    return (type(node).__name__, node.lineno, node.col_offset, node.end_lineno, node.end_col_offset)


class _Instrumenter(ast.NodeTransformer):
    def __init__(self, observed=OBSERVED):
        self.keys: list = []
        self.depth = 0  # >0 inside a function body
        self.observed = observed

    def _wrap(self, node: ast.expr) -> ast.expr:
        k = len(self.keys)
        self.keys.append(node_key(node))
        call = ast.Call(func=ast.Name(id="__rec", ctx=ast.Load()), args=[ast.Constant(k), node], keywords=[])
        return ast.copy_location(call, node)

    # ---- regions that are never instrumented
    def visit_FunctionDef(self, node):
        # decorators, annotations, defaults untouched; body instrumented
        self.depth += 1
        node.body = [self.visit(s) for s in node.body]
        self.depth -= 1
        return node

    visit_AsyncFunctionDef = visit_FunctionDef

    def visit_Lambda(self, node):
        return node

    def visit_ClassDef(self, node):
        node.body = [self.visit(s) for s in node.body]
        return node

    def visit_AnnAssign(self, node):
        if node.value is not None:
            node.value = self.visit(node.value)
        return node

    def visit_arg(self, node):
        return node

    def visit_match_case(self, node):
        if node.guard is not None:
            node.guard = self.visit(node.guard)
        node.body = [self.visit(s) for s in node.body]
        return node

    def visit_Global(self, node):
        return node

    visit_Nonlocal = visit_Global

    def visit_JoinedStr(self, node):
        return node

    def generic_visit(self, node):
        node = super().generic_visit(node)
        return node

    def visit(self, node):
        if isinstance(node, ast.expr):
            if isinstance(getattr(node, "ctx", None), (ast.Store, ast.Del)):
                # targets: only instrument inner loads (e.g. the `xs` and `i` of xs[i] = ...)
                if isinstance(node, (ast.Subscript, ast.Attribute)):
                    node.value = self.visit(node.value)
                    if isinstance(node, ast.Subscript):
                        node.slice = self.visit(node.slice)
                elif isinstance(node, (ast.Tuple, ast.List)):
                    node.elts = [self.visit(e) for e in node.elts]
                elif isinstance(node, ast.Starred):
                    node.value = self.visit(node.value)
                return node
            if isinstance(node, ast.Call) and isinstance(node.func, ast.Name) and node.func.id in ("reveal_type", "__probe", "super", "locals", "globals"):
                if node.func.id == "__probe":
                    node.args = [node.args[0]] + [self.visit(a) for a in node.args[1:]]
                return node
            is_observed = self.depth > 0 and isinstance(node, self.observed)
            if isinstance(node, ast.Call):
                # the callee position is not wrapped (keeps method binding / zero-arg forms intact)
                if isinstance(node.func, ast.Attribute):
                    node.func.value = self.visit(node.func.value)
                elif not isinstance(node.func, ast.Name):
                    node.func = self.visit(node.func)
                node.args = [self.visit(a) for a in node.args]
                for kw in node.keywords:
                    kw.value = self.visit(kw.value)
            else:
                node = super().generic_visit(node)
            if is_observed:
                return self._wrap(node)
            return node
        return super().visit(node)


class _FakeLoader:
    def __init__(self, source: str) -> None:
        self._source = source

    def get_source(self, name: object) -> str:
        return self._source


class Instrumented:
    """module + the two trees + key table; `table[k]` is filled with (Ty, Value) after the check."""

    def __init__(self, source: str, extra_scope: Optional[dict] = None, observed=OBSERVED):
        self.source = source
        self.tree = ast.parse(source)  # analysed by pyanalyze (annotate=True)
        inst_tree = ast.parse(source)
        tr = _Instrumenter(observed)
        inst_tree = tr.visit(inst_tree)
        ast.fix_missing_locations(inst_tree)
        self.keys = tr.keys
        self.table: list = [None] * len(self.keys)
        self.on_value: Optional[Callable] = None
        self.events = 0
        token = secrets.token_hex()
        name = f"<test input {secrets.token_hex()}>"
        mod = types.ModuleType(name)
        scope = mod.__dict__
        scope["__name__"] = name
        scope["__file__"] = f"{token}.py"
        scope["__loader__"] = _FakeLoader(source)
        linecache.lazycache(scope["__file__"], scope)
        scope["__rec"] = self._rec
        if extra_scope:
            scope.update(extra_scope)
        code = compile(inst_tree, scope["__file__"], "exec")
        exec(code, scope)
        sys.modules[name] = mod
        self.module = mod

    def _rec(self, k, value):
        self.events += 1
        cb = self.on_value
        if cb is not None:
            cb(k, value)
        return value

    def bind_inferred(self) -> dict:
        """After pyanalyze ran with annotate=True on self.tree: key -> node with inferred_value."""
        by_key = {}
        for node in ast.walk(self.tree):
            if isinstance(node, ast.expr) and hasattr(node, "lineno") and hasattr(node, "inferred_value"):
                by_key.setdefault(node_key(node), node)
        self.nodes = [None] * len(self.keys)
        for i, key in enumerate(self.keys):
            if key is None:
                continue
            node = by_key.get(key)
            if node is None:
                continue
            self.nodes[i] = node
            v = node.inferred_value
            try:
                t = ty.from_value(v)
            except Exception:  # noqa: BLE001
                t = ty.OPAQUE
            self.table[i] = (t, v)
        return by_key

    def dispose(self) -> None:
        sys.modules.pop(self.module.__name__, None)


# ---------------------------------------------------------------------------
# structural context of a node (for mechanism keys)


def parent_map(tree: ast.AST) -> dict:
    parents = {}
    for p in ast.walk(tree):
        for field, value in ast.iter_fields(p):
            if isinstance(value, ast.AST):
                parents[value] = (p, field)
            elif isinstance(value, list):
                for c in value:
                    if isinstance(c, ast.AST):
                        parents[c] = (p, field)
    return parents


def test_kind(test: ast.expr) -> str:
    if isinstance(test, ast.UnaryOp) and isinstance(test.op, ast.Not):
        return "not-" + test_kind(test.operand)
    if isinstance(test, ast.BoolOp):
        op = "and" if isinstance(test.op, ast.And) else "or"
        return op + "(" + ",".join(sorted({test_kind(v) for v in test.values})) + ")"
    if isinstance(test, ast.Call) and isinstance(test.func, ast.Name):
        return test.func.id
    if isinstance(test, ast.Compare) and len(test.ops) == 1:
        op = type(test.ops[0]).__name__
        left = "len" if isinstance(test.left, ast.Call) and isinstance(test.left.func, ast.Name) and test.left.func.id == "len" else ""
        right = test.comparators[0]
        r = "None" if isinstance(right, ast.Constant) and right.value is None else ("lit" if isinstance(right, (ast.Constant, ast.Attribute, ast.Tuple)) else "expr")
        return f"{left}{op}-{r}"
    if isinstance(test, ast.Compare):
        # a chain `a < x < 5`: the set of its links, each named like a single comparison by operator and right operand
        operands = [test.left, *test.comparators]
        links = set()
        for op, right in zip(test.ops, operands[1:]):
            r = "None" if isinstance(right, ast.Constant) and right.value is None else ("lit" if isinstance(right, (ast.Constant, ast.Attribute, ast.Tuple)) else "expr")
            links.add(f"{type(op).__name__}-{r}")
        return "chain(" + ",".join(sorted(links)) + ")"
    if isinstance(test, ast.Name):
        return "truthy"
    if isinstance(test, ast.NamedExpr):
        return "walrus"
    return type(test).__name__


def context_of(node: ast.AST, parents: dict, varname: Optional[str] = None) -> str:
    """Innermost enclosing control construct (and narrowing test kind if it mentions varname)."""
    cur = node
    while cur in parents:
        p, field = parents[cur]
        if isinstance(p, ast.If):
            if field in ("body", "orelse"):
                mentions = varname is None or any(isinstance(n, ast.Name) and n.id == varname for n in ast.walk(p.test))
                if mentions:
                    return f"if-{'body' if field == 'body' else 'else'}[{test_kind(p.test)}]"
            elif field == "test":
                return f"if-test[{test_kind(p.test)}]"
        elif isinstance(p, ast.IfExp) and field in ("body", "orelse"):
            return f"ifexp-{field}[{test_kind(p.test)}]"
        elif isinstance(p, ast.BoolOp):
            idx = p.values.index(cur) if cur in p.values else 0
            if idx > 0:
                return f"boolop-rhs[{'and' if isinstance(p.op, ast.And) else 'or'}:{test_kind(p.values[0])}]"
        elif isinstance(p, (ast.While, ast.For)):
            kind = "while" if isinstance(p, ast.While) else "for"
            if field == "orelse":
                return f"{kind}-else"
            if field == "body":
                return f"{kind}-body"
            if field == "test":
                return f"{kind}-test[{test_kind(p.test)}]"
        elif isinstance(p, ast.Try):
            return {"body": "try-body", "orelse": "try-else", "finalbody": "try-finally"}.get(field, "try")
        elif isinstance(p, ast.ExceptHandler):
            return "except"
        elif isinstance(p, ast.With):
            if field == "body":
                return "with-body"
        elif isinstance(p, ast.match_case):
            pat = type(p.pattern).__name__
            return f"match-case[{pat}{'+guard' if p.guard is not None else ''}]"
        elif isinstance(p, (ast.FunctionDef, ast.AsyncFunctionDef, ast.Lambda)):
            return "plain"
        elif isinstance(p, (ast.ListComp, ast.SetComp, ast.DictComp, ast.GeneratorExp)):
            return "comprehension"
        cur = p
    return "plain"


def after_construct(node: ast.AST, parents: dict) -> str:
    """What kind of compound statement precedes the statement containing `node` in its block (merge points)."""
    cur = node
    while cur in parents and not isinstance(cur, ast.stmt):
        cur = parents[cur][0]
    if cur not in parents:
        return ""
    p, field = parents[cur]
    block = getattr(p, field, None)
    if isinstance(block, list) and cur in block:
        i = block.index(cur)
        if i > 0:
            prev = block[i - 1]
            if isinstance(prev, (ast.If, ast.While, ast.For, ast.Try, ast.With, ast.Match)):
                return "after-" + type(prev).__name__.lower()
    return ""
