import argparse
import os
import sys

from vp import core


def main() -> int:
    ap = argparse.ArgumentParser(prog="check")
    ap.add_argument("prop")
    ap.add_argument("--tier", default=os.environ.get("VERIF_TIER", "quick"), choices=["quick", "thorough"])
    ap.add_argument("--seed", type=int, default=int(os.environ.get("VERIF_SEED", "0") or 0))
    ap.add_argument("--replay")
    ap.add_argument("--jobs", type=int)
    args = ap.parse_args()
    pid = args.prop.upper()
    if args.replay:
        return core.run_replay(pid, args.replay)
    return core.run_check(pid, args.tier, args.seed, args.jobs)


if __name__ == "__main__":
    sys.exit(main())
