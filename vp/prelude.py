"""User-level classes that generated programs and the Ty oracle share.

Generated programs start with `from vp.prelude import *`.
"""
import dataclasses
import enum
import typing
from typing import Any, Callable, Dict, FrozenSet, Generic, Iterable, List, Literal, Mapping, NewType, Optional, Sequence, Set, Tuple, Type, TypeVar, Union, Collection

from typing_extensions import NotRequired, Protocol, ReadOnly, Required, TypedDict, Unpack


class A:
    def __init__(self, tag: int = 0) -> None:
        self.tag = tag

    def __repr__(self) -> str:
        return f"{type(self).__name__}({self.tag})"

    def __eq__(self, other: object) -> bool:
        return type(other) is type(self) and other.tag == self.tag  # type: ignore[attr-defined]

    def __hash__(self) -> int:
        return hash((type(self).__name__, self.tag))


class B(A):
    """Subclass of A whose instances are falsy."""

    def __bool__(self) -> bool:
        return False


class C:
    def __init__(self, tag: int = 0) -> None:
        self.tag = tag

    def __repr__(self) -> str:
        return f"C({self.tag})"

    def __eq__(self, other: object) -> bool:
        return type(other) is C and other.tag == self.tag  # type: ignore[attr-defined]

    def __hash__(self) -> int:
        return hash(("C", self.tag))


class AC(A, C):
    """Instance of both A and C, which are otherwise unrelated (narrowing A by isinstance(x, C) is not empty)."""


class Color(enum.Enum):
    RED = 1
    GREEN = 2
    BLUE = 3


class Num(enum.IntEnum):
    ONE = 1
    TWO = 2


class TD1(TypedDict):
    a: int
    b: NotRequired[str]


class TD2(TypedDict):
    a: int
    c: A


class TD3(TypedDict):
    a: Optional[int]
    b: NotRequired[Optional[str]]


NT = NewType("NT", int)
NS = NewType("NS", str)


class HasTag(Protocol):
    tag: int


@dataclasses.dataclass(frozen=True)
class DC:
    x: int
    y: str = "y"


class NTup(typing.NamedTuple):
    x: int
    y: str


class NPair(typing.NamedTuple):
    x: int
    y: int


T = TypeVar("T")
K = TypeVar("K")
V = TypeVar("V")
TA = TypeVar("TA", bound=A)
TIS = TypeVar("TIS", int, str)


K2 = TypeVar("K2")
V2 = TypeVar("V2")


# User-defined generic classes.  Each keeps, per OWN type parameter, an attribute declared with that parameter
# (vp.ty.GEN_VIEWS reads them), and fills its base class's attributes exactly as its class header says.
class GPair(Generic[K, V]):
    def __init__(self, first: K, second: V) -> None:
        self.first = first
        self.second = second

    def _key(self) -> tuple:
        return (type(self).__name__, repr(self.first), repr(self.second))

    def __repr__(self) -> str:
        return f"{type(self).__name__}<{self.first!r}, {self.second!r}>"

    def __eq__(self, other: object) -> bool:
        return type(other) is type(self) and other._key() == self._key()  # type: ignore[attr-defined]

    def __hash__(self) -> int:
        return hash(self._key())


class GSame(GPair[K, V]):
    """Same TypeVar objects, same positions."""


class GFlip(GPair[V, K], Generic[K, V]):
    """Own parameters handed to the base in swapped positions, re-using the base's TypeVar objects."""

    def __init__(self, a: K, b: V) -> None:
        super().__init__(b, a)
        self.a = a
        self.b = b


class GFlipFresh(GPair[V2, K2], Generic[K2, V2]):
    """Alpha-renamed twin of GFlip (fresh TypeVar objects)."""

    def __init__(self, a: K2, b: V2) -> None:
        super().__init__(b, a)
        self.a = a
        self.b = b


class GFlipSub(GFlip[V, K], Generic[K, V]):
    """Swaps again: GFlipSub[X, Y] is a GFlip[Y, X] is a GPair[X, Y]."""

    def __init__(self, p: K, q: V) -> None:
        super().__init__(q, p)
        self.p = p
        self.q = q


class GShift(GPair[V, int], Generic[K, V]):
    """Second own parameter goes to the base's first position; the base's second is fixed."""

    def __init__(self, a: K, b: V) -> None:
        super().__init__(b, 0)
        self.a = a
        self.b = b


class GShiftFresh(GPair[V2, int], Generic[K2, V2]):
    def __init__(self, a: K2, b: V2) -> None:
        super().__init__(b, 0)
        self.a = a
        self.b = b


class GIntFirst(GPair[int, K], Generic[K]):
    """The base's FIRST TypeVar object is the only own parameter and fills the base's SECOND position."""

    def __init__(self, a: K) -> None:
        super().__init__(0, a)
        self.a = a


class GDup(GPair[K, K], Generic[K]):
    def __init__(self, a: K) -> None:
        super().__init__(a, a)
        self.a = a


class GBox(Generic[T]):
    def __init__(self, item: T) -> None:
        self.item = item

    def __repr__(self) -> str:
        return f"{type(self).__name__}<{self.item!r}>"

    def __eq__(self, other: object) -> bool:
        return type(other) is type(self) and repr(other) == repr(self)

    def __hash__(self) -> int:
        return hash(repr(self))


class GListBox(GBox[List[T]], Generic[T]):
    """Own parameter used nested inside the base's argument."""

    def __init__(self, a: T) -> None:
        super().__init__([a])
        self.a = a


class GRevDict(Dict[V, K], Generic[K, V]):
    """A dict whose KEYS have the second own parameter and whose VALUES have the first."""


class GList(List[T]):
    pass


def ident(x: T) -> T:
    return x


def first(xs: List[T]) -> T:
    return xs[0]


def pair(a: K, b: V) -> Dict[K, V]:
    return {a: b}


def opt(x: T) -> Optional[T]:
    return x if x else None


def use(x: object) -> None:
    return None


def boom() -> None:
    raise ValueError("boom")


_flip = [False]


def may_raise() -> int:
    _flip[0] = not _flip[0]
    if _flip[0]:
        raise ValueError("sometimes")
    return 0


def flip() -> bool:
    """Alternates between calls; opaque to the checker."""
    _flip[0] = not _flip[0]
    return _flip[0]


def zero() -> int:
    """An int the checker cannot constant-fold (loop counters start here)."""
    return 0


class FPerm(enum.Flag):
    """A flag enumeration: iterating the class yields R, W, X only; FPerm(0), FPerm.R | FPerm.W, ... are instances too."""

    R = 4
    W = 2
    X = 1


class IMode(enum.IntFlag):
    """An int flag enumeration: IMode(0), IMode.A | IMode.B and (boundary KEEP) IMode(4) are instances too."""

    A = 1
    B = 2


# ---------------------------------------------------------------------------
# TypedDict INHERITANCE family (generated).  Every class declares its own keys with one qualifier each
# (plain / Required / NotRequired / ReadOnly / Required[ReadOnly] / NotRequired[ReadOnly]) under its own totality and
# inherits the keys of 0, 1 or 2 bases (1 or 2 levels).  What is required is NOT written down here: the oracle reads
# CPython's own __required_keys__ / __optional_keys__ / __annotations__ of each class (vp.ty.typeddict_from_class).
# TDI_SPEC only keeps HOW each key came about (for mechanism keys): name -> (total, {key: (qualifier, declaring class)}).
_TDI_QUALS = {
    "p": ("{t}", "int"), "r": ("Required[{t}]", "str"), "n": ("NotRequired[{t}]", "float"), "o": ("ReadOnly[{t}]", "int"),
    "ro": ("Required[ReadOnly[{t}]]", "str"), "no": ("NotRequired[ReadOnly[{t}]]", "int"),
}
TDI_SPEC: Dict[str, Any] = {}
TDI_NAMES: List[str] = []


def _tdi_define(name: str, bases: tuple, total: bool, own: tuple, level: str) -> str:
    body = [f"    {level}{q}: {_TDI_QUALS[q][0].format(t=_TDI_QUALS[q][1])}" for q in own] or ["    pass"]
    head = ", ".join(bases) if bases else "TypedDict"
    exec(f"class {name}({head}{'' if total else ', total=False'}):\n" + "\n".join(body) + "\n", globals())
    keys = {}
    for b in bases:
        keys.update(TDI_SPEC[b][1])
    keys.update({f"{level}{q}": (q, name) for q in own})
    TDI_SPEC[name] = (total, keys)
    TDI_NAMES.append(name)
    return name


def _tdi_family() -> None:
    tf = {True: "T", False: "F"}
    own0 = (("p",), ("n",), ("r",), ("o",), ("p", "r", "n", "o"), ("ro", "no"))
    own1 = ((), ("p",), ("n",), ("r",), ("o",), ("no",))
    level0, level1 = [], []
    for total in (True, False):
        for own in own0:
            level0.append(_tdi_define(f"TDI_{tf[total]}{''.join(own)}", (), total, own, "a"))
    for base in level0:
        for total in (True, False):
            for own in own1:
                level1.append((_tdi_define(f"{base}_{tf[total]}{''.join(own)}", (base,), total, own, "b"), own))
    # second level: below every level-1 class that added nothing or only optional keys
    for base, own in level1:
        if own in ((), ("n",), ("no",)):
            for total in (True, False):
                for own2 in ((), ("p",)):
                    _tdi_define(f"{base}_{tf[total]}{''.join(own2)}", (base,), total, own2, "c")
    # two bases of different totality / qualifiers
    for b1, b2 in (("TDI_Tp", "TDI_Fn"), ("TDI_Fp", "TDI_Tr"), ("TDI_Fp", "TDI_Fo"), ("TDI_Tn", "TDI_Fo"), ("TDI_Fn", "TDI_Fp")):
        for total in (True, False):
            for own in ((), ("p",), ("n",)):
                _tdi_define(f"TDI_{b1[4:]}x{b2[4:]}_{tf[total]}{''.join(own)}", (b1, b2), total, own, "b")


_tdi_family()


# the generated TDI_* classes are NOT star-exported (hundreds of names): users import them by name (TDI_NAMES lists them)
__all__ = [n for n in dir() if not n.startswith("_") and not n.startswith("TDI_")]
