"""User-level classes that generated programs and the Ty oracle share.

Generated programs start with `from vp.prelude import *`.
"""
import dataclasses
import enum
import typing
from typing import Any, Callable, Dict, FrozenSet, Iterable, List, Literal, Mapping, NewType, Optional, Sequence, Set, Tuple, Type, TypeVar, Union, Collection

from typing_extensions import NotRequired, Protocol, Required, TypedDict, Unpack


class A:
    def __init__(self, tag: int = 0) -> None:
        self.tag = tag

    def __repr__(self) -> str:
        return f"{type(self).__name__}({self.tag})"

    def __eq__(self, other: object) -> bool:
        return type(other) is type(self) and other.tag == self.tag  # type: ignore[attr-defined]

    def __hash__(self) -> int:
        return hash((type(self).__name__, self.tag))


class B(A):
    """Subclass of A whose instances are falsy."""

    def __bool__(self) -> bool:
        return False


class C:
    def __init__(self, tag: int = 0) -> None:
        self.tag = tag

    def __repr__(self) -> str:
        return f"C({self.tag})"

    def __eq__(self, other: object) -> bool:
        return type(other) is C and other.tag == self.tag  # type: ignore[attr-defined]

    def __hash__(self) -> int:
        return hash(("C", self.tag))


class AC(A, C):
    """Instance of both A and C, which are otherwise unrelated (narrowing A by isinstance(x, C) is not empty)."""


class Color(enum.Enum):
    RED = 1
    GREEN = 2
    BLUE = 3


class Num(enum.IntEnum):
    ONE = 1
    TWO = 2


class TD1(TypedDict):
    a: int
    b: NotRequired[str]


class TD2(TypedDict):
    a: int
    c: A


class TD3(TypedDict):
    a: Optional[int]
    b: NotRequired[Optional[str]]


NT = NewType("NT", int)
NS = NewType("NS", str)


class HasTag(Protocol):
    tag: int


@dataclasses.dataclass(frozen=True)
class DC:
    x: int
    y: str = "y"


T = TypeVar("T")
K = TypeVar("K")
V = TypeVar("V")
TA = TypeVar("TA", bound=A)
TIS = TypeVar("TIS", int, str)


def ident(x: T) -> T:
    return x


def first(xs: List[T]) -> T:
    return xs[0]


def pair(a: K, b: V) -> Dict[K, V]:
    return {a: b}


def opt(x: T) -> Optional[T]:
    return x if x else None


def use(x: object) -> None:
    return None


def boom() -> None:
    raise ValueError("boom")


_flip = [False]


def may_raise() -> int:
    _flip[0] = not _flip[0]
    if _flip[0]:
        raise ValueError("sometimes")
    return 0


def flip() -> bool:
    """Alternates between calls; opaque to the checker."""
    _flip[0] = not _flip[0]
    return _flip[0]


def zero() -> int:
    """An int the checker cannot constant-fold (loop counters start here)."""
    return 0


__all__ = [n for n in dir() if not n.startswith("_")]
