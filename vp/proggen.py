"""Grammar-based generator of small annotated programs for the soundness monitors (C01, C10, C12 corpus).

Programs never mutate containers, never recurse, do no I/O; loops are bounded by construction.
A generation-time belief `env: var -> Ty` only steers the choice of operations so that most programs are
accepted by the checker and run to completion; it is not an oracle.
"""
from __future__ import annotations

from vp import prelude, ty
from vp.ty import Ty

I, S, F, B_, NONE = ty.Cls(int), ty.Cls(str), ty.Cls(float), ty.Cls(bool), ty.NONE
A, Bc, C = ty.Cls(prelude.A), ty.Cls(prelude.B), ty.Cls(prelude.C)
COLOR, NUM = ty.Cls(prelude.Color), ty.Cls(prelude.Num)

PARAM_TYPES = [
    I, B_, F, S, ty.Cls(bytes), ty.OBJECT,
    ty.Union(I, NONE), ty.Union(S, NONE), ty.Union(A, NONE), ty.Union(I, S), ty.Union(I, S, NONE), ty.Union(A, C),
    ty.Union(F, S), ty.Union(B_, S), ty.Union(F, NONE), ty.Union(I, ty.List(I)), ty.Union(ty.Tuple(I, S), NONE),
    A, Bc, COLOR, NUM, ty.Union(COLOR, NONE),
    ty.Union(ty.Lit(1), ty.Lit(2)), ty.Union(ty.Lit("a"), ty.Lit("b")), ty.Union(ty.Lit(1), ty.Lit("a"), NONE),
    ty.Union(ty.Lit(prelude.Color.RED), ty.Lit(prelude.Color.GREEN)), ty.Union(ty.Lit(True), NONE),
    ty.Tuple(I, S), ty.Tuple(I, S, F), ty.VarTuple(I), ty.VarTuple(ty.Union(I, S)), ty.Tuple(ty.Union(I, NONE), S),
    ty.List(I), ty.List(S), ty.List(ty.Union(I, NONE)), ty.List(ty.Tuple(I, S)), ty.Dict(S, I), ty.Set(I), ty.Seq(I),
    ty.TypedDictT("TD1", {"a": (I, True), "b": (S, False)}),
    ty.TypeOf(A), ty.Union(ty.List(I), ty.Tuple(I, I)), ty.Union(ty.List(I), NONE), ty.Union(ty.Dict(S, I), NONE),
    ty.Union(F, I), ty.Union(S, ty.Cls(bytes)), ty.Iter(I),
    # tuples with an unbounded member (PEP 646) before, between and after fixed members
    ty.MixTuple([I], S, [F]), ty.MixTuple([I, ty.Cls(bytes)], S, [F, B_]), ty.MixTuple([], S, [I]), ty.MixTuple([I], S, []),
    ty.MixTuple([], ty.Union(I, NONE), [S, S]),
    # unions of literals an ordering comparison can split (chained comparisons narrow them link by link)
    ty.Union(ty.Lit(1), ty.Lit(7)), ty.Union(ty.Lit(0), ty.Lit(2), ty.Lit(40)), ty.Union(ty.Lit(-1), ty.Lit(5), NONE),
    ty.Union(ty.Lit("a"), ty.Lit("m"), ty.Lit("z")), ty.Union(ty.Lit(1.5), ty.Lit(3)),
]

LITS = ["0", "1", "2", "-1", "True", "False", "None", "'a'", "'b'", "''", "1.5", "b'x'", "Color.RED", "Color.GREEN", "Num.ONE"]


# literal pools for variables whose inferred value is a UNION OF LITERALS (assigned on two paths)
NUM_LITS = ["0", "1", "2", "5", "7", "40", "-1", "1.5", "True", "False"]
STR_LITS = ["'a'", "'b'", "'m'", "'z'", "''", "'ab'"]
ORDER_OPS = ["<", "<=", ">", ">=", "==", "!="]
IDENT_OPS = ["==", "!=", "is", "is not"]


def family(t: Ty):
    """'num' / 'str' when every member of the belief is ordered against that family's literals, 'opt-num' / 'opt-str'
    when None is a member too (only ==, !=, is, is not, in links are generated then), else None."""
    ms = union_members(t)
    if not ms:
        return None
    fams = set()
    for m in ms:
        if m.kind == "NoneT" or m.kind == "Lit" and m.extra.v is None:
            fams.add("none")
            continue
        c = m.extra if m.kind == "Cls" else type(m.extra.v) if m.kind == "Lit" else None
        if c in (int, float, bool):
            fams.add("num")
        elif c is str:
            fams.add("str")
        else:
            return None
    base = fams - {"none"}
    if len(base) != 1:
        return None
    return ("opt-" if "none" in fams else "") + next(iter(base))


def is_literal_union(t: Ty) -> bool:
    ms = union_members(t)
    return len(ms) >= 2 and all(m.kind in ("Lit", "NoneT") for m in ms)


def is_sized(t: Ty) -> bool:
    return t.kind in ("List", "Set", "Dict", "Tuple", "VarTuple", "MixTuple", "Seq", "TypedDict") or (t.kind == "Cls" and t.extra in (str, bytes))


def tuple_elem(t: Ty) -> Ty:
    """Belief about one element of a tuple-like type, whatever its position."""
    if t.kind == "Tuple":
        return ty.Union(*t.args) if t.args else ty.ANY
    if t.kind == "MixTuple":
        prefix, star, suffix = t.args
        return ty.Union(*prefix, star, *suffix)
    return t.args[0] if t.args else ty.ANY


def tuple_width(t: Ty) -> int:
    """Number of member positions (the unbounded member counts once)."""
    if t.kind == "Tuple":
        return len(t.args)
    if t.kind == "MixTuple":
        return len(t.args[0]) + 1 + len(t.args[2])
    return 2


def sweep_indices(n: int) -> list:
    """Every constant index from -(n+1) to n, ordered by the tuple length it needs (0, -1, 1, -2, ...): at run time
    all indices that are valid for the actual tuple are evaluated before the first one that raises IndexError."""
    out = []
    for k in range(n + 1):
        out += [k, -(k + 1)]
    return out


class Productions(set):
    """The set of production names used (what callers expect), plus how often each was used."""

    def __init__(self, *a):
        super().__init__(*a)
        self.counts: dict = {}


def union_members(t: Ty) -> list:
    return list(t.args) if t.kind == "Union" else [t]


def without(t: Ty, pred) -> Ty:
    return ty.Union(*[m for m in union_members(t) if not pred(m)])


def only(t: Ty, pred) -> Ty:
    return ty.Union(*[m for m in union_members(t) if pred(m)])


def cls_of(m: Ty):
    if m.kind == "Cls":
        return m.extra
    if m.kind == "Lit":
        return type(m.extra.v)
    if m.kind == "NoneT":
        return type(None)
    if m.kind in ("List",):
        return list
    if m.kind in ("Tuple", "VarTuple", "MixTuple"):
        return tuple
    if m.kind in ("Dict", "TypedDict"):
        return dict
    if m.kind == "Set":
        return set
    return None


class Gen:
    def __init__(self, rng, max_stmts: int = 14, max_depth: int = 3):
        self.rng = rng
        self.max_stmts = max_stmts
        self.max_depth = max_depth
        self.counter = 0
        self.productions: Productions = Productions()
        self.budget = 0

    # ------------------------------------------------------------------ helpers
    def fresh(self, prefix="v") -> str:
        self.counter += 1
        return f"{prefix}{self.counter}"

    def note(self, prod: str) -> None:
        self.productions.add(prod)
        self.productions.counts[prod] = self.productions.counts.get(prod, 0) + 1

    def pick_var(self, env, pred=None):
        cands = [v for v, t in env.items() if pred is None or pred(t)]
        return self.rng.choice(cands) if cands else None

    # ------------------------------------------------------------------ expressions
    def expr(self, env, depth=0) -> tuple:
        """returns (source, belief Ty)"""
        r = self.rng
        choice = r.random()
        if choice < 0.30 or not env:
            lit = r.choice(LITS)
            self.note("expr:literal")
            return lit, ty.Lit(eval(lit, dict(ty.eval_ns())))
        if choice < 0.62 or depth >= 2:
            v = r.choice(list(env))
            self.note("expr:name")
            return v, env[v]
        if choice < 0.70:
            star = self.pick_var(env, lambda t: t.kind in ("VarTuple", "List", "Tuple", "MixTuple", "Seq")) if r.random() < 0.25 else None
            if star is not None:
                # a display with an unpacked member: (a, *xs, b) / [a, *xs] / (*xs, b) ...
                pre = [self.expr(env, depth + 1) for _ in range(r.randrange(0, 3))]
                suf = [self.expr(env, depth + 1) for _ in range(r.randrange(0, 3))]
                inner = ", ".join([p[0] for p in pre] + ["*" + star] + [p[0] for p in suf])
                if r.random() < 0.7:
                    self.note("expr:tuple-display-star")
                    return f"({inner},)", ty.MixTuple([p[1] for p in pre], tuple_elem(env[star]), [p[1] for p in suf])
                self.note("expr:list-display-star")
                return f"[{inner}]", ty.List(ty.Union(tuple_elem(env[star]), *[p[1] for p in pre + suf]))
            n = r.randrange(0, 4)
            parts = [self.expr(env, depth + 1) for _ in range(n)]
            self.note("expr:tuple-display")
            src = "(" + ", ".join(p[0] for p in parts) + ("," if n == 1 else "") + ")"
            return src, ty.Tuple(*[p[1] for p in parts])
        if choice < 0.76:
            n = r.randrange(0, 3)
            parts = [self.expr(env, depth + 1) for _ in range(n)]
            self.note("expr:list-display")
            return "[" + ", ".join(p[0] for p in parts) + "]", ty.List(ty.Union(*[p[1] for p in parts]) if parts else ty.ANY)
        if choice < 0.80:
            k = r.choice(["'a'", "'b'", "'k'"])
            val = self.expr(env, depth + 1)
            self.note("expr:dict-display")
            return "{" + f"{k}: {val[0]}" + "}", ty.Dict(S, val[1])
        if choice < 0.88:
            sub = self.subscript(env)
            if sub:
                return sub
        if choice < 0.94:
            call = self.call(env)
            if call:
                return call
        a = self.expr(env, depth + 1)
        b = self.expr(env, depth + 1)
        cond = self.cond(env)
        self.note("expr:ifexp")
        return f"({a[0]} if {cond[0]} else {b[0]})", ty.Union(a[1], b[1])

    def subscript(self, env):
        r = self.rng
        v = self.pick_var(env, lambda t: t.kind in ("Tuple", "VarTuple", "MixTuple", "List", "Dict", "Seq", "TypedDict") or (t.kind == "Cls" and t.extra in (str, bytes)))
        if v is None:
            return None
        t = env[v]
        if t.kind == "MixTuple":
            n = tuple_width(t)
            if r.random() < 0.2:
                lo = r.choice(["", "1", "-1"])
                hi = r.choice(["", "1", "2", "-1"])
                self.note("expr:subscript-slice")
                return f"{v}[{lo}:{hi}]", ty.VarTuple(tuple_elem(t))
            idx = r.choice(list(range(-n - 1, n + 1)))
            pos = idx if idx >= 0 else n + idx
            where = "oob" if not 0 <= pos < n else "before-star" if pos < len(t.args[0]) else "at-star" if pos == len(t.args[0]) else "after-star"
            self.note("expr:subscript-startuple-" + ("neg-" if idx < 0 else "pos-") + where)
            return f"{v}[{idx}]", tuple_elem(t)
        if t.kind == "Tuple":
            n = len(t.args)
            if r.random() < 0.2:
                lo = r.choice(["", "1", "-1"])
                hi = r.choice(["", "1", "2", "-1"])
                self.note("expr:subscript-slice")
                return f"{v}[{lo}:{hi}]", ty.VarTuple(ty.Union(*t.args) if t.args else ty.ANY)
            idx = r.choice(list(range(-n - 1, n + 1)))
            self.note("expr:subscript-tuple-" + ("neg" if idx < 0 else "pos") + ("-oob" if not -n <= idx < n else ""))
            return f"{v}[{idx}]", (t.args[idx] if -n <= idx < n else ty.ANY)
        if t.kind == "TypedDict":
            key = r.choice(["a", "b"])
            self.note("expr:subscript-typeddict")
            return f"{v}[{key!r}]", dict((k, f[0]) for k, f in t.args[0]).get(key, ty.ANY)
        if t.kind == "Dict":
            self.note("expr:subscript-dict")
            return f"{v}[{r.choice(['a', 'b'])!r}]", t.args[1]
        idx = r.choice([0, 1, -1, 2])
        if r.random() < 0.2:
            self.note("expr:subscript-slice")
            return f"{v}[{r.choice(['', '1'])}:{r.choice(['', '2', '-1'])}]", t
        self.note("expr:subscript-seq")
        elem = t.args[0] if t.args else (S if t.extra is str else I)
        return f"{v}[{idx}]", elem

    def call(self, env):
        r = self.rng
        opts = []
        any_v = self.pick_var(env)
        if any_v:
            opts.append(lambda: (f"ident({any_v})", env[any_v], "call:ident"))
            opts.append(lambda: (f"opt({any_v})", ty.Union(env[any_v], NONE), "call:opt"))
            opts.append(lambda: (f"str({any_v})", S, "call:str"))
            opts.append(lambda: (f"isinstance({any_v}, {r.choice(['int', 'str', 'A', 'float', '(int, str)'])})", B_, "call:isinstance"))
        lst = self.pick_var(env, lambda t: t.kind == "List")
        if lst:
            opts.append(lambda: (f"first({lst})", env[lst].args[0], "call:first"))
            opts.append(lambda: (f"tuple({lst})", ty.VarTuple(env[lst].args[0]), "call:tuple"))
            opts.append(lambda: (f"sorted({lst})" if env[lst].args[0].kind == "Cls" else f"list({lst})", env[lst], "call:sorted/list"))
        sized = self.pick_var(env, is_sized)
        if sized:
            opts.append(lambda: (f"len({sized})", I, "call:len"))
        tup = self.pick_var(env, lambda t: t.kind in ("Tuple", "VarTuple"))
        if tup:
            opts.append(lambda: (f"list({tup})", ty.List(ty.ANY), "call:list"))
        d = self.pick_var(env, lambda t: t.kind in ("Dict", "TypedDict"))
        if d:
            opts.append(lambda: (f"{d}.get({r.choice(['a', 'b', 'zz'])!r})", ty.ANY, "call:dict.get"))
        iv = self.pick_var(env, lambda t: t == I or t == B_)
        if iv:
            jv = self.pick_var(env, lambda t: t == I) or "3"
            opts.append(lambda: (f"min({iv}, {jv})", I, "call:min"))
            opts.append(lambda: (f"({iv} + 1)", I, "binop:int+"))
            opts.append(lambda: (f"({iv} * 2 - {jv})", I, "binop:int*-"))
        fv = self.pick_var(env, lambda t: t == F)
        if fv:
            opts.append(lambda: (f"({fv} + 1)", F, "binop:float+"))
            opts.append(lambda: (f"({fv} * 2)", F, "binop:float*"))
        sv = self.pick_var(env, lambda t: t == S)
        if sv:
            opts.append(lambda: (f"({sv} + 'x')", S, "binop:str+"))
            opts.append(lambda: (f"', '.join([{sv}, 'q'])", S, "call:str.join"))
            opts.append(lambda: (f"{sv}.upper()", S, "call:str.upper"))
        k = self.pick_var(env, lambda t: t == S or t == I)
        if k and any_v:
            opts.append(lambda: (f"pair({k}, {any_v})", ty.Dict(env[k], env[any_v]), "call:pair"))
        if not opts:
            return None
        src, t, prod = r.choice(opts)()
        self.note(prod)
        return src, t

    # ------------------------------------------------------------------ conditions
    def cond(self, env, var=None) -> tuple:
        """returns (source, var narrowed or None, positive belief, negative belief)"""
        r = self.rng
        v = var or self.pick_var(env)
        if v is None:
            return "True", None, None, None
        t = env[v]
        ms = union_members(t)
        opts = []
        clss = [c for c in (cls_of(m) for m in ms) if c is not None and c is not type(None)]
        names = {int: "int", str: "str", float: "float", bool: "bool", bytes: "bytes", list: "list", tuple: "tuple", dict: "dict", set: "set",
                 prelude.A: "A", prelude.B: "B", prelude.C: "C", prelude.Color: "Color", prelude.Num: "Num"}
        cand = [c for c in clss if c in names] + [r.choice([int, str, float, prelude.A, bool])]
        for c in cand[:3]:
            def mk(c=c):
                pos = only(t, lambda m: cls_of(m) is not None and issubclass(cls_of(m), c))
                neg = without(t, lambda m: cls_of(m) is not None and issubclass(cls_of(m), c))
                return f"isinstance({v}, {names[c]})", v, pos if pos.kind != "Never" else ty.Cls(c), neg, "cond:isinstance"
            opts.append(mk)
        if len(cand) >= 2:
            def mk2():
                c1, c2 = cand[0], cand[1]
                pred = lambda m: cls_of(m) is not None and issubclass(cls_of(m), (c1, c2))  # noqa: E731
                return f"isinstance({v}, ({names[c1]}, {names[c2]}))", v, only(t, pred), without(t, pred), "cond:isinstance-tuple"
            opts.append(mk2)
        if any(m.kind == "NoneT" for m in ms) or r.random() < 0.15:
            opts.append(lambda: (f"{v} is None", v, NONE, without(t, lambda m: m.kind == "NoneT"), "cond:is-none"))
            opts.append(lambda: (f"{v} is not None", v, without(t, lambda m: m.kind == "NoneT"), NONE, "cond:is-not-none"))
        lits = [m for m in ms if m.kind == "Lit"]
        if lits or r.random() < 0.3:
            lit = ty.lit_source(r.choice(lits).extra.v) if lits else r.choice(["1", "'a'", "Color.RED", "True", "0"])
            lv = eval(lit, dict(ty.eval_ns()))
            pos = ty.Lit(lv)
            neg = without(t, lambda m: m.kind == "Lit" and ty.lit_equal(m.extra.v, lv) is True)
            opts.append(lambda: (f"{v} == {lit}", v, pos, neg, "cond:eq"))
            opts.append(lambda: (f"{v} != {lit}", v, neg, pos, "cond:ne"))
            lit2 = r.choice(["2", "'b'", "Color.GREEN", "None"])
            opts.append(lambda: (f"{v} in ({lit}, {lit2})", v, t, t, "cond:in"))
            opts.append(lambda: (f"{v} not in ({lit}, {lit2})", v, t, t, "cond:not-in"))
            if lit in ("True", "Color.RED", "None") or lits and isinstance(lv, (bool, prelude.Color)):
                opts.append(lambda: (f"{v} is {lit}", v, pos, neg, "cond:is-lit"))
        if family(t):
            opts.append(lambda: (self.chain(env, v), v, t, t, "cond:chain"))
        opts.append(lambda: (f"{v}", v, t, t, "cond:truthy"))
        opts.append(lambda: (f"not {v}", v, t, t, "cond:not-truthy"))
        if all(is_sized(m) for m in ms) and ms:
            k = r.choice([0, 1, 2, 3])
            op = r.choice(["==", "!=", "<", ">=", ">"])
            opts.append(lambda: (f"len({v}) {op} {k}", v, t, t, "cond:len" + op))
        src, nv, pos, neg, prod = r.choice(opts)()
        self.note(prod)
        if r.random() < 0.18:
            other = self.cond(env)
            joiner = r.choice(["and", "or"])
            self.note("cond:" + joiner)
            # belief after compound condition: keep it conservative (no narrowing assumed)
            return f"({src}) {joiner} ({other[0]})", None, None, None
        if r.random() < 0.08:
            self.note("cond:not(...)")
            return f"not ({src})", nv, neg, pos
        return src, nv, pos, neg

    # ------------------------------------------------------------------ statements
    def block(self, env, depth, in_loop=False, n=None) -> list:
        r = self.rng
        out = []
        n = n if n is not None else r.randrange(1, 4)
        for _ in range(n):
            if self.budget <= 0:
                break
            out.extend(self.stmt(env, depth, in_loop))
        if not out:
            out = ["pass"]
        return out

    def use(self, env) -> list:
        v = self.pick_var(env)
        if v is None:
            return ["pass"]
        self.note("stmt:use")
        return [f"use({v})"]

    def stmt(self, env, depth, in_loop) -> list:
        r = self.rng
        self.budget -= 1
        deep = depth >= self.max_depth
        choice = r.random()
        if choice < 0.20 or deep and choice < 0.58:
            if r.random() < 0.12:
                return self.lit_union_local(env)[0]
            src, t = self.expr(env)
            reassignable = [k for k in env if not k.startswith(("n", "i", "s"))]  # never clobber loop counters
            v = r.choice(reassignable) if reassignable and r.random() < 0.25 else self.fresh()
            env[v] = t
            self.note("stmt:assign")
            return [f"{v} = {src}"]
        if choice < 0.30 or deep:
            return self.use(env)
        if choice < 0.345:
            return self.stored_cond(env, depth, in_loop)
        if choice < 0.51:
            src, nv, pos, neg = self.cond(env)
            e1, e2 = dict(env), dict(env)
            if nv is not None and pos is not None and pos.kind != "Never":
                e1[nv] = pos
            if nv is not None and neg is not None and neg.kind != "Never":
                e2[nv] = neg
            body = ([f"use({nv})"] if nv else []) + self.block(e1, depth + 1, in_loop)
            lines = [f"if {src}:"] + ["    " + l for l in body]
            self.note("stmt:if")
            rr = r.random()
            if rr < 0.25 and nv is not None:
                src2, nv2, pos2, neg2 = self.cond(e2, nv)
                e3 = dict(e2)
                if nv2 is not None and pos2 is not None and pos2.kind != "Never":
                    e3[nv2] = pos2
                lines += [f"elif {src2}:"] + ["    " + l for l in [f"use({nv})"] + self.block(e3, depth + 1, in_loop)]
                if nv2 is not None and neg2 is not None and neg2.kind != "Never":
                    e2[nv2] = neg2
                self.note("stmt:elif")
            if rr < 0.75:
                ebody = ([f"use({nv})"] if nv else []) + self.block(e2, depth + 1, in_loop)
                lines += ["else:"] + ["    " + l for l in ebody]
                self.note("stmt:else")
            # merge beliefs: variables assigned in both arms keep the union, others keep pre-state
            for k in set(e1) & set(e2):
                if k not in env:
                    env[k] = ty.Union(e1[k], e2[k])
                elif e1[k] != env[k] or e2[k] != env[k]:
                    if k != nv:
                        env[k] = ty.Union(e1[k], e2[k])
            return lines + ([f"use({nv})"] if nv else [])
        if choice < 0.57:
            return self.loop(env, depth)
        if choice < 0.61:
            return self.composite(env, depth, in_loop)
        if choice < 0.67:
            return self.try_(env, depth, in_loop)
        if choice < 0.71:
            return self.try_full(env, depth, in_loop)
        if choice < 0.79:
            return self.match(env, depth, in_loop)
        if choice < 0.835:
            return self.unpack(env)
        if choice < 0.85:
            return self.sweep(env)
        if choice < 0.89:
            return self.chain_stmt(env, depth, in_loop)
        if choice < 0.925 and in_loop:
            self.note("stmt:break/continue")
            src, *_ = self.cond(env)
            return [f"if {src}:", f"    {r.choice(['break', 'continue'])}"]
        if choice < 0.955:
            v = self.pick_var(env)
            self.note("stmt:return")
            src, nv, *_ = self.cond(env)
            # the tested variable is read after the early return, where the condition is known false
            return [f"if {src}:", f"    return {v or 'None'}"] + ([f"use({nv})"] if nv else [])
        if choice < 0.975:
            src, nv, pos, neg = self.cond(env)
            self.note("stmt:assert")
            if nv is not None and pos is not None and pos.kind != "Never":
                env[nv] = pos
            return [f"assert {src}"] + ([f"use({nv})"] if nv else [])
        # walrus inside a condition
        src, t = self.expr(env)
        w = self.fresh("w")
        env2 = dict(env)
        env2[w] = t
        body = [f"use({w})"] + self.block(env2, depth + 1, in_loop)
        self.note("stmt:walrus-if")
        env[w] = t
        return [f"if ({w} := {src}) is not None:"] + ["    " + l for l in body] + [f"use({w})"]

    def sweep(self, env, v=None) -> list:
        """Reads EVERY constant index of a tuple-typed variable (in range for fixed tuples; from -(n+1) to n when the
        tuple has an unbounded member, since any of them may exist at run time)."""
        v = v or self.pick_var(env, lambda t: t.kind == "MixTuple") or self.pick_var(env, lambda t: t.kind in ("Tuple", "VarTuple"))
        if v is None:
            return self.use(env)
        t = env[v]
        n = tuple_width(t)
        if t.kind == "Tuple":
            if not n:
                return self.use(env)
            self.note("stmt:index-sweep-fixed-tuple")
            return [f"use({v}[{i}])" for i in range(-n, n)]
        self.note("stmt:index-sweep-star-tuple" if t.kind == "MixTuple" else "stmt:index-sweep-var-tuple")
        return ["try:"] + [f"    use({v}[{i}])" for i in sweep_indices(n)] + ["except IndexError:", "    pass"]

    def stored_cond(self, env, depth, in_loop) -> list:
        """A narrowing condition is evaluated and STORED, the tested variable is then left alone / rebound on some
        paths only / rebound on all paths, and the stored condition is tested afterwards."""
        r = self.rng
        pool = [k for k in env if not k.startswith(("n", "i", "ok", "s"))]
        if not pool:
            return self.use(env)
        v = r.choice(pool)
        src, nv, pos, neg = self.cond(env, v)
        ok = self.fresh("ok")
        lines = [f"{ok} = {src}"]
        how = r.choice(["none", "if", "else", "for", "while", "try", "except", "all"])
        self.note("stmt:stored-cond+rebind-" + how)
        if how != "none":
            new_src, new_t = self.expr(env, 1)
            if new_src == v:
                new_src, new_t = r.choice(LITS), ty.ANY
            asg = f"{v} = {new_src}"
            if how in ("if", "else"):
                path = "flip()" if r.random() < 0.4 else self.cond(env)[0]
                lines += [f"if {path}:", f"    {asg}"] if how == "if" else [f"if {path}:", "    pass", "else:", f"    {asg}"]
            elif how == "for":
                it = self.pick_var(env, lambda t: t.kind in ("List", "VarTuple", "Set", "Seq")) if r.random() < 0.5 else None
                lines += [f"for {self.fresh('i')} in {it or 'range(' + str(r.choice([0, 1, 2])) + ')'}:", f"    {asg}"]
            elif how == "while":
                lines += [f"while {'flip()' if r.random() < 0.5 else self.cond(env)[0]}:", f"    {asg}", "    break"]
            elif how == "try":
                lines += ["try:", f"    {r.choice(['may_raise()', 'boom()', 'zero()'])}", f"    {asg}", "except ValueError:", "    pass"]
            elif how == "except":
                lines += ["try:", f"    {r.choice(['may_raise()', 'boom()', 'zero()'])}", "except ValueError:", f"    {asg}"]
            else:
                lines += [asg]
            env[v] = new_t if how == "all" else ty.Union(env[v], new_t)
        e1, e2 = dict(env), dict(env)
        if how == "none" and nv is not None:
            if pos is not None and pos.kind != "Never":
                e1[nv] = pos
            if neg is not None and neg.kind != "Never":
                e2[nv] = neg
        negate = r.random() < 0.3
        if negate:
            e1, e2 = e2, e1
            self.note("stmt:stored-cond-tested-negated")
        lines += [f"if {'not ' if negate else ''}{ok}:"] + ["    " + l for l in [f"use({v})"] + self.block(e1, depth + 1, in_loop, n=1)]
        if r.random() < 0.7:
            lines += ["else:"] + ["    " + l for l in [f"use({v})"] + self.block(e2, depth + 1, in_loop, n=1)]
        for k in set(e1) & set(e2):
            if k not in env:
                env[k] = ty.Union(e1[k], e2[k])
            elif (e1[k] != env[k] or e2[k] != env[k]) and k != v:
                env[k] = ty.Union(e1[k], e2[k])
        env[ok] = B_
        return lines + [f"use({v})"]

    def loop(self, env, depth) -> list:
        r = self.rng
        kind = r.random()
        lines = []
        if kind < 0.3:
            i = self.fresh("i")
            e = dict(env)
            e[i] = I
            lines = [f"for {i} in range({r.choice([0, 1, 2, 3])}):"]
            self.note("stmt:for-range")
        elif kind < 0.65:
            v = self.pick_var(env, lambda t: t.kind in ("List", "Tuple", "VarTuple", "MixTuple", "Set", "Seq", "Iter", "Dict"))
            if v is None:
                return self.use(env)
            t = env[v]
            el = self.fresh("e")
            e = dict(env)
            e[el] = tuple_elem(t)
            lines = [f"for {el} in {v}:", f"    use({el})"]
            self.note("stmt:for-iter")
        elif kind < 0.73:
            # the loop runs while a variable that starts as a LITERAL is truthy, and the body shrinks it
            c = self.fresh("s")
            init, step, t = r.choice([("(1, 2)", "{c}[1:]", ty.VarTuple(I)), ("(1, 'a', None)", "{c}[:-1]", ty.VarTuple(ty.ANY)), ("2", "{c} - 1", I),
                                      ("'ab'", "{c}[1:]", S), ("[1, 2]", "{c}[1:]", ty.List(I)), ("3", "{c} // 2", I)])
            e = dict(env)
            e[c] = t
            lines = [f"{c} = {init}", f"while {c}:", f"    use({c})", f"    {c} = {step.format(c=c)}"]
            env[c] = t
            self.note("stmt:while-literal-shrinks")
        else:
            c = self.fresh("n")
            e = dict(env)
            e[c] = I
            lines = [f"{c} = zero()", f"while {c} < {r.choice([0, 1, 2, 3])}:", f"    {c} = {c} + 1"]
            env[c] = I
            self.note("stmt:while")
        body = self.block(e, depth + 1, in_loop=True)
        lines += ["    " + l for l in body]
        if r.random() < 0.35:
            e2 = dict(env)
            for k in e:
                if k not in e2:
                    e2[k] = e[k]
            lines += ["else:"] + ["    " + l for l in self.use(e2) + self.block(e2, depth + 1)]
            self.note("stmt:loop-else")
            for k, t in e2.items():
                if k not in env:
                    env[k] = t
        for k, t in e.items():
            if k in env and env[k] != t:
                env[k] = ty.Union(env[k], t)
        return lines + self.use(env)

    def try_(self, env, depth, in_loop) -> list:
        r = self.rng
        e = dict(env)
        body = self.block(e, depth + 1, in_loop)
        risky = r.choice(["boom()", "raise ValueError('x')", "may_raise()", "int('q')", "pass"])
        body.insert(r.choice([0, len(body)]), risky)
        more = self.block(e, depth + 1, in_loop, n=1)
        lines = ["try:"] + ["    " + l for l in body + more]
        self.note("stmt:try")
        eh = dict(env)
        for k in e:
            if k in eh and e[k] != eh[k]:
                eh[k] = ty.Union(eh[k], e[k])
        lines += [f"except {r.choice(['ValueError', 'Exception', '(ValueError, KeyError)'])}:"] + ["    " + l for l in self.use(eh) + self.block(eh, depth + 1, in_loop, n=1)]
        if r.random() < 0.3:
            ee = dict(e)
            lines += ["else:"] + ["    " + l for l in self.use(ee) + self.block(ee, depth + 1, in_loop, n=1)]
            self.note("stmt:try-else")
        if r.random() < 0.35:
            ef = dict(eh)
            lines += ["finally:"] + ["    " + l for l in self.use(ef)]
            self.note("stmt:try-finally")
        for k in set(e) | set(eh):
            if k in env:
                ts = [x[k] for x in (e, eh) if k in x]
                env[k] = ty.Union(env[k], *ts)
        return lines + self.use(env)

    # ------------------------------------------------------------------ unions of literals, chained comparisons
    def lit_union_local(self, env, fam=None) -> tuple:
        """A fresh local that holds one of two or three LITERALS depending on the path taken (conditional expression,
        if/else, assignment overwritten in an if / a loop / a try body).  returns (lines, var)"""
        r = self.rng
        fam = fam or r.choice(["num", "num", "str", "opt-num", "opt-str"])
        pool = list(NUM_LITS if fam.endswith("num") else STR_LITS)
        r.shuffle(pool)
        a, b, c = pool[:3]
        if fam.startswith("opt-"):
            b = "None"
        v = self.fresh("q")
        path = "flip()" if r.random() < 0.3 else self.cond(env)[0]
        how = r.choice(["ifexp", "if-else", "if", "elif", "for", "try"])
        self.note("stmt:literal-union-local-" + how)
        members = [a, b]
        if how == "ifexp":
            lines = [f"{v} = {a} if {path} else {b}"]
        elif how == "if-else":
            lines = [f"if {path}:", f"    {v} = {a}", "else:", f"    {v} = {b}"]
        elif how == "if":
            lines = [f"{v} = {a}", f"if {path}:", f"    {v} = {b}"]
        elif how == "elif":
            lines = [f"if {path}:", f"    {v} = {a}", "elif flip():", f"    {v} = {b}", "else:", f"    {v} = {c}"]
            members.append(c)
        elif how == "for":
            it = self.pick_var(env, lambda t: t.kind in ("List", "VarTuple", "Set", "Seq"))
            lines = [f"{v} = {a}", f"for {self.fresh('i')} in {it or 'range(' + str(r.choice([0, 1, 2])) + ')'}:", f"    {v} = {b}"]
        else:
            lines = [f"{v} = {a}", "try:", "    may_raise()", f"    {v} = {b}", "except ValueError:", "    pass"]
        ns = dict(ty.eval_ns())
        env[v] = ty.Union(*[NONE if m == "None" else ty.Lit(eval(m, ns)) for m in members])
        return lines, v

    def chain_operand(self, env, fam: str, v: str, literal: bool) -> str:
        """A literal of the family, or an expression of the family whose value the checker does not know."""
        r = self.rng
        base = fam.replace("opt-", "")
        if literal:
            lits = [ty.lit_source(m.extra.v) for m in union_members(env[v]) if m.kind == "Lit"]
            pool = (NUM_LITS[:7] if base == "num" else STR_LITS) + lits * 2
            if base == "num" and lits and r.random() < 0.4:
                # a threshold next to a member, so that the link splits the union
                try:
                    return repr(eval(r.choice(lits), dict(ty.eval_ns())) + r.choice([-1, 1]))
                except Exception:  # noqa: BLE001
                    pass
            return r.choice(pool)
        opts = []
        want = (lambda t: t in (I, F, B_)) if base == "num" else (lambda t: t == S)
        for k, t in env.items():
            if k != v and want(t):
                opts += [k, k]
        if base == "num":
            # zero() + c: a constant the checker knows only as int; which links hold differs from program to program
            opts += ["zero()", f"(zero() + {r.choice([1, 2, 5, 10, 50])})", f"(zero() - {r.choice([1, 2, 5])})"]
            sized = self.pick_var(env, is_sized)
            if sized:
                opts.append(f"len({sized})")
        else:
            other = self.pick_var(env)
            if other:
                opts.append(f"str({other})")
            opts += [f"'{r.choice('abmqz')}'.lower()", "'q'.upper()"]
        return r.choice(opts)

    def chain(self, env, v: str) -> str:
        """A comparison chain with two or three operators in which `v` is an operand; the other operands mix literals
        and expressions the checker knows only by type, so some links narrow `v` and others say nothing."""
        r = self.rng
        fam = family(env[v])
        nops = 2 if r.random() < 0.8 else 3
        slots = nops + 1
        vpos = r.randrange(slots)
        kinds = []
        for i in range(slots):
            kinds.append("V" if i == vpos else r.choice("LN"))
        if r.random() < 0.15:
            kinds[r.choice([i for i in range(slots) if i != vpos])] = "V"  # v twice: `v == y == v`, `1 < v <= v`
        # at least one link must be able to say nothing, and mostly one should be able to narrow
        if "N" not in kinds and r.random() < 0.8:
            kinds[r.choice([i for i in range(slots) if kinds[i] != "V"])] = "N"
        ordered = not fam.startswith("opt-")
        ops = []
        for i in range(nops):
            a, b = kinds[i], kinds[i + 1]
            pool = list(ORDER_OPS if ordered else IDENT_OPS)
            if not ordered and "N" in (a, b) and "V" not in (a, b):
                pool = ["==", "!="]
            if a == "L" and b == "L":
                pool = ["<", "<=", "!=", "=="] if ordered else ["==", "!="]
            if "is" in pool and "L" in (a, b) and "V" in (a, b):
                pool = ["==", "!="]  # identity tests against literals other than None are left to cond()
            ops.append(r.choice(pool))
        operands = [v if k == "V" else self.chain_operand(env, fam, v, k == "L") for k in kinds]
        if not ordered:
            # None participates through identity links: `v is not None != y`, `y == v is None`
            i = r.randrange(nops)
            if "V" in (kinds[i], kinds[i + 1]):
                j = i if kinds[i] != "V" else i + 1
                if kinds[i] == kinds[i + 1] == "V":
                    j = i + 1
                operands[j] = "None"
                ops[i] = r.choice(["is", "is not", "==", "!="])
        if r.random() < 0.12 and kinds[-1] == "V":
            # membership as the last link: `lo < v in (1, 2)`
            operands.append("(" + self.chain_operand(env, fam, v, True) + ", " + self.chain_operand(env, fam, v, True) + ")")
            ops.append(r.choice(["in", "not in"]))
        src = operands[0]
        for op, o in zip(ops, operands[1:]):
            src += f" {op} {o}"
        self.note("cond:chain-" + "".join(kinds) + ("-in" if ops[-1] in ("in", "not in") else ""))
        self.note(f"cond:chain-{len(ops)}ops")
        return src

    def chain_var(self, env, lines: list) -> str:
        """A variable for a chain: preferably one whose belief is a union of literals; made on the spot otherwise."""
        r = self.rng
        cands = [k for k, t in env.items() if family(t) and is_literal_union(t) and not k.startswith(("n", "i", "ok", "s"))]
        plain = [k for k, t in env.items() if family(t) and not k.startswith(("n", "i", "ok", "s"))]
        if cands and r.random() < 0.6:
            return r.choice(cands)
        if plain and r.random() < 0.25:
            return r.choice(plain)
        new, v = self.lit_union_local(env)
        lines += new
        return v

    def chain_stmt(self, env, depth, in_loop) -> list:
        """A chained comparison placed in every kind of position that decides control flow, with the compared
        variable read where the chain is known true AND where it is known false."""
        r = self.rng
        lines: list = []
        v = self.chain_var(env, lines)
        c = self.chain(env, v)
        ctx = r.choice(["if-else", "if-else", "early-return", "early-return-not", "not-if-else", "and-rhs", "or-rhs", "and-test", "or-test",
                        "ifexp", "while", "while-not", "assert", "assert-not", "stored", "elif", "nested-not", "walrus", "guard", "comprehension"])
        self.note("stmt:chain-in-" + ctx)
        u = f"use({v})"
        ind = lambda ls: ["    " + l for l in ls]  # noqa: E731
        blk = lambda: self.block(dict(env), depth + 1, in_loop, n=1)  # noqa: E731
        if ctx == "if-else":
            lines += [f"if {c}:"] + ind([u] + blk()) + ["else:"] + ind([u] + blk())
        elif ctx == "early-return":
            lines += [f"if {c}:"] + ind([u, f"return {v}"])
        elif ctx == "early-return-not":
            lines += [f"if not ({c}):"] + ind([u, f"return {v}"])
        elif ctx == "not-if-else":
            lines += [f"if not ({c}):"] + ind([u] + blk()) + ["else:"] + ind([u])
        elif ctx == "nested-not":
            lines += [f"if not (not ({c})):"] + ind([u]) + ["else:"] + ind([u])
        elif ctx == "and-rhs":
            w = self.fresh()
            lines += [f"{w} = ({c}) and ident({v})", f"use({w})"]
            env[w] = ty.ANY
        elif ctx == "or-rhs":
            w = self.fresh()
            lines += [f"{w} = ({c}) or ident({v})", f"use({w})"]
            env[w] = ty.ANY
        elif ctx in ("and-test", "or-test"):
            other = "flip()" if r.random() < 0.4 else self.cond(env)[0]
            j = "and" if ctx == "and-test" else "or"
            test = f"({c}) {j} ({other})" if r.random() < 0.5 else f"({other}) {j} ({c})"
            lines += [f"if {test}:"] + ind([u]) + ["else:"] + ind([u])
        elif ctx == "ifexp":
            w = self.fresh()
            lines += [f"{w} = (ident({v}) if {c} else ({v},))", f"use({w})"]
            env[w] = ty.ANY
        elif ctx in ("while", "while-not"):
            n = self.fresh("n")
            test = c if ctx == "while" else f"not ({c})"
            body = [u, f"{n} = {n} + 1", f"if {n} > 2:", "    break"]
            if r.random() < 0.6:
                # the compared variable is rebound in the body: the test is evaluated again on the new value
                nsrc = r.choice(NUM_LITS if family(env[v]).endswith("num") else STR_LITS)
                body.append(f"{v} = {nsrc}")
                env[v] = ty.Union(env[v], ty.Lit(eval(nsrc, dict(ty.eval_ns()))))
            lines += [f"{n} = zero()", f"while {test}:"] + ind(body) + ["else:"] + ind([u])
            env[n] = I
        elif ctx == "assert":
            lines += [f"assert {c}"]
        elif ctx == "assert-not":
            lines += [f"assert not ({c})"]
        elif ctx == "stored":
            ok = self.fresh("ok")
            lines += [f"{ok} = {c}", f"if {'not ' if r.random() < 0.4 else ''}{ok}:"] + ind([u]) + ["else:"] + ind([u])
            env[ok] = B_
        elif ctx == "elif":
            lines += ["if flip():", "    pass", f"elif {c}:"] + ind([u]) + ["else:"] + ind([u])
        elif ctx == "walrus":
            ok = self.fresh("ok")
            lines += [f"if ({ok} := {c}):"] + ind([u]) + ["else:"] + ind([u]) + [f"use({ok})"]
            env[ok] = ty.ANY
        elif ctx == "guard":
            lines += [f"match {v}:", f"    case _ if {c}:"] + ind(ind([u])) + ["    case _:"] + ind(ind([u]))
        else:
            w = self.fresh()
            lines += [f"{w} = [{v} for _ in range(2) if {c}]", f"use({w})"]
            env[w] = ty.ANY
        return lines + [u]

    # ------------------------------------------------------------------ try statements whose handlers are left abruptly
    def try_full(self, env, depth, in_loop) -> list:
        """try / except / else / finally in which the handlers and the else block ASSIGN a variable and are then left
        by raise / re-raise / a raising call / return / break / continue or go on to assign it again; the variable is
        read in the finally body (which may hold another try statement) and after the statement."""
        r = self.rng
        v = self.fresh("t")
        wrap_loop = not in_loop and r.random() < 0.25
        loopy = in_loop or wrap_loop
        ind = lambda ls: ["    " + l for l in ls]  # noqa: E731
        beliefs = []

        def value() -> str:
            if r.random() < 0.65:
                s = r.choice(LITS)
                beliefs.append(ty.Lit(eval(s, dict(ty.eval_ns()))))
                return s
            s, t = self.expr(env, 1)
            beliefs.append(t)
            return s

        def risky() -> list:
            k = r.random()
            if k < 0.55:
                return [r.choice(["boom()", "raise ValueError('x')", "may_raise()", "may_raise()", "int('q')", "pass", "zero()", "raise KeyError('k')"])]
            return [f"if {self.cond(env)[0]}:", "    " + r.choice(["boom()", "raise ValueError('x')", "raise KeyError('k')", "int('q')"])]

        def leave(in_handler: bool) -> list:
            opts = [("raise-other", "raise KeyError('k')"), ("raise-from", "raise ValueError('y') from None"), ("raising-call", "boom()"),
                    ("maybe-raising-call", "may_raise()"), ("raising-call", "int('q')"), ("return", f"return {v}"),
                    ("reassign", None), ("reassign", None), ("fall-through", "pass"), ("fall-through", "pass")]
            if in_handler:
                opts += [("re-raise", "raise")] * 3
            if loopy:
                opts += [("break", "break"), ("continue", "continue")]
            label, s = r.choice(opts)
            if s is None:
                s = f"{v} = {value()}"
            self.note("try-full:leave-" + ("handler" if in_handler else "else") + "-by-" + label)
            if r.random() < 0.2 and label not in ("fall-through", "reassign"):
                return [f"if {self.cond(env)[0]}:", "    " + s]
            return [s]

        def assigning_block(in_handler: bool) -> list:
            out = [f"use({v})"] if r.random() < 0.5 else []
            out.append(f"{v} = {value()}")
            if r.random() < 0.3:
                out.append(f"use({v})")
            if r.random() < 0.25:
                out += risky() + [f"{v} = {value()}"]
            return out + leave(in_handler)

        lines = [f"{v} = {value()}"]
        body = []
        if r.random() < 0.7:
            body += risky()
        if r.random() < 0.8:
            body.append(f"{v} = {value()}")
        if r.random() < 0.5 or not body:
            body += risky()
        if r.random() < 0.3:
            body += self.block(dict(env), depth + 1, loopy, n=1)
        tr = ["try:"] + ind(body)
        nh = r.choice([0, 1, 1, 1, 2])
        has_else = r.random() < (0.5 if nh else 0.0)
        heads = ["except ValueError:", "except Exception:", "except (ValueError, KeyError):", f"except ValueError as {self.fresh('ex')}:", "except:"]
        if nh == 2:
            tr += ["except KeyError:"] + ind(assigning_block(True))
        if nh:
            tr += [r.choice(heads)] + ind(assigning_block(True))
        if has_else:
            tr += ["else:"] + ind(assigning_block(False))
        fin = [f"use({v})"]
        k = r.random()
        if k < 0.3:
            w = self.fresh()
            fin += [f"{w} = {v}", f"use({w})"]
        elif k < 0.6:
            inner = ["try:"] + ind(risky() + [f"{v} = {value()}"]) + ["except ValueError:"] + ind([f"use({v})"] + ([f"{v} = {value()}"] if r.random() < 0.5 else []))
            if r.random() < 0.3:
                inner += ["else:"] + ind([f"use({v})"])
            if r.random() < 0.4:
                inner += ["finally:"] + ind([f"use({v})"])
            fin += inner + [f"use({v})"]
            self.note("try-full:try-in-finally")
        tr += ["finally:"] + ind(fin)
        self.note(f"stmt:try-full-{nh}handlers" + ("+else" if has_else else "") + "+finally")
        tr += [f"use({v})"]
        if r.random() < 0.6:
            tr = ["try:"] + ind(tr) + [r.choice(["except Exception:", "except (ValueError, KeyError):", "except ValueError:"])] + ind([f"use({v})"])
            if r.random() < 0.3:
                tr += ["finally:"] + ind([f"use({v})"])
            self.note("try-full:outer-try")
        if wrap_loop:
            tr = [f"for {self.fresh('i')} in range({r.choice([1, 2, 3])}):"] + ind(tr)
            self.note("try-full:in-own-loop")
        env[v] = ty.Union(*beliefs)
        return lines + tr + [f"use({v})"]

    def match(self, env, depth, in_loop) -> list:
        r = self.rng
        v = self.pick_var(env)
        if v is None:
            return ["pass"]
        t = env[v]
        ms = union_members(t)
        cases = []
        pats = []
        for m in ms[:3]:
            c = cls_of(m)
            if m.kind == "Lit":
                pats.append((ty.lit_source(m.extra.v), m, "pattern:literal"))
            elif m.kind == "NoneT":
                pats.append(("None", m, "pattern:none"))
            elif m.kind == "Tuple" and m.args and r.random() < 0.5:
                names = [self.fresh("p") for _ in m.args]
                pats.append(("(" + ", ".join(names) + ("," if len(names) == 1 else "") + ")", m, "pattern:sequence"))
            elif m.kind == "Tuple" and m.args:
                k = r.randrange(0, len(m.args) + 1)  # k fixed sub-patterns, then a star: binds [] when k == len
                names = [self.fresh("p") for _ in range(k)]
                pats.append(("[" + ", ".join(names + ["*" + self.fresh("p")]) + "]", m, "pattern:sequence-star-on-fixed-tuple"))
            elif m.kind == "MixTuple":
                # k sub-patterns before the star and j after it: they may reach into the unbounded member
                k, j = r.randrange(0, len(m.args[0]) + 2), r.randrange(0, len(m.args[2]) + 2)
                names = [self.fresh("p") for _ in range(k)] + ["*" + self.fresh("p")] + [self.fresh("p") for _ in range(j)]
                pats.append(("[" + ", ".join(names) + "]", m, "pattern:sequence-star-on-star-tuple"))
            elif m.kind in ("List", "VarTuple", "Seq"):
                a, rest = self.fresh("p"), self.fresh("p")
                pats.append((f"[{a}, *{rest}]", m, "pattern:sequence-star"))
            elif m.kind in ("Dict", "TypedDict"):
                pats.append((f"{{'a': {self.fresh('p')}}}", m, "pattern:mapping"))
            elif c in (int, str, float, bool, bytes, prelude.A, prelude.B, prelude.C):
                nm = {int: "int", str: "str", float: "float", bool: "bool", bytes: "bytes", prelude.A: "A", prelude.B: "B", prelude.C: "C"}[c]
                if r.random() < 0.5:
                    pats.append((f"{nm}()", m, "pattern:class"))
                else:
                    pats.append((f"{nm}() as {self.fresh('p')}", m, "pattern:class-as"))
        extra = r.choice([("1 | 2", None, "pattern:or"), ("str() | bytes()", None, "pattern:or-class"), ("[]", None, "pattern:empty-seq"), ("Color.RED", None, "pattern:value")])
        pats.append(extra)
        r.shuffle(pats)
        lines = [f"match {v}:"]
        for pat, m, prod in pats[:3]:
            e = dict(env)
            guard = ""
            rg = r.random()
            if rg < 0.12:
                g = self.cond(env)
                guard = f" if {g[0]}"
                self.note("pattern:guard")
            elif rg < 0.22:
                guard = " if flip()"   # a guard the checker cannot evaluate
                self.note("pattern:opaque-guard")
            self.note(prod)
            lines += [f"    case {pat}{guard}:"] + ["        " + l for l in [f"use({v})"] + self.block(e, depth + 2, in_loop, n=1)]
        if r.random() < 0.6:
            cap = self.fresh("p")
            lines += [f"    case {cap}:", f"        use({cap})", f"        use({v})"]
            self.note("pattern:capture")
        self.note("stmt:match")
        return lines + [f"use({v})"]

    def composite(self, env, depth, in_loop) -> list:
        """A local container is built, narrowed through a subscript path, partially re-assigned and read again
        (composite variables `c[0]`, `c[0][0]`, `d['a']`; the container is local, so no alias is involved)."""
        r = self.rng
        e0, e1, e2 = self.expr(env, 1), self.expr(env, 1), self.expr(env, 1)
        c = self.fresh("c")
        form = r.choice(["list", "nested", "dict", "nested-dict"])
        if form == "list":
            init, leaf, parent = f"[{e0[0]}, {e1[0]}]", f"{c}[0]", None
        elif form == "nested":
            init, leaf, parent = f"[[{e0[0]}], {e1[0]}]", f"{c}[0][0]", f"{c}[0]"
        elif form == "dict":
            init, leaf, parent = "{" + f"'a': {e0[0]}, 'b': {e1[0]}" + "}", f"{c}['a']", None
        else:
            init, leaf, parent = "{" + f"'a': {{'b': {e0[0]}}}" + "}", f"{c}['a']['b']", f"{c}['a']"
        test = r.choice([f"{leaf} is None", f"{leaf} is not None", f"isinstance({leaf}, int)", f"isinstance({leaf}, str)", f"{leaf}",
                         f"not {leaf}", f"{leaf} == 1", f"isinstance({leaf}, (int, str))"])
        self.note("stmt:composite-" + form)
        lines = [f"{c} = {init}", f"use({leaf})", f"if {test}:", f"    use({leaf})"]
        wrap = {"nested": lambda x: f"[{x}]", "nested-dict": lambda x: "{'b': " + x + "}"}
        if parent is not None and r.random() < 0.7:
            # re-assign the intermediate element: the narrowing of the leaf must not survive it
            lines += [f"    {parent} = {wrap[form](e2[0])}", f"    use({leaf})"]
            self.note("stmt:composite-reassign-parent")
        elif r.random() < 0.6:
            lines += [f"    {leaf} = {e2[0]}", f"    use({leaf})"]
            self.note("stmt:composite-reassign-leaf")
        else:
            lines += [f"    {c} = {init.replace(e0[0], e2[0], 1)}", f"    use({leaf})"]
            self.note("stmt:composite-reassign-root")
        if r.random() < 0.5:
            lines += ["else:", f"    use({leaf})"]
        lines += [f"use({leaf})"]
        env[c] = ty.ANY
        return lines

    def unpack(self, env) -> list:
        r = self.rng
        v = self.pick_var(env, lambda t: t.kind in ("Tuple", "VarTuple", "MixTuple", "List"))
        if v is None:
            return self.use(env)
        t = env[v]
        if t.kind == "MixTuple":
            # k targets before the star target and j after it, not more than the fixed members on either side
            k, j = r.randrange(0, len(t.args[0]) + 1), r.randrange(0, len(t.args[2]) + 1)
            pre, rest, suf = [self.fresh("u") for _ in range(k)], self.fresh("u"), [self.fresh("u") for _ in range(j)]
            for nm in pre + suf:
                env[nm] = tuple_elem(t)
            env[rest] = ty.List(tuple_elem(t))
            self.note("stmt:unpack-star-on-star-tuple")
            return [", ".join(pre + ["*" + rest] + suf) + ("," if not pre + suf else "") + f" = {v}"] + [f"use({nm})" for nm in pre + [rest] + suf]
        if t.kind == "Tuple" and t.args and r.random() < 0.7:
            names = [self.fresh("u") for _ in t.args]
            for nm, a in zip(names, t.args):
                env[nm] = a
            self.note("stmt:unpack-fixed")
            return [", ".join(names) + ("," if len(names) == 1 else "") + f" = {v}"] + [f"use({nm})" for nm in names]
        a, rest = self.fresh("u"), self.fresh("u")
        el = tuple_elem(t)
        env[a] = el
        env[rest] = ty.List(el)
        self.note("stmt:unpack-star")
        order = r.choice([f"{a}, *{rest}", f"*{rest}, {a}"])
        return [f"{order} = {v}", f"use({a})", f"use({rest})"]

    # ------------------------------------------------------------------ functions / modules
    def function(self, name: str, siblings: list) -> tuple:
        r = self.rng
        self.counter = 0
        nparams = r.randrange(1, 4)
        params = []
        env = {}
        for i in range(nparams):
            t = r.choice(PARAM_TYPES)
            p = f"x{i}"
            params.append((p, t))
            env[p] = t
        self.budget = r.randrange(4, self.max_stmts + 1)
        body = []
        for p, t in params:
            # every constant index of a parameter with an unbounded member is read in half of the functions that have one
            if t.kind == "MixTuple" and r.random() < 0.5 or t.kind in ("Tuple", "VarTuple") and r.random() < 0.1:
                body.extend(self.sweep(env, p))
        while self.budget > 0:
            body.extend(self.stmt(env, 0, False))
            if siblings and r.random() < 0.15:
                g, gparams = r.choice(siblings)
                args = []
                for _, gt in gparams:
                    v = self.pick_var(env, lambda t, gt=gt: t == gt)
                    args.append(v)
                if all(args):
                    w = self.fresh("r")
                    body.append(f"{w} = {g}({', '.join(args)})")
                    body.append(f"use({w})")
                    env[w] = ty.ANY
                    self.note("call:sibling")
        ret = self.pick_var(env)
        body.append(f"return {ret or 'None'}")
        style = r.randrange(2)
        sig = ", ".join(f"{p}: {ty.render(t, style)}" for p, t in params)
        src = [f"def {name}({sig}):"] + ["    " + l for l in body]
        return src, params


PRELUDE = """from vp.prelude import *
import typing
"""


def gen_module(rng, nfuncs=None, max_stmts=14) -> tuple:
    """returns (source, [(fname, params)], productions)"""
    g = Gen(rng, max_stmts=max_stmts)
    n = nfuncs or rng.randrange(1, 4)
    lines = [PRELUDE]
    funcs = []
    for i in range(n):
        src, params = g.function(f"f{i}", funcs)
        lines.extend(src)
        lines.append("")
        funcs.append((f"f{i}", params))
    return "\n".join(lines) + "\n", funcs, g.productions  # a Productions set (with .counts)
