"""C01 — inferred values are sound with respect to execution.

Monitor: generated annotated programs are checked by pyanalyze (annotate=True on the ORIGINAL tree) while the module
object is built from an instrumented copy; every function is then CALLED on inhabitants of its parameter types and
each evaluated Name/Subscript/Call/BinOp/IfExp/... value is judged online: member(value, from_value(inferred(node))).
"""
from __future__ import annotations

import ast
import itertools
import re

from vp import harness, instrument, prelude, proggen, ty, universe

ID = "C01"
LEVEL = "exploration"
RULE = (
    "case = (generated function, argument tuple drawn from inhabitants of the declared parameter types, cross product "
    "capped at 24 incl. boundary members); grammar: assignments, displays, if/elif/else over isinstance/is None/==/in/"
    "len/truthiness/and/or/not, for/while with break/continue/else, try/except/else/finally, match, unpacking incl. "
    "star targets, subscripts incl. negative/out-of-range/slices, arithmetic, calls to generic helpers/builtins/"
    "siblings, walrus, assert; parameters and displays of tuple types with an unbounded member before/between/after "
    "fixed members (tuple[int, *tuple[str, ...], float], (a, *xs, b), [a, *xs]) incl. arguments whose unbounded part is "
    "empty, subscripted at every position class (before/at/after the unbounded member, out of range, both signs) and "
    "swept over EVERY constant index from -(n+1) to n, star-unpacked, iterated and matched; narrowing conditions STORED "
    "in a variable and tested later (`ok = c ... if ok:` / `if not ok:`) with the tested variable left alone, rebound on "
    "some paths only (if-body, else-body, for-body, while-body, try-body, except-body) or on all paths; "
    "try statements with 0-2 handlers, optional else and a finally in which the handlers and the else block ASSIGN a "
    "variable and are then left by bare raise / raise of another exception / raise..from / a raising or sometimes-raising "
    "call / return / break / continue (unconditionally or under an input-dependent condition), or assign it again, or "
    "fall through; the variable is read in the finally body (directly, through a copy, around a nested "
    "try/except/else/finally inside the finally) and after the statement, the whole optionally inside an outer "
    "try/except(/finally) or its own for loop so that the reads after it run on the exceptional paths too; "
    "variables whose inferred value is a UNION OF LITERALS (Literal[...] parameters over ints, floats, strs, None; locals "
    "assigned different literals by a conditional expression / if-else / if / elif chain / for body / try body); comparison "
    "CHAINS with 2-4 operators (<, <=, >, >=, ==, !=, is, is not, trailing in / not in) whose operands mix the variable "
    "(at every position, also twice), literals (members of the union, thresholds next to a member) and expressions known "
    "only by type (other parameters, zero()+c, len(..), str(..), 'x'.lower()), None entering through identity links; each "
    "chain is placed as an if/else test, elif test, early-return guard (plain and negated), under not / not not, as left "
    "operand of and / or with the variable read on the right, inside and / or tests next to another condition, as "
    "conditional-expression test, while / while-not test with the variable rebound in the body and read in the loop's "
    "else, assert / assert not, stored in a variable and tested later, bound by a walrus, as match-case guard and as "
    "comprehension filter, and is also one of the forms every generated condition can take; the variable is read where "
    "the chain is known true and where it is known false; while loops that run as long as a variable initialised with "
    "a literal (tuple, list, str, int) is truthy and shrink it in the body. "
    "Non-trivial = at least one evaluated node with an informative inferred type (not "
    "Any/object/opaque) received a decided membership verdict; distinct by (function source, repr of arguments)."
)
ASSUMPTIONS = [
    "CPython executes the program; vp.ty.member judges membership; UNKNOWN verdicts are counted, never violations",
    "functions in which pyanalyze itself reports a type error are excused (soundness is claimed for accepted code)",
    "programs do not mutate containers, do not recurse, loops are bounded",
]
FLOORS = {
    "quick": {"distinct_nontrivial": 10000, "functions_called": 800, "rec_evaluations": 200000, "decided_memberships": 200000, "witnesses_minimised": 1,
              "star_tuple_const_subscript_evaluations": 10000, "stored_condition_branch_evaluations": 7500,
              "chained_comparison_governed_reads": 6000, "finally_reads_of_handler_or_else_assigned_variable": 3000},
    "thorough": {"distinct_nontrivial": 40000, "functions_called": 8000, "rec_evaluations": 1000000,
                 "star_tuple_const_subscript_evaluations": 80000, "stored_condition_branch_evaluations": 60000,
                 "chained_comparison_governed_reads": 100000, "finally_reads_of_handler_or_else_assigned_variable": 50000},
}
EXCUSING_CODES = {
    "incompatible_argument", "incompatible_call", "incompatible_assignment", "incompatible_return_value", "unsupported_operation",
    "undefined_name", "possibly_undefined_name", "undefined_attribute", "not_callable", "bad_unpack", "bad_match",
    "internal_error", "incompatible_default", "bad_format_string", "inconsistent_type", "invalid_annotation", "no_return_may_return",
    "bad_exception", "bad_evaluator", "missing_return", "duplicate_dict_key", "unhashable_key", "incompatible_yield",
}
MAX_ARG_TUPLES = 24
STEP_LIMIT = 20000


class StepLimit(BaseException):
    """Raised by the recorder when one call evaluates too many nodes (cannot be swallowed by `except Exception`)."""


def rt_desc(v) -> str:
    return type(v).__name__


def ty_desc(t: ty.Ty) -> str:
    if t.kind == "Cls":
        return f"Cls:{t.extra.__name__}"
    if t.kind == "Lit":
        return f"Lit:{type(t.extra.v).__name__}"
    if t.kind == "Union":
        return "Union(" + ",".join(sorted({ty_desc(a) for a in t.args}))[:60] + ")"
    if t.kind in ("List", "Set", "VarTuple", "Seq", "Iter"):
        return f"{t.kind}[{ty_desc(t.args[0])}]"
    return t.kind


def func_ranges(tree: ast.Module) -> list:
    return [(n.name, n.lineno, n.end_lineno) for n in tree.body if isinstance(n, ast.FunctionDef)]


C01_OVERRIDES = {"unused_variable": False, "unused_assignment": False, "value_always_true": False}


def check_module(ctx, source: str, funcs, only_func=None, only_args=None, kwargs=None) -> None:
    """kwargs=None: a fresh Checker for this module, so that what is inferred does not depend on which modules the
    worker checked before (history effects are C10's business and would make witnesses unreplayable)."""
    try:
        ins = instrument.Instrumented(source)
    except Exception as e:  # noqa: BLE001
        ctx.count("modules_not_importable")
        return
    try:
        if kwargs is None:
            kwargs = harness.constructor_kwargs("tests", C01_OVERRIDES, fresh=True)
        res = harness.run(source, tree=ins.tree, module=ins.module, annotate=True, kwargs=kwargs)
        if res.exception is not None:
            ctx.count("checker_raised")  # C12's business
            return
        ins.bind_inferred()
        parents = instrument.parent_map(ins.tree)
        ranges = func_ranges(ins.tree)
        excused_funcs = set()
        for d in res.diags:
            if d.code in EXCUSING_CODES and d.lineno is not None:
                for name, lo, hi in ranges:
                    if lo <= d.lineno <= hi:
                        excused_funcs.add(name)
        ctx.count("modules_checked")
        state = {"decided": 0, "informative": 0, "bad": [], "steps": 0}
        reach = workload_reach(ins)

        def on_value(k, value):
            state["steps"] += 1
            if state["steps"] > STEP_LIMIT:
                raise StepLimit()
            entry = ins.table[k]
            if entry is None:
                return
            t, v = entry
            if k in reach:
                ctx.count(reach[k])
            m = ty.member(value, t)
            ctx.count("rec_evaluations")
            if m is None:
                ctx.count("membership_unknown")
                return
            state["decided"] += 1
            if ty.is_informative(t):
                state["informative"] += 1
            if m is False:
                state["bad"].append((k, value, t, v))

        ins.on_value = on_value
        for name, params in funcs:
            if only_func is not None and name != only_func:
                continue
            if name in excused_funcs:
                ctx.count("functions_excused")
                continue
            f = getattr(ins.module, name, None)
            if f is None:
                continue
            ctx.count("functions_called")
            if only_args is not None:
                ns = dict(ty.eval_ns())
                arg_tuples = [tuple(universe.Item(s, eval(s, ns)) for s in only_args)]
            else:
                cols = [universe.inhabitants(t, ctx.rng, 8) for _, t in params]
                if not all(cols):
                    continue
                arg_tuples = list(itertools.islice(itertools.product(*cols), 400))
                if len(arg_tuples) > MAX_ARG_TUPLES:
                    head = [tuple(c[0] for c in cols), tuple(c[-1] for c in cols)]
                    arg_tuples = head + ctx.rng.sample(arg_tuples, MAX_ARG_TUPLES - 2)
            fsrc = None
            for args in arg_tuples:
                state["decided"] = state["informative"] = state["steps"] = 0
                state["bad"] = []
                ctx.count("evaluations")
                prelude._flip[0] = False  # helpers with state start every call from the same state (replayable)
                try:
                    f(*[a.obj for a in args])
                    ctx.count("runs_completed")
                except StepLimit:
                    ctx.count("runs_step_limited")
                except Exception as e:  # noqa: BLE001
                    ctx.count("runs_raised")
                    ctx.histo("runtime_exceptions", type(e).__name__)
                ctx.count("decided_memberships", state["decided"])
                if state["informative"]:
                    if fsrc is None:
                        fsrc = function_source(source, name)
                    ctx.nontrivial((fsrc, [a.src for a in args]))
                # up to 3 DIFFERENT nodes per call (a node evaluated again in a loop counts once, so that the violations
                # inside a loop do not hide the ones after it)
                seen_nodes, bad = set(), []
                for b in state["bad"]:
                    if b[0] not in seen_nodes:
                        seen_nodes.add(b[0])
                        bad.append(b)
                for k, value, t, v in bad[:3]:
                    node = ins.nodes[k]
                    varname = node.id if isinstance(node, ast.Name) else None
                    where = instrument.context_of(node, parents, varname)
                    after = instrument.after_construct(node, parents)
                    if where == "plain" and after:
                        where = after
                    key = f"{type(node).__name__}|{where}|{type(v).__name__}|{rt_desc(value)} not in {ty_desc(t)}"
                    if fsrc is None:
                        fsrc = function_source(source, name)
                    what = (f"in {name}({', '.join(a.src for a in args)}): `{ast.unparse(node)}` at line {node.lineno} evaluated to "
                            f"{value!r} but pyanalyze inferred {v}")
                    try:
                        vsrc = ty.lit_source(value) if isinstance(value, (bool, int, float, str, bytes, type(None))) or hasattr(value, "_name_") else None
                    except Exception:  # noqa: BLE001
                        vsrc = None
                    ctx.violation(key, what, {"source": source, "func": name, "params": [[p, ty.render(t_)] for p, t_ in params],
                                              "args": [a.src for a in args], "value": vsrc, "node": ast.unparse(node), "where": where,
                                              "lineno": node.lineno, "equal_literal": equals_an_inferred_literal(value, v)})
        for k, entry in enumerate(ins.table):
            if entry is not None and ins.nodes[k] is not None:
                ctx.histo("node_x_valueclass", f"{type(ins.nodes[k]).__name__}:{type(entry[1]).__name__}")
        if len(ctx.samples) < 2 and funcs:
            ctx.sample({"function": function_source(source, funcs[0][0])[:1500]})
    finally:
        ins.dispose()


def _has_unbounded_member(t: ty.Ty) -> bool:
    return t.kind == "MixTuple" or (t.kind == "SeqPat" and any(many for many, _ in t.args[0]))


def workload_reach(ins) -> dict:
    """k -> counter name, for the evaluated nodes that show a run reached the input classes named in RULE:
    constant subscripts of a value inferred as a sequence with an unbounded member, and reads in the branches of an
    `if` that tests a stored condition (a bare name, possibly negated)."""
    by_key = {key: k for k, key in enumerate(ins.keys)}
    out = {}
    for node in ast.walk(ins.tree):
        if isinstance(node, ast.Subscript) and isinstance(node.ctx, ast.Load):
            sl = node.slice
            const = isinstance(sl, ast.Constant) or (isinstance(sl, ast.UnaryOp) and isinstance(sl.operand, ast.Constant))
            base = getattr(node.value, "inferred_value", None)
            if const and base is not None:
                try:
                    bt = ty.from_value(base)
                except Exception:  # noqa: BLE001
                    continue
                k = by_key.get(instrument.node_key(node))
                if k is not None and any(_has_unbounded_member(m) for m in (bt.args if bt.kind == "Union" else (bt,))):
                    out[k] = "star_tuple_const_subscript_evaluations"
        elif isinstance(node, ast.If):
            test = node.test.operand if isinstance(node.test, ast.UnaryOp) and isinstance(node.test.op, ast.Not) else node.test
            if isinstance(test, ast.Name) and test.id.startswith("ok"):
                for st in node.body + node.orelse:
                    for sub in ast.walk(st):
                        if isinstance(sub, ast.Name) and isinstance(sub.ctx, ast.Load):
                            k = by_key.get(instrument.node_key(sub))
                            if k is not None:
                                out.setdefault(k, "stored_condition_branch_evaluations")
    # reads, in a finally body, of a variable that an except handler or the else block of the same try assigns
    for node in ast.walk(ins.tree):
        if isinstance(node, ast.Try) and node.finalbody and (node.handlers or node.orelse):
            assigned = {sub.id for blk in [h.body for h in node.handlers] + [node.orelse] for st in blk for sub in ast.walk(st)
                        if isinstance(sub, ast.Name) and isinstance(sub.ctx, ast.Store)}
            for st in node.finalbody:
                for sub in ast.walk(st):
                    if isinstance(sub, ast.Name) and isinstance(sub.ctx, ast.Load) and sub.id in assigned:
                        k = by_key.get(instrument.node_key(sub))
                        if k is not None:
                            out.setdefault(k, "finally_reads_of_handler_or_else_assigned_variable")
    # reads of an operand of a comparison CHAIN (two or more operators), in the statement the chain governs or in the
    # statements that follow it in the same block (after an early return, after the loop, after an assert)
    parents = instrument.parent_map(ins.tree)
    for node in ast.walk(ins.tree):
        if isinstance(node, ast.Compare) and len(node.ops) > 1:
            names = {o.id for o in [node.left, *node.comparators] if isinstance(o, ast.Name)}
            if not names:
                continue
            inside = {id(n) for n in ast.walk(node)}
            cur = node
            while cur in parents and not isinstance(cur, ast.stmt):
                cur = parents[cur][0]
            if cur not in parents:
                continue
            owner, field = parents[cur]
            block = getattr(owner, field, None)
            region = block[block.index(cur):] if isinstance(block, list) and cur in block else [cur]
            for st in region:
                for sub in ast.walk(st):
                    if isinstance(sub, ast.Name) and isinstance(sub.ctx, ast.Load) and sub.id in names and id(sub) not in inside:
                        k = by_key.get(instrument.node_key(sub))
                        if k is not None:
                            out.setdefault(k, "chained_comparison_governed_reads")
    return out


def equals_an_inferred_literal(value, v) -> bool:
    """The runtime value is a container that compares equal (==, same outer type) to a literal member of the inferred
    value although the membership oracle tells them apart: nested elements differ in type ([Num.ONE] == [1],
    {'a': True} == {'a': 1}).  KnownValue.__eq__ compares unhashable / container literals with ==, so unite_values
    keeps only one of two such literals."""
    if not isinstance(value, (list, tuple, dict, set, frozenset)):
        return False
    try:
        from pyanalyze.value import KnownValue, SequenceValue, flatten_values

        for m in flatten_values(v, unwrap_annotated=True):
            if isinstance(m, KnownValue) and type(m.val) is type(value) and m.val == value:
                return True
            # the merged literal may sit inside a display: [[Num.ONE], y] inferred <list containing [Literal[[1]], ...]>
            if isinstance(m, SequenceValue) and m.typ is type(value) and isinstance(value, (list, tuple)) \
                    and not any(many for many, _ in m.members) and len(m.members) == len(value):
                merged = 0
                for e, (_, mv) in zip(value, m.members):
                    if ty.member(e, ty.from_value(mv)) is True:
                        continue
                    if equals_an_inferred_literal(e, mv):
                        merged += 1
                    else:
                        break
                else:
                    if merged:
                        return True
    except Exception:  # noqa: BLE001
        pass
    return False


def holder_of(source: str, lineno, default: str) -> str:
    """Name of the top-level function whose body contains line `lineno` (the violating node may lie in a callee)."""
    if not lineno:
        return default
    try:
        for n in ast.parse(source).body:
            if isinstance(n, ast.FunctionDef) and n.lineno <= lineno <= (n.end_lineno or n.lineno):
                return n.name
    except SyntaxError:
        pass
    return default


def function_source(source: str, name: str) -> str:
    tree = ast.parse(source)
    for n in tree.body:
        if isinstance(n, ast.FunctionDef) and n.name == name:
            return ast.get_source_segment(source, n) or name
    return name


def shard(ctx) -> None:
    from vp.core import Ctx

    n = ctx.pick(60, 1000)
    prods = set()
    prod_counts: dict = {}
    raw = Ctx(ID, ctx.tier, ctx.seed, ctx.shard, ctx.nshards)  # collects un-minimised violations
    raw.rng = ctx.rng
    for i in range(n):
        source, funcs, p = proggen.gen_module(ctx.rng)
        prods |= p
        for name_, n_ in getattr(p, "counts", {}).items():
            prod_counts[name_] = prod_counts.get(name_, 0) + n_
        check_module(raw, source, funcs)
    # everything the raw recorder observed is evidence of this run
    for k, v in raw.counters.items():
        ctx.count(k, v)
    for name, h in raw.histos.items():
        for k, v in h.items():
            ctx.histo(name, k, v)
    ctx.distinct |= raw.distinct
    ctx.samples.extend(raw.samples)
    for p in prods:
        ctx.histo("grammar_productions", p)
    for p, n_ in prod_counts.items():
        ctx.histo("grammar_production_uses", p, n_)
    # minimise one witness per raw key, then key the violation by the features the minimal program still needs
    done = {}
    budget = ctx.pick(120, 400)
    for rawkey, lst in sorted(raw.violations.items()):
        w = lst[0]["witness"]
        if budget <= 0:
            ctx.count("witnesses_not_minimised", raw.violation_counts[rawkey])
            ctx.violation("unminimised|" + rawkey, lst[0]["what"], w)
            continue
        budget -= 1
        report(ctx, w, rawkey, raw.violation_counts[rawkey])


def _falsy_member_of_always_true_type(params, args) -> bool:
    """Some argument is falsy although a member of its declared type is nominally 'always true'
    (a class or protocol that itself defines neither __bool__ nor __len__)."""
    ns = dict(ty.eval_ns())
    for (_, t), src in zip(params, args):
        try:
            o = eval(src, ns)
        except Exception:  # noqa: BLE001
            continue
        try:
            if bool(o):
                continue
        except Exception:  # noqa: BLE001
            continue
        for m in (t.args if t.kind == "Union" else (t,)):
            if m.kind == "Iter" and ty.member(o, m) is True:
                return True
            if m.kind in ("Cls", "Object") and ty.member(o, m) is True:
                c = m.extra if m.kind == "Cls" else object
                if "__bool__" not in dir(c) and "__len__" not in dir(c) and c is not type(o):
                    return True
    return False


def _tests_truthiness_of_a_variable(minsrc: str, fname: str) -> bool:
    """The minimal program uses a bare name / subscript / attribute path as a truth value somewhere that `features`
    does not describe: a while test, the operand of `not`, a non-final operand of and/or - also when the result is
    only stored (`ok = not x`, `ok = x or y`)."""
    tree = ast.parse(minsrc)
    fn = next(n for n in tree.body if isinstance(n, ast.FunctionDef) and n.name == fname)

    def plain(e) -> bool:
        while isinstance(e, ast.UnaryOp) and isinstance(e.op, ast.Not):
            e = e.operand
        return isinstance(e, (ast.Name, ast.Subscript, ast.Attribute))

    for node in ast.walk(fn):
        if isinstance(node, ast.UnaryOp) and isinstance(node.op, ast.Not) and plain(node.operand):
            return True
        if isinstance(node, ast.BoolOp) and any(plain(v) for v in node.values[:-1]):
            return True
        if isinstance(node, (ast.While, ast.If, ast.IfExp, ast.Assert)) and plain(node.test):
            return True
        if isinstance(node, ast.comprehension) and any(plain(i) for i in node.ifs):
            return True
    return False


def _cross_type_equal(minsrc: str, fname: str, args) -> bool:
    """An argument equals a literal tested with ==/!=/in/not in/match-value although its type differs
    (True == 1, Num.ONE == 1, 0 == False, 1.0 == 1)."""
    ns = dict(ty.eval_ns())
    tree = ast.parse(minsrc)
    fn = next(n for n in tree.body if isinstance(n, ast.FunctionDef) and n.name == fname)
    lits = []
    for node in ast.walk(fn):
        cands = []
        if isinstance(node, ast.Compare) and any(isinstance(op, (ast.Eq, ast.NotEq, ast.In, ast.NotIn)) for op in node.ops):
            for c in node.comparators:
                cands += list(c.elts) if isinstance(c, ast.Tuple) else [c]
        elif isinstance(node, ast.MatchValue):
            cands.append(node.value)
        for c in cands:
            try:
                lits.append(eval(compile(ast.Expression(c), "<lit>", "eval"), ns))
            except Exception:  # noqa: BLE001
                pass
    objs = []

    def flat(o, depth=0):
        # the tested value may be an element of a container argument (`for e in x: if e == 1`)
        objs.append(o)
        if depth < 3 and isinstance(o, (tuple, list, set, frozenset, dict)):
            for e in (list(o.values()) + list(o) if isinstance(o, dict) else o):
                flat(e, depth + 1)

    for src in args:
        try:
            flat(eval(src, ns))
        except Exception:  # noqa: BLE001
            pass
    for o in objs:
        for l in lits:
            try:
                if o == l and type(o) is not type(l):
                    return True
            except Exception:  # noqa: BLE001
                pass
    return False


def _runtime_cross_type_equal(minsrc: str, fname: str, entry: str, args) -> bool:
    """Executes the minimal program (instrumented, no checker) and looks at the operands every ==/!=/in/not in/match-value
    test actually saw: True when some operand equals a tested literal of ANOTHER type (False == 0, Num.TWO == 2,
    1.0 == 1) - also when the operand is a local value (`ok = isinstance(..)`; `for e in x`) and not an argument."""
    try:
        ins = instrument.Instrumented(minsrc)
    except Exception:  # noqa: BLE001
        return False
    try:
        seen: dict = {}
        steps = [0]

        def on_value(k, value):
            steps[0] += 1
            if steps[0] > STEP_LIMIT:  # a minimised program may have lost its loop-counter update
                raise StepLimit()
            lst = seen.setdefault(ins.keys[k], [])
            if len(lst) < 20:
                lst.append(value)

        ins.on_value = on_value
        ns = dict(ty.eval_ns())
        f = getattr(ins.module, entry, None)
        if f is None:
            return False
        prelude._flip[0] = False
        try:
            f(*[eval(a, ns) for a in args])
        except BaseException:  # noqa: BLE001
            pass

        def values_of(node):
            if isinstance(node, ast.Constant):
                return [node.value]
            try:
                return [eval(compile(ast.Expression(node), "<lit>", "eval"), ns)] if not any(isinstance(n, ast.Name) and n.id not in ns for n in ast.walk(node)) else seen.get(instrument.node_key(node), [])
            except Exception:  # noqa: BLE001
                return seen.get(instrument.node_key(node), [])

        def clash(objs, lits) -> bool:
            for o in objs:
                for l in lits:
                    try:
                        if o == l and type(o) is not type(l):
                            return True
                    except Exception:  # noqa: BLE001
                        pass
            return False

        for node in ast.walk(ins.tree):
            if isinstance(node, ast.Compare):
                operands = [node.left] + list(node.comparators)
                for op, a, b in zip(node.ops, operands, operands[1:]):
                    va, vb = values_of(a), values_of(b)
                    if isinstance(op, (ast.Eq, ast.NotEq)):
                        if clash(va, vb):
                            return True
                    elif isinstance(op, (ast.In, ast.NotIn)):
                        elems = []
                        for c in vb:
                            try:
                                elems += list(c)
                            except Exception:  # noqa: BLE001
                                pass
                        if clash(va, elems):
                            return True
            elif isinstance(node, ast.Match):
                subj = values_of(node.subject)
                lits = []
                for sub in ast.walk(node):
                    if isinstance(sub, ast.MatchValue):
                        lits += values_of(sub.value)
                if clash(subj, lits):
                    return True
        return False
    finally:
        ins.dispose()


def mechanism_key(minkey: str, minsrc: str, fname: str, params=None, args=None, node_src=None, lineno=None, entry=None,
                  equal_literal=False) -> str:
    if equal_literal:
        return "literal-merge|container-literal-equal-to-one-with-elements-of-another-type-is-merged-with-it"
    if params is not None and args is not None:
        args = list(args)[:len(params)]  # (the caller appends the violating value as a further candidate)
    parts = minkey.split("|")
    node, mismatch = parts[0], parts[-1]
    if mismatch.endswith("not in Never"):
        mismatch = mismatch.split(" not in ")[0] + " reached Never"
    feats = features(minsrc, fname)
    # a bare name, or a subscript/attribute path (`if c[0]:`), used as a condition is a truthiness test
    truthy_feats = ("truthy" in feats) or node in ("UnaryOp", "BoolOp") or bool(
        re.search(r"(?:if|ifexp|assert|guard)\[[^\]]*\b(?:Subscript|Attribute)\b", feats)) or _tests_truthiness_of_a_variable(minsrc, fname)
    if params is not None and truthy_feats and _falsy_member_of_always_true_type(params, args):
        return "truthiness|falsy-member-of-type-assumed-always-true"
    if args is not None and (_cross_type_equal(minsrc, fname, args) or _runtime_cross_type_equal(minsrc, fname, entry or fname, args)):
        return "equality-narrowing|argument-equals-literal-of-other-type"
    if _stored_condition_readded(minsrc, fname, node_src, lineno):
        return STORED_CONDITION_KEY
    if "Refine" in mismatch and _unmirrored_bound(minsrc, fname, node_src, lineno):
        return UNMIRRORED_BOUND_KEY
    if params is not None and args is not None and _after_loop_believed_endless(minsrc, fname, entry or fname, params, args, minkey, lineno):
        return ENDLESS_LOOP_KEY
    if mismatch.endswith("reached Never") and params is not None and args is not None and _instance_of_two_unrelated_classes(minsrc, fname, params, args):
        return "intersection|instance-of-two-unrelated-classes-is-narrowed-away"
    if node_src and lineno and _composite_read_after_branch_that_assigned_it(minsrc, fname, node_src, lineno):
        return "composite|x[const]-after-a-branch-that-assigned-it-forgets-the-path-that-did-not"
    if node in ("Name", "Subscript") and node_src and _item_assigned(minsrc, fname, node_src):
        return "mutation|container-variable-keeps-its-value-from-before-an-item-assignment"
    if node in ("IfExp", "BoolOp", "NamedExpr") and node_src and any(_item_assigned(minsrc, fname, ast.unparse(o)) for o in _result_operands(ast.parse(node_src, mode="eval").body)):
        # the same stale container, read as the value of a conditional expression / and-or / walrus
        return "mutation|container-variable-keeps-its-value-from-before-an-item-assignment"
    if node_src and params is not None and args is not None and _flows_from_item_assigned_container(minsrc, fname, entry or fname, params, args, minkey, node_src, lineno):
        # the stale container again, read through a copy / a display that holds it / a call it is passed to
        return "mutation|container-variable-keeps-its-value-from-before-an-item-assignment"
    if node_src and _stale_composite_in_loop(minsrc, fname, node_src):
        return "loop|value-of-x[const]-kept-from-first-pass-although-x-is-reassigned-in-the-loop"
    if node_src and any(_loop_carried(minsrc, fname, n.id) for n in ast.walk(ast.parse(node_src, mode="eval")) if isinstance(n, ast.Name)):
        return "loop|value-carried-around-the-loop-is-analysed-with-two-passes-only"
    return f"{node}|{mismatch}|needs:{feats}"


def _instance_of_two_unrelated_classes(minsrc: str, fname: str, params, args) -> bool:
    """Some argument (or an element of one) is an instance of a class D of its declared type and of a class T the
    minimal program tests for (isinstance / class pattern), D and T unrelated (neither a subclass of the other): only a
    subclass of both - an intersection pyanalyze cannot express - contains it (the mechanism C02 lists under this key)."""
    from vp.props.c02 import _classes_of

    ns = dict(ty.eval_ns())
    tree = ast.parse(minsrc)
    tested = []
    for node in ast.walk(tree):
        cands = []
        if isinstance(node, ast.Call) and isinstance(node.func, ast.Name) and node.func.id in ("isinstance", "issubclass") and len(node.args) == 2:
            cands = list(node.args[1].elts) if isinstance(node.args[1], ast.Tuple) else [node.args[1]]
        elif isinstance(node, ast.MatchClass):
            cands = [node.cls]
        for c in cands:
            try:
                k = eval(compile(ast.Expression(c), "<cls>", "eval"), ns)
            except Exception:  # noqa: BLE001
                continue
            if isinstance(k, type):
                tested.append(k)
    declared = [d for _, t in params for d in _classes_of(t)]
    objs = []

    def flat(o, depth=0):
        objs.append(o)
        if depth < 3 and isinstance(o, (tuple, list, set, frozenset, dict)):
            for e in (list(o.values()) + list(o) if isinstance(o, dict) else o):
                flat(e, depth + 1)

    for src in args:
        try:
            flat(eval(src, ns))
        except Exception:  # noqa: BLE001
            pass
    for o in objs:
        for d in declared + tested:
            for t in tested:
                if d is object or t is object or issubclass(d, t) or issubclass(t, d):
                    continue
                if isinstance(o, d) and isinstance(o, t):
                    return True
    return False


ENDLESS_LOOP_KEY = "loop|code-after-a-while-without-break-whose-test-is-a-variable-holding-a-truthy-literal-is-taken-as-unreachable"


def _after_loop_believed_endless(minsrc: str, fname: str, entry: str, params, args, minkey: str, lineno) -> bool:
    """Observes pyanalyze on the minimal program (a recording wrapper around NameCheckVisitor._set_name_in_scope). True
    when the violating node lies AFTER a `while` loop that has no break and whose test is not a constant, and pyanalyze
    marks the code after THAT loop as unreachable (it sets the LEAVES_SCOPE marker with the While node): it saw a truthy
    literal in the test on its first visit and took the loop for endless although the body changes the tested
    variable, so that path is dropped at the next merge - and the violation disappears when the checker can no longer
    take that test for always true."""
    if not lineno:
        return False
    try:
        from pyanalyze.name_check_visitor import NameCheckVisitor
        from pyanalyze.stacked_scopes import LEAVES_SCOPE

        tree = ast.parse(minsrc)
        fn = next(n for n in tree.body if isinstance(n, ast.FunctionDef) and n.name == fname)
        loops = [n for n in ast.walk(fn) if isinstance(n, ast.While) and not isinstance(n.test, ast.Constant)
                 and (n.end_lineno or n.lineno) < lineno]
        loops = [n for n in loops if not any(isinstance(sub, ast.Break) for st in n.body for sub in ast.walk(st))]
        if not loops:
            return False
        marked = []
        orig = NameCheckVisitor._set_name_in_scope

        def spy(self, varname, node, *a, **k):
            if varname == LEAVES_SCOPE and isinstance(node, ast.While):
                marked.append(node.lineno)
            return orig(self, varname, node, *a, **k)

        NameCheckVisitor._set_name_in_scope = spy
        try:
            res = harness.run(minsrc, tree=tree, annotate=True, kwargs=harness.constructor_kwargs("tests", C01_OVERRIDES, fresh=True))
        finally:
            NameCheckVisitor._set_name_in_scope = orig
        hit = [n for n in loops if n.lineno in marked]
        if res.exception is not None or not hit:
            return False
        # ... and that is what the violation needs: with the test `T` of those loops rewritten as `opt(T)` (same truth
        # value at run time, but not a value the checker can take as always true) the violation is gone
        for n in hit:
            n.test = ast.Call(func=ast.Name(id="opt", ctx=ast.Load()), args=[n.test], keywords=[])
        ast.fix_missing_locations(tree)
        cand = ast.unparse(tree)
        sig = _signature_of(minkey)
        return all(still_violates(cand, entry, params, args, sig) is None for _ in range(2))
    except Exception:  # noqa: BLE001
        return False


UNMIRRORED_BOUND_KEY = "comparison-bound|literal-on-the-left-of-an-ordering-comparison-attaches-the-bound-of-the-unmirrored-operator"


def _unmirrored_bound(minsrc: str, fname: str, node_src, lineno) -> bool:
    """Observes pyanalyze on the minimal program. True when the value inferred for the violating node carries a bound
    Lt/Le/Gt/Ge(c) and the program has an ordering link `c OP <that expression>` with the literal on the LEFT whose
    operator, read left to right, is the bound's (`2 < x` gives x the bound Lt(2) although it says x > 2)."""
    if not node_src or not lineno:
        return False
    try:
        from pyanalyze.extensions import CustomCheck  # noqa: F401
        from pyanalyze.value import AnnotatedValue, CustomCheckExtension, MultiValuedValue

        tree = ast.parse(minsrc)
        res = harness.run(minsrc, tree=tree, annotate=True, kwargs=harness.constructor_kwargs("tests", C01_OVERRIDES, fresh=True))
        if res.exception is not None:
            return False
        fn = next(n for n in tree.body if isinstance(n, ast.FunctionDef) and n.name == fname)
        bounds = set()

        def collect(v):
            if isinstance(v, MultiValuedValue):
                for m in v.vals:
                    collect(m)
            elif isinstance(v, AnnotatedValue):
                for md in v.metadata:
                    if isinstance(md, CustomCheckExtension) and hasattr(md.custom_check, "value"):
                        bounds.add((type(md.custom_check).__name__, repr(md.custom_check.value)))
                collect(v.value)

        for node in ast.walk(fn):
            if isinstance(node, ast.expr) and getattr(node, "lineno", None) == lineno and ast.unparse(node) == node_src:
                collect(getattr(node, "inferred_value", None))
        if not bounds:
            return False
        read = {n.id for n in ast.walk(ast.parse(node_src, mode="eval")) if isinstance(n, ast.Name)}
        as_written = {ast.Lt: "Lt", ast.LtE: "Le", ast.Gt: "Gt", ast.GtE: "Ge"}
        ns = dict(ty.eval_ns())
        for node in ast.walk(fn):
            if not isinstance(node, ast.Compare):
                continue
            operands = [node.left, *node.comparators]
            for op, a, b in zip(node.ops, operands, operands[1:]):
                if type(op) not in as_written or not (ast.unparse(b) == node_src or isinstance(b, ast.Name) and b.id in read):
                    continue
                try:
                    lit = eval(compile(ast.Expression(a), "<lit>", "eval"), {"__builtins__": {}, **{k: v for k, v in ns.items() if k in ("Color", "Num")}})
                except Exception:  # noqa: BLE001
                    continue
                if (as_written[type(op)], repr(lit)) in bounds:
                    return True
    except Exception:  # noqa: BLE001
        pass
    return False


STORED_CONDITION_KEY = "stored-condition|constraint-added-again-at-the-same-node-replaces-the-definitions-it-restricts-and-narrows-to-Never"


def _stored_condition_readded(minsrc: str, fname: str, node_src, lineno) -> bool:
    """Observes pyanalyze on the minimal program. True when the violating node reads a variable restricted by a STORED
    condition (an if/while/conditional-expression/assert test that is a bare name, possibly negated, whose inferred
    value carries a narrowing constraint), at or after that test, and the constraint is added more than once at that
    test node:
      (A) the stored condition's value is a union with the constraint attached to each member (`ok = x != 0` with
          x: int | None is `bool | Any`): the same constraint is applied twice in one visit; or
      (B) the test lies in the body of a loop and the condition was stored outside it: the body is visited again with
          only the definitions from the end of the previous pass.
    Either way the fake definition node of the constraint ends up restricting (only) itself."""
    from vp.props.c02 import condition_carried_by_each_union_member

    if not node_src or not lineno:
        return False
    try:
        from pyanalyze.stacked_scopes import NULL_CONSTRAINT, extract_constraints

        read = {n.id for n in ast.walk(ast.parse(node_src, mode="eval")) if isinstance(n, ast.Name)}
        tree = ast.parse(minsrc)
        res = harness.run(minsrc, tree=tree, annotate=True, kwargs=harness.constructor_kwargs("tests", C01_OVERRIDES, fresh=True))
        if res.exception is not None:
            return False
        fn = next(n for n in tree.body if isinstance(n, ast.FunctionDef) and n.name == fname)
        parents = instrument.parent_map(fn)
        for node in ast.walk(fn):
            if not isinstance(node, (ast.If, ast.While, ast.IfExp, ast.Assert)):
                continue
            test = node.test
            while isinstance(test, ast.UnaryOp) and isinstance(test.op, ast.Not):
                test = test.operand
            okval = getattr(test, "inferred_value", None)
            if not isinstance(test, ast.Name) or okval is None or test.lineno > lineno:
                continue
            cons = extract_constraints(okval)
            if cons is NULL_CONSTRAINT:
                continue
            restricted = set()
            for c in [*cons.apply(), *cons.invert().apply()]:
                vn = c.varname.get_varname() if c.varname is not None else None
                restricted.add(str(getattr(vn, "varname", vn)).split(".")[0].split("[")[0])
            restricted.discard(test.id)
            if not (restricted & read):
                continue
            if condition_carried_by_each_union_member(okval):
                return True
            cur = node
            while cur in parents:
                cur = parents[cur][0]
                if isinstance(cur, (ast.For, ast.While)) and cur is not node:
                    stored_inside = any(isinstance(n, ast.Name) and n.id == test.id and isinstance(n.ctx, ast.Store) for n in ast.walk(cur))
                    if not stored_inside:
                        return True
    except Exception:  # noqa: BLE001
        pass
    return False


def _composite_root(expr):
    """x[0]['a'].b -> 'x' when every step is a constant subscript or an attribute, else None."""
    steps = 0
    while isinstance(expr, (ast.Subscript, ast.Attribute)):
        if isinstance(expr, ast.Subscript):
            sl = expr.slice
            if not (isinstance(sl, ast.Constant) or (isinstance(sl, ast.UnaryOp) and isinstance(sl.operand, ast.Constant))):
                return None
        expr = expr.value
        steps += 1
    return expr.id if isinstance(expr, ast.Name) and steps else None


def _composite_read_after_branch_that_assigned_it(minsrc: str, fname: str, node_src: str, lineno: int) -> bool:
    """The violating node reads a composite `x[const]...` AFTER a compound statement in which x (or a part of x) is
    assigned on some path only: at the merge pyanalyze keeps the composite's value from the assigning path and drops
    the path on which it was left alone.
    When the violating node is a bare NAME, the value it holds may have come from such a read: the right-hand sides of
    the assignments to that name that precede the node (`x = x[-2]`, `v = c[0][0]`, `(w := c['a'])`) are examined the
    same way, each at its own line."""
    expr = ast.parse(node_src, mode="eval").body
    tree = ast.parse(minsrc)
    fn = next(n for n in tree.body if isinstance(n, ast.FunctionDef) and n.name == fname)
    if isinstance(expr, ast.Name):
        for st in ast.walk(fn):
            value = None
            if isinstance(st, ast.Assign) and any(isinstance(t, ast.Name) and t.id == expr.id for t in st.targets):
                value = st.value
            elif isinstance(st, (ast.AnnAssign, ast.NamedExpr)) and isinstance(st.target, ast.Name) and st.target.id == expr.id:
                value = st.value
            if value is not None and st.lineno <= lineno and not isinstance(value, ast.Name) \
                    and _composite_read_after_branch_that_assigned_it(minsrc, fname, ast.unparse(value), st.lineno):
                return True
        return False
    roots = {r for r in (_composite_root(n) for n in ast.walk(expr)) if r}
    if not roots:
        return False
    for st in ast.walk(fn):
        if not isinstance(st, (ast.If, ast.For, ast.While, ast.Try, ast.Match, ast.With)):
            continue
        if not (st.end_lineno < lineno):
            continue
        for sub in ast.walk(st):
            if isinstance(sub, (ast.Name, ast.Subscript, ast.Attribute)) and isinstance(getattr(sub, "ctx", None), ast.Store):
                base = sub
                while isinstance(base, (ast.Subscript, ast.Attribute)):
                    base = base.value
                if isinstance(base, ast.Name) and base.id in roots:
                    return True
    # `c8['a']['b']` where c8 = {'a': {'b': x0[1]}} was built AFTER the compound statement: the part read out of c8
    # holds what the read of x0[1] produced, so each root is followed through its own EARLIER assignments like a bare
    # name (strictly earlier lines, so that `c = c[0]` cannot send the search round in a circle)
    return any(_composite_read_after_branch_that_assigned_it(minsrc, fname, r, lineno - 1) for r in sorted(roots))


def _flows_from_item_assigned_container(minsrc: str, fname: str, entry: str, params, args, minkey: str, node_src: str, lineno) -> bool:
    """The violating expression reads - directly or through up to three assignments (`c2 = {'b': c1}`, `t = c1`,
    `w = opt(c1)`) - a variable c that the minimal program item-assigns (`c[0] = ...`), and the violation disappears when
    those item assignments are deleted (differential observation): the value pyanalyze keeps for c from before the item
    assignment is what makes the inferred value of the expression too narrow."""
    try:
        tree = ast.parse(minsrc)
        fn = next(n for n in tree.body if isinstance(n, ast.FunctionDef) and n.name == fname)
        bases = set()
        for n in ast.walk(fn):
            if isinstance(n, ast.Subscript) and isinstance(n.ctx, ast.Store):
                b = n.value
                while isinstance(b, (ast.Subscript, ast.Attribute)):
                    b = b.value
                if isinstance(b, ast.Name):
                    bases.add(b.id)
        if not bases:
            return False
        reach = {n.id for n in ast.walk(ast.parse(node_src, mode="eval")) if isinstance(n, ast.Name)}
        for _ in range(3):
            more = set()
            for st in ast.walk(fn):
                tgt = None
                if isinstance(st, ast.Assign):
                    tgt = {t.id for t in st.targets if isinstance(t, ast.Name)}
                elif isinstance(st, (ast.AnnAssign, ast.NamedExpr)) and isinstance(st.target, ast.Name):
                    tgt = {st.target.id}
                if tgt and tgt & reach and st.value is not None and (not lineno or st.lineno <= lineno):
                    more |= {n.id for n in ast.walk(st.value) if isinstance(n, ast.Name)}
            if more <= reach:
                break
            reach |= more
        hit = bases & reach
        if not hit:
            return False

        class Drop(ast.NodeTransformer):
            def visit_Assign(self, st):
                for t in st.targets:
                    b = t
                    while isinstance(b, (ast.Subscript, ast.Attribute)):
                        b = b.value
                    if isinstance(t, ast.Subscript) and isinstance(b, ast.Name) and b.id in hit:
                        return ast.Pass()
                return st

        cand = ast.unparse(ast.fix_missing_locations(Drop().visit(tree)))
        if cand == minsrc:
            return False
        sig = _signature_of(minkey)
        return all(still_violates(cand, entry, params, args, sig) is None for _ in range(2))
    except Exception:  # noqa: BLE001
        return False


def _result_operands(expr) -> list:
    """The names / subscript paths whose value a conditional expression, boolean operation or walrus can evaluate to."""
    if isinstance(expr, ast.IfExp):
        return _result_operands(expr.body) + _result_operands(expr.orelse)
    if isinstance(expr, ast.BoolOp):
        return [o for v in expr.values for o in _result_operands(v)]
    if isinstance(expr, ast.NamedExpr):
        return _result_operands(expr.value)
    return [expr] if isinstance(expr, (ast.Name, ast.Subscript)) else []


def _item_assigned(minsrc: str, fname: str, var: str) -> bool:
    """`var[...] = ...` (possibly nested) occurs in the minimal program and the violating node is `var` itself — a bare
    name or a subscript path that is a proper prefix of the assigned target: pyanalyze keeps the value it inferred for
    the container before one of its items was assigned."""
    tree = ast.parse(minsrc)
    fn = next(n for n in tree.body if isinstance(n, ast.FunctionDef) and n.name == fname)
    for node in ast.walk(fn):
        if isinstance(node, ast.Subscript) and isinstance(node.ctx, ast.Store):
            base = node.value
            while True:
                if ast.unparse(base) == var:
                    return True
                if isinstance(base, ast.Subscript):
                    base = base.value
                else:
                    break
    return False


def _stale_composite_in_loop(minsrc: str, fname: str, node_src: str) -> bool:
    """The violating expression is (or contains) `x[<constant index or slice>]` / `x.attr` where x is re-assigned
    inside an enclosing loop: pyanalyze tracks such 'composite variables' and keeps the value computed on the first
    pass over the loop body."""
    expr = ast.parse(node_src, mode="eval").body
    bases = set()
    for n in ast.walk(expr):
        if isinstance(n, ast.Subscript) and isinstance(n.value, ast.Name):
            sl = n.slice
            const = isinstance(sl, (ast.Constant, ast.Slice)) or (isinstance(sl, ast.UnaryOp) and isinstance(sl.operand, ast.Constant))
            if const:
                bases.add(n.value.id)
        elif isinstance(n, ast.Attribute) and isinstance(n.value, ast.Name):
            bases.add(n.value.id)
    if not bases:
        return False
    tree = ast.parse(minsrc)
    fn = next(n for n in tree.body if isinstance(n, ast.FunctionDef) and n.name == fname)
    for loop in ast.walk(fn):
        if isinstance(loop, (ast.While, ast.For)):
            uses = any(ast.unparse(n) == ast.unparse(expr) for n in ast.walk(loop) if isinstance(n, type(expr)))
            assigned = {n.id for sub in ast.walk(loop) for n in ast.walk(sub) if isinstance(n, ast.Name) and isinstance(n.ctx, ast.Store)}
            if uses and bases & assigned:
                return True
    return False


def _loop_carried(minsrc: str, fname: str, var: str) -> bool:
    """Does the value of `var` depend on more trips around a loop than pyanalyze's two analysis passes provide?

    True when, inside one loop of the minimal program, var is assigned (or depends on a variable that is) and either
    (a) the dependency is cyclic (`x = f(x)`: the k-th value needs k passes), or
    (b) a second loop-assigned variable is involved — in the data dependencies of var or in a branch test of the
        loop — so that a value has to travel around the back edge and then through another assignment/branch.
    A single assignment merely read earlier in the next iteration (`for ..: use(v); v = 2`) does NOT qualify:
    that is exactly what the second pass exists for."""
    tree = ast.parse(minsrc)
    fn = next(n for n in tree.body if isinstance(n, ast.FunctionDef) and n.name == fname)
    for loop in ast.walk(fn):
        if not isinstance(loop, (ast.While, ast.For)):
            continue
        deps = {}
        for sub in ast.walk(loop):
            if isinstance(sub, (ast.Assign, ast.AugAssign, ast.AnnAssign)) and getattr(sub, "value", None) is not None:
                targets = sub.targets if isinstance(sub, ast.Assign) else [sub.target]
                tn = {n.id for t in targets for n in ast.walk(t) if isinstance(n, ast.Name)}
                rn = {n.id for n in ast.walk(sub.value) if isinstance(n, ast.Name)}
                if isinstance(sub, ast.AugAssign):
                    rn |= tn
                for t in tn:
                    deps.setdefault(t, set()).update(rn)
        if not deps:
            continue
        # closure of loop-assigned variables var depends on (var itself included when assigned in the loop)
        reach, todo = set(), [var]
        cyclic = False
        while todo:
            cur = todo.pop()
            for d in deps.get(cur, ()):
                if d == var and var in deps:
                    cyclic = True
                if d in deps and d not in reach:
                    reach.add(d)
                    todo.append(d)
        if var in deps:
            reach.add(var)
        if not reach:
            continue
        if cyclic:
            return True
        test_vars = set()
        for sub in ast.walk(loop):
            if isinstance(sub, (ast.If, ast.While, ast.IfExp)):
                test_vars |= {n.id for n in ast.walk(sub.test) if isinstance(n, ast.Name)}
            elif isinstance(sub, ast.match_case) and sub.guard is not None:
                test_vars |= {n.id for n in ast.walk(sub.guard) if isinstance(n, ast.Name)}
            elif isinstance(sub, ast.Match):
                test_vars |= {n.id for n in ast.walk(sub.subject) if isinstance(n, ast.Name)}
        involved = reach | (test_vars & set(deps))
        if len(involved) >= 2:
            return True
    return False


def report(ctx, w, rawkey: str, occurrences: int = 1):
    from vp.props.c03 import _find_ty

    params = [(p, _find_ty(t)) for p, t in w["params"]]
    minsrc, minkey, hit = minimise(w["source"], w["func"], params, w["args"], rawkey)
    ctx.count("witnesses_minimised")
    if hit is None:
        # observed once during the run but not in 6 isolated attempts: nondeterministic inference (C10's subject);
        # counted and noted, not reported, because a violation must come with a witness that replays
        ctx.count("violations_not_reproducible", occurrences)
        ctx.note(f"not reproducible in isolation: {rawkey}")
        return
    extra = [hit["witness"]["value"]] if hit.get("witness", {}).get("value") else []
    holder = holder_of(minsrc, hit.get("witness", {}).get("lineno"), w["func"])
    key = mechanism_key(minkey, minsrc, holder, params, list(w["args"]) + extra, hit.get("witness", {}).get("node"),
                        hit.get("witness", {}).get("lineno"), entry=w["func"],
                        equal_literal=bool(hit.get("witness", {}).get("equal_literal")))
    w2 = dict(w)
    w2["source"] = minsrc
    what = hit["what"] + "\n--- minimal program ---\n" + function_source(minsrc, w["func"])
    if holder != w["func"]:
        what += "\n--- callee containing the node ---\n" + function_source(minsrc, holder)
    for _ in range(occurrences):
        ctx.violation_counts[key] = ctx.violation_counts.get(key, 0)
    ctx.violation(key, what, w2)


def replay(witness):
    from vp.core import Ctx
    from vp.props.c03 import _find_ty

    ctx = Ctx(ID, "quick", 0, 0, 1)
    params = [(p, _find_ty(t)) for p, t in witness["params"]]
    for _ in range(6):  # inference is not fully deterministic (see minimise)
        check_module(ctx, witness["source"], [(witness["func"], params)], only_func=witness["func"], only_args=witness["args"])
        if ctx.violations:
            break
    for rawkey, lst in sorted(ctx.violations.items()):
        out = Ctx(ID, "quick", 0, 0, 1)
        report(out, witness, rawkey)
        for key, l2 in out.violations.items():
            return key, l2[0]["what"]
    return None


# ---------------------------------------------------------------------------
# witness minimisation and mechanism features


def _blocks(fn: ast.AST):
    """Yield (owner, field) for every statement list inside fn."""
    for node in ast.walk(fn):
        for field in ("body", "orelse", "finalbody"):
            blk = getattr(node, field, None)
            if isinstance(blk, list) and blk and isinstance(blk[0], ast.stmt):
                yield node, field
        if isinstance(node, ast.Try):
            for h in node.handlers:
                pass  # handlers are walked as nodes with .body
        if isinstance(node, ast.Match):
            for c in node.cases:
                pass  # match_case nodes are walked too


def _owners(tree: ast.Module, fname: str) -> list:
    """Statement lists of the entry function first, then those of the sibling functions it may call (a violating node
    can lie in a callee: its statements must be minimised too)."""
    fns = [n for n in tree.body if isinstance(n, ast.FunctionDef)]
    fns.sort(key=lambda n: n.name != fname)
    return [(o, f) for fn in fns for o, f in _blocks(fn)]


def _candidates(tree: ast.Module, fname: str):
    """Edits as (description, function applying the edit to a fresh deep copy located by path)."""
    fn = next(n for n in tree.body if isinstance(n, ast.FunctionDef) and n.name == fname)
    edits = []
    # drop other top-level functions
    for i, n in enumerate(tree.body):
        if isinstance(n, ast.FunctionDef) and n.name != fname:
            edits.append(("drop-func", ("top", i)))
    owners = _owners(tree, fname)
    for oi, (owner, field) in enumerate(owners):
        blk = getattr(owner, field)
        for si, st in enumerate(blk):
            edits.append(("del", (oi, si)))
            if isinstance(st, (ast.If, ast.For, ast.While, ast.Try, ast.With)):
                edits.append(("hoist-body", (oi, si)))
                if getattr(st, "orelse", None):
                    edits.append(("hoist-else", (oi, si)))
                    edits.append(("drop-else", (oi, si)))
                if isinstance(st, ast.Try) and st.finalbody:
                    edits.append(("drop-finally", (oi, si)))
            if isinstance(st, ast.Match):
                for ci in range(len(st.cases)):
                    if len(st.cases) > 1:
                        edits.append(("drop-case", (oi, si, ci)))
    return edits


def _apply(source: str, fname: str, edit) -> str:
    import copy

    tree = ast.parse(source)
    kind, path = edit
    if kind == "drop-func":
        del tree.body[path[1]]
        return ast.unparse(tree)
    owners = _owners(tree, fname)
    owner, field = owners[path[0]]
    blk = getattr(owner, field)
    st = blk[path[1]]
    if kind == "del":
        if isinstance(st, ast.Return) and owner in tree.body:
            return source
        del blk[path[1]]
    elif kind == "hoist-body":
        blk[path[1]: path[1] + 1] = [s for s in st.body if not isinstance(s, (ast.Break, ast.Continue))] or [ast.Pass()]
    elif kind == "hoist-else":
        blk[path[1]: path[1] + 1] = st.orelse
    elif kind == "drop-else":
        st.orelse = []
    elif kind == "drop-finally":
        st.finalbody = []
        if not st.handlers:
            return source
    elif kind == "drop-case":
        del st.cases[path[2]]
    if not blk:
        blk.append(ast.Pass())
    ast.fix_missing_locations(tree)
    return ast.unparse(tree)


def _signature_of(key: str) -> str:
    parts = key.split("|")
    return parts[0] + "|" + parts[-1]


def still_violates(source: str, fname: str, params, args, sig: str, kwargs=None):
    from vp.core import Ctx

    sub = Ctx(ID, "quick", 0, 0, 1)
    try:
        check_module(sub, source, [(fname, params)], only_func=fname, only_args=args, kwargs=kwargs)
    except Exception:  # noqa: BLE001
        return None
    for key, lst in sub.violations.items():
        if _signature_of(key) == sig:
            return key, lst[0]
    return None


def minimise(source: str, fname: str, params, args, key: str, budget: int = 200):
    """Greedy statement deletion / hoisting while a violation with the same (node type, type mismatch) persists."""
    sig = _signature_of(key)
    best = None
    for _ in range(6):
        # fresh Checker, as in the run that found it. pyanalyze's inference is not fully deterministic (sets keyed by
        # object identity, see C10), so a violation seen once may need several attempts to show again.
        best = still_violates(source, fname, params, args, sig)
        if best is not None:
            break
    kwargs = harness.constructor_kwargs("tests", C01_OVERRIDES, fresh=True)  # one Checker for all trials of this witness
    if best is None:
        return source, key, None
    checks = 0
    changed = True
    # larger edits first
    order = {"drop-func": 0, "hoist-body": 2, "hoist-else": 2, "drop-else": 1, "drop-finally": 1, "drop-case": 1, "del": 1}

    def edits_of(src):
        es = _candidates(ast.parse(src), fname)
        es.sort(key=lambda e: order[e[0]])
        return es

    while changed and checks < budget:
        # one sweep over the edits; after an edit that keeps the violation the sweep goes on from the same position in
        # the new edit list (edits that failed earlier in the sweep are only tried again in the next sweep), and sweeps
        # are repeated until one changes nothing: the result is minimal with respect to the edits, as before
        changed = False
        try:
            edits = edits_of(source)
        except Exception:  # noqa: BLE001
            break
        i = 0
        while i < len(edits) and checks < budget:
            try:
                cand = _apply(source, fname, edits[i])
            except Exception:  # noqa: BLE001
                i += 1
                continue
            if cand == source:
                i += 1
                continue
            checks += 1
            r = still_violates(cand, fname, params, args, sig, kwargs)
            if r is None:
                i += 1
                continue
            source, best = cand, r
            changed = True
            try:
                edits = edits_of(source)
            except Exception:  # noqa: BLE001
                break
    for _ in range(3):
        final = still_violates(source, fname, params, args, sig)
        if final is not None:
            best = final
            break
    return source, best[0], best[1]


def features(source: str, fname: str) -> str:
    tree = ast.parse(source)
    fn = next(n for n in tree.body if isinstance(n, ast.FunctionDef) and n.name == fname)
    feats = set()
    body_nodes = [n for st in fn.body for n in ast.walk(st)]
    for node in body_nodes:
        if isinstance(node, ast.If):
            feats.add(f"if[{instrument.test_kind(node.test)}]" + ("+else" if node.orelse else ""))
        elif isinstance(node, ast.While):
            feats.add("while" + ("+else" if node.orelse else ""))
        elif isinstance(node, ast.For):
            feats.add("for" + ("+else" if node.orelse else ""))
        elif isinstance(node, ast.Try):
            feats.add("try" + ("+else" if node.orelse else "") + ("+finally" if node.finalbody else ""))
            # how the handlers / the else block are left, when not by falling off their end
            for where, blocks in (("handler", [h.body for h in node.handlers]), ("try-else", [node.orelse])):
                for blk in blocks:
                    for st in blk:
                        for sub in ast.walk(st):
                            if isinstance(sub, (ast.Raise, ast.Return, ast.Break, ast.Continue)):
                                feats.add(f"{type(sub).__name__.lower()}-in-{where}")
        elif isinstance(node, ast.Compare) and len(node.ops) > 1:
            feats.add("chained-compare")
        elif isinstance(node, ast.Match):
            pats = sorted({type(c.pattern).__name__ + (f"+guard[{instrument.test_kind(c.guard)}]" if c.guard is not None else "") for c in node.cases})
            feats.add("match[" + ",".join(pats) + "]")
        elif isinstance(node, ast.IfExp):
            feats.add(f"ifexp[{instrument.test_kind(node.test)}]")
        elif isinstance(node, ast.Assert):
            feats.add(f"assert[{instrument.test_kind(node.test)}]")
        elif isinstance(node, ast.NamedExpr):
            feats.add("walrus")
        elif isinstance(node, (ast.Break, ast.Continue)):
            feats.add(type(node).__name__.lower())
        elif isinstance(node, ast.Starred) and isinstance(node.ctx, ast.Store):
            feats.add("star-unpack")
        elif isinstance(node, ast.Subscript) and isinstance(node.ctx, ast.Load):
            sl = node.slice
            feats.add("subscript[" + ("slice" if isinstance(sl, ast.Slice) else "neg" if isinstance(sl, ast.UnaryOp) else "const" if isinstance(sl, ast.Constant) else "expr") + "]")
        elif isinstance(node, ast.Call) and isinstance(node.func, ast.Name) and node.func.id not in ("use", "isinstance", "len"):
            feats.add(f"call:{node.func.id}")
        elif isinstance(node, ast.Call) and isinstance(node.func, ast.Attribute):
            feats.add(f"call:.{node.func.attr}")
        elif isinstance(node, ast.BinOp):
            feats.add("binop")
        if isinstance(node, (ast.While, ast.For)):
            for sub in ast.walk(node):
                if isinstance(sub, ast.Assign):
                    tnames = {n.id for t in sub.targets for n in ast.walk(t) if isinstance(n, ast.Name)}
                    rnames = {n.id for n in ast.walk(sub.value) if isinstance(n, ast.Name)}
                    if tnames & rnames:
                        feats.add("loop-carried-assign")
    return ",".join(sorted(feats))
