"""C02 — narrowing never loses the actual value and never widens.

Monitor: for (declared type V, condition c) the function
    def f(x: V):  if <c>: return __probe(1, x)  else: return __probe(0, x)
is checked by pyanalyze (annotate=True) and then CALLED on inhabitants of V. CPython decides which branch is taken;
the narrowed type read from the `x` node of each branch is judged with the membership oracle:
 (a) lost: the object reaching a branch is not a member of the type narrowed for that branch;
 (b) widened: a universe object belongs to the narrowed type but neither to V nor to the tested type;
 (c) always-true/false: a branch narrowed to Never (or a value_always_true / type_always_true diagnostic) although
     some inhabitant takes it.
One (V, c) pair in SHAPE_EVERY is tested a second time in another SHAPE (see SHAPES / render_func): the condition stored
in a variable and tested later - with x left alone, rebound from a second parameter on some paths, or on all paths -,
walrus, early return, conditional expression, while-test. There the object that reaches a branch may be the rebound one;
clause (a) is applied to whatever object reaches the probe.
"""
from __future__ import annotations

import ast

from vp import harness, instrument, prelude, ty, tygen, universe
from vp.ty import Ty

ID = "C02"
LEVEL = "exploration"
RULE = (
    "case = (declared type V, condition kind with operands, polarity, shape); V enumerated over depth-1 leaves and depth-2 "
    "unions/Optional/tuples/generics/enums/type[...] (sampled deeper in thorough); conditions: isinstance / not isinstance "
    "(single class; every 2-tuple of classes from int/float/complex/bool/str/NoneType, the 3-tuples of the numeric tower and "
    "mixed ones), issubclass / not issubclass (single class, the same 2- and 3-tuples), is/is not, ==/!=, in/not in, "
    "truthiness, not, len comparisons, TypeIs and TypeGuard helpers, match patterns (class/literal/sequence), and their "
    "and/or combinations; every function is executed on inhabitants(V). Shape = how the condition reaches the branch: "
    "every (V, condition) is tested directly (`if c:`), and every 6th one additionally in one of 25 other shapes drawn per "
    "seed: condition stored in a variable and tested later (`ok = c ... if ok:` / `if not ok:`), with the tested variable "
    "left alone, rebound from a second parameter y: V on SOME paths only (if-body, else-body, for-body, while-body, "
    "try-body, except-body; taken or not according to a parameter r) or on all paths, stored and tested inside a loop "
    "that starts afterwards (for over a display / range / unknown iterable, while True, while <opaque>), walrus, early "
    "return, conditional expression, while-test; these are executed on (x, y, r) over inhabitants(V)^2 x {False, True} and the object "
    "that reaches a branch is judged against the type narrowed there. Non-trivial = narrowed type differs from V in some "
    "branch or a branch is Never; distinct by (constructor set of V, condition kind, shape)."
)
ASSUMPTIONS = [
    "CPython evaluates the condition; vp.ty.member judges membership over inhabitants(V) and the universe U",
    "for ==/!=/in/not in (and match value patterns) objects whose equality with the tested literal crosses types "
    "(True == 1, 1.0 == 1, IntEnum == int) are excluded, as the property states",
    "UNKNOWN memberships are counted, never violations",
]
FLOORS = {
    "quick": {"distinct_nontrivial": 300, "functions": 3000, "branch_observations": 15000, "widening_checks": 3000,
              "shaped_functions": 1300, "rebound_object_observations": 20000, "class_tuple_functions": 1200},
    "thorough": {"distinct_nontrivial": 500, "functions": 30000, "branch_observations": 150000,
                 "shaped_functions": 2600, "rebound_object_observations": 40000, "class_tuple_functions": 2400},
}
BATCH = 60
SHAPE_EVERY = 6  # one (V, condition) pair in SHAPE_EVERY is additionally tested in a non-direct shape

I, S, F, BL, NONE = ty.Cls(int), ty.Cls(str), ty.Cls(float), ty.Cls(bool), ty.NONE
A, Bc, C = ty.Cls(prelude.A), ty.Cls(prelude.B), ty.Cls(prelude.C)
COLOR, NUM = ty.Cls(prelude.Color), ty.Cls(prelude.Num)

BASE_TYPES = [
    I, BL, F, ty.Cls(complex), S, ty.Cls(bytes), NONE, ty.OBJECT, A, Bc, C, COLOR, NUM,
    ty.Lit(1), ty.Lit(True), ty.Lit("a"), ty.Lit(prelude.Color.RED),
    ty.Union(I, NONE), ty.Union(S, NONE), ty.Union(A, NONE), ty.Union(I, S), ty.Union(I, S, NONE), ty.Union(A, C), ty.Union(Bc, C),
    ty.Union(F, S), ty.Union(BL, S), ty.Union(F, NONE), ty.Union(F, I), ty.Union(COLOR, NONE), ty.Union(NUM, S),
    ty.Union(ty.Lit(1), ty.Lit(2)), ty.Union(ty.Lit("a"), ty.Lit("b")), ty.Union(ty.Lit(1), ty.Lit("a"), NONE),
    ty.Union(ty.Lit(prelude.Color.RED), ty.Lit(prelude.Color.GREEN)), ty.Union(ty.Lit(True), NONE), ty.Union(ty.Lit(0), ty.Lit("")),
    ty.Tuple(I, S), ty.Tuple(I, S, F), ty.Tuple(), ty.VarTuple(I), ty.VarTuple(ty.Union(I, S)), ty.Union(ty.Tuple(I, S), NONE),
    ty.Union(ty.Tuple(I), ty.Tuple(I, I)), ty.Union(ty.VarTuple(I), NONE),
    ty.List(I), ty.List(S), ty.Union(ty.List(I), NONE), ty.Union(I, ty.List(I)), ty.Union(ty.List(I), ty.Tuple(I, I)),
    ty.Dict(S, I), ty.Union(ty.Dict(S, I), NONE), ty.Set(I), ty.FrozenSet(I), ty.Seq(I), ty.Iter(I), ty.Union(S, ty.Cls(bytes)),
    ty.TypeOf(A), ty.TypeOf(ty.Union(A, C)), ty.TypeOf(I), ty.Union(ty.TypeOf(A), NONE), ty.Union(S, ty.List(S)),
    ty.TypeOf(F), ty.TypeOf(ty.Cls(complex)), ty.Union(ty.Cls(complex), NONE),
    ty.TypedDictT("TD1", {"a": (I, True), "b": (S, False)}),
]

CLASSES = [("int", int), ("str", str), ("float", float), ("bool", bool), ("bytes", bytes), ("complex", complex), ("A", prelude.A),
           ("B", prelude.B), ("C", prelude.C), ("Color", prelude.Color), ("Num", prelude.Num), ("list", list), ("tuple", tuple),
           ("dict", dict), ("object", object), ("type(None)", type(None))]
LITERALS = ["1", "0", "2", "True", "False", "None", "'a'", "''", "'b'", "1.5", "b'a'", "Color.RED", "Color.GREEN", "Num.ONE", "A", "int"]

HELPERS = '''
from typing_extensions import TypeIs, TypeGuard
def is_int(x: object) -> TypeIs[int]:
    return isinstance(x, int)
def is_str(x: object) -> TypeIs[str]:
    return isinstance(x, str)
def guard_int(x: object) -> TypeGuard[int]:
    return isinstance(x, int)
def is_a(x: object) -> TypeIs[A]:
    return isinstance(x, A)
_tog = [False]
def opq() -> bool:
    _tog[0] = not _tog[0]
    return _tog[0]
def lim() -> int:
    return 1
def times(r: bool) -> typing.List[int]:
    return [0] if r else []
def need(r: bool) -> None:
    if not r:
        raise ValueError("no")
'''

# classes combined systematically into 2- and 3-tuples for isinstance()/issubclass()
TUPLE_POOL = ["int", "float", "complex", "bool", "str", "type(None)"]
NUMERIC = ["int", "float", "complex", "bool"]
MIXED_TRIPLES = [("float", "complex", "str"), ("int", "str", "type(None)")]


def class_tuples() -> list:
    """[(names, is_numeric_only)]: every pair from TUPLE_POOL, the triples of the numeric tower, two mixed triples."""
    import itertools

    out = [(p, all(n in NUMERIC for n in p)) for p in itertools.combinations(TUPLE_POOL, 2)]
    out += [(t, True) for t in itertools.combinations(NUMERIC, 3)]
    out += [(t, False) for t in MIXED_TRIPLES]
    return out


# ---- shapes: how the condition reaches the branch -------------------------------------------------------------
# name -> (family, uses (x, y, r), statements between `ok = <c>` and the test or None for the non-stored shapes)
REBINDS = {
    "none": None,
    "if": ["if r:", "    x = y"],
    "else": ["if r:", "    pass", "else:", "    x = y"],
    "for": ["for _i in times(r):", "    x = y"],
    "while": ["while r:", "    x = y", "    break"],
    "try": ["try:", "    need(r)", "    x = y", "except ValueError:", "    pass"],
    "except": ["try:", "    need(r)", "except ValueError:", "    x = y"],
    "all": ["x = y"],
}
# the stored condition is tested INSIDE a loop that starts after it was stored
LOOPS = {
    "stored-in-for-fixed": "for _i in [0, 1]:",      # the checker knows the loop body is entered
    "stored-in-for-unknown": "for _i in times(True):",
    "stored-in-for-range": "for _i in range(2):",
    "stored-in-while-true": "while True:",
    "stored-in-while-unknown": "while opq():",
}
SHAPES = [f"stored{'-not' if neg else ''}+rebind-{rb}" if rb != "none" else f"stored{'-not' if neg else ''}"
          for rb in REBINDS for neg in (False, True)] + ["walrus", "early-return", "ifexp", "while-test"] + list(LOOPS)


def shape_family(shape) -> str:
    if shape is None:
        return "direct"
    if "+rebind-all" in shape:
        return "stored+full-rebind"
    if "+rebind-" in shape:
        return "stored+partial-rebind"
    if shape in LOOPS:
        return "stored-in-loop"
    return "stored" if shape.startswith("stored") else shape


def rebinding_r(shape) -> tuple:
    """The values of the parameter r for which the shape's rebinding statement `x = y` is executed."""
    rb = shape.partition("+rebind-")[2]
    return {"else": (False,), "except": (False,), "all": (False, True)}.get(rb, (True,))


def shape_rebinds(shape) -> bool:
    return shape is not None and "+rebind-" in shape


class Cond:
    def __init__(self, src, kind, tested: Ty = None, eq_lits=(), pattern=None, guard=None):
        self.guard = guard      # guard expression of the match case (None = no guard)
        self.src = src          # uses variable name x
        self.kind = kind
        self.tested = tested    # Ty of the tested type (for the widening clause), None = nothing added
        self.eq_lits = eq_lits  # literal objects compared by equality (cross-type exclusion)
        self.pattern = pattern  # match pattern source or None


def conditions(rng, thorough: bool) -> list:
    ns = dict(ty.eval_ns())
    out = []
    for name, c in CLASSES:
        out.append(Cond(f"isinstance(x, {name})", "isinstance", ty.Cls(c)))
        out.append(Cond(f"not isinstance(x, {name})", "not-isinstance", ty.Cls(c)))
    for (n1, c1), (n2, c2) in [(CLASSES[0], CLASSES[1]), (CLASSES[2], CLASSES[0]), (CLASSES[6], CLASSES[8]), (CLASSES[11], CLASSES[12]),
                               (CLASSES[3], CLASSES[1]), (CLASSES[9], CLASSES[10])]:
        out.append(Cond(f"isinstance(x, ({n1}, {n2}))", "isinstance-tuple", ty.Union(ty.Cls(c1), ty.Cls(c2))))
    by_name = dict(CLASSES)
    have = {c.src for c in out}
    for names, numeric in class_tuples():
        tested = ty.Union(*[ty.Cls(by_name[n]) for n in names])
        src = f"isinstance(x, ({', '.join(names)}))"
        if src not in have:
            out.append(Cond(src, "isinstance-tuple", tested))
        if numeric and len(names) == 2 or names == ("int", "float", "complex"):
            out.append(Cond(f"not {src}", "not-isinstance-tuple", tested))
    for name, c in CLASSES[:11]:
        out.append(Cond(f"issubclass(x, {name})", "issubclass", ty.TypeOf(ty.Cls(c))))
        out.append(Cond(f"not issubclass(x, {name})", "not-issubclass", ty.TypeOf(ty.Cls(c))))
    for names, numeric in class_tuples():
        if "type(None)" in names:
            continue
        tested = ty.TypeOf(ty.Union(*[ty.Cls(by_name[n]) for n in names]))
        out.append(Cond(f"issubclass(x, ({', '.join(names)}))", "issubclass-tuple", tested))
        if numeric and len(names) == 2:
            out.append(Cond(f"not issubclass(x, ({', '.join(names)}))", "not-issubclass-tuple", tested))
    for lit in LITERALS:
        v = eval(lit, ns)
        identity_ok = v is None or isinstance(v, (bool, prelude.Color, type)) or lit in ("Num.ONE",)
        if identity_ok:
            out.append(Cond(f"x is {lit}", "is", ty.Lit(v)))
            out.append(Cond(f"x is not {lit}", "is-not", ty.Lit(v)))
        if not isinstance(v, type):
            out.append(Cond(f"x == {lit}", "eq", ty.Lit(v), eq_lits=(v,)))
            out.append(Cond(f"x != {lit}", "ne", ty.Lit(v), eq_lits=(v,)))
    for l1, l2 in [("1", "2"), ("'a'", "'b'"), ("1", "'a'"), ("None", "1"), ("Color.RED", "Color.GREEN"), ("True", "None"), ("0", "''")]:
        v1, v2 = eval(l1, ns), eval(l2, ns)
        out.append(Cond(f"x in ({l1}, {l2})", "in", ty.Union(ty.Lit(v1), ty.Lit(v2)), eq_lits=(v1, v2)))
        out.append(Cond(f"x not in ({l1}, {l2})", "not-in", ty.Union(ty.Lit(v1), ty.Lit(v2)), eq_lits=(v1, v2)))
    out.append(Cond("x", "truthy"))
    out.append(Cond("not x", "not-truthy"))
    out.append(Cond("bool(x)", "bool-call"))
    for op in ("==", "!=", "<", ">=", ">", "<="):
        for k in (0, 1, 2):
            out.append(Cond(f"len(x) {op} {k}", "len" + op))
    # the same comparisons with the operands swapped (the variable on the right)
    mirror = {"==": "==", "!=": "!=", "<": ">", ">=": "<=", ">": "<", "<=": ">="}
    for op in ("==", "!=", "<", ">=", ">", "<="):
        for k in (0, 1, 2, 3):
            out.append(Cond(f"{k} {mirror[op]} len(x)", "len-swapped" + op))
    for lit in ["1", "'a'", "None", "Color.RED", "True", "0"]:
        v = eval(lit, ns)
        if v is None or isinstance(v, (bool, prelude.Color)):
            out.append(Cond(f"{lit} is x", "is-swapped", ty.Lit(v)))
            out.append(Cond(f"{lit} is not x", "is-not-swapped", ty.Lit(v)))
        out.append(Cond(f"{lit} == x", "eq-swapped", ty.Lit(v), eq_lits=(v,)))
        out.append(Cond(f"{lit} != x", "ne-swapped", ty.Lit(v), eq_lits=(v,)))
    # membership in a str / bytes is substring containment, not element equality
    out.append(Cond("x in 'ab'", "in-str", S))
    out.append(Cond("x not in 'ab'", "not-in-str", S))
    out.append(Cond("x in b'ab'", "in-bytes", ty.Cls(bytes)))
    # membership in other containers of literals
    out.append(Cond("x in [1, 2]", "in-list", ty.Union(ty.Lit(1), ty.Lit(2)), eq_lits=(1, 2)))
    out.append(Cond("x in {'a', 'b'}", "in-set", ty.Union(ty.Lit("a"), ty.Lit("b")), eq_lits=("a", "b")))
    out.append(Cond("x in {'a': 0, 'b': 1}", "in-dict", ty.Union(ty.Lit("a"), ty.Lit("b")), eq_lits=("a", "b")))
    out.append(Cond("x not in [1, 2]", "not-in-list", ty.Union(ty.Lit(1), ty.Lit(2)), eq_lits=(1, 2)))
    out.append(Cond("is_int(x)", "TypeIs", I))
    out.append(Cond("is_str(x)", "TypeIs", S))
    out.append(Cond("is_a(x)", "TypeIs", A))
    out.append(Cond("guard_int(x)", "TypeGuard", I))
    out.append(Cond("callable(x)", "callable", ty.OPAQUE))
    # match patterns (the positive branch is the case body, the negative the fall-through `case _`)
    for name, c in CLASSES[:11]:
        out.append(Cond(None, "match-class", ty.Cls(c), pattern=f"{name}()"))
    for lit in ["1", "'a'", "None", "True", "Color.RED", "0"]:
        v = eval(lit, ns)
        out.append(Cond(None, "match-literal", ty.Lit(v), eq_lits=() if v is None or isinstance(v, bool) else (v,), pattern=lit))
    out.append(Cond(None, "match-sequence", ty.OPAQUE, pattern="[_a, _b]"))
    out.append(Cond(None, "match-sequence", ty.OPAQUE, pattern="[]"))
    out.append(Cond(None, "match-sequence-star", ty.OPAQUE, pattern="[_a, *_rest]"))
    out.append(Cond(None, "match-mapping", ty.OPAQUE, pattern="{'a': _a}"))
    out.append(Cond(None, "match-or", ty.Union(ty.Lit(1), ty.Lit(2)), eq_lits=(1, 2), pattern="1 | 2"))
    out.append(Cond(None, "match-or-class", ty.Union(I, S), pattern="int() | str()"))
    # the same patterns behind a guard the checker cannot evaluate: an object that matches the pattern but fails the
    # guard falls through to the later case, so the negative branch must still contain it
    for c in list(out):
        if c.pattern is not None and c.kind in ("match-class", "match-literal", "match-or", "match-or-class"):
            out.append(Cond(None, c.kind + "+opaque-guard", c.tested, eq_lits=c.eq_lits, pattern=c.pattern, guard="opq()"))
    out.append(Cond(None, "match-capture+opaque-guard", ty.OBJECT, pattern="_y", guard="opq()"))
    out.append(Cond(None, "match-wildcard+opaque-guard", ty.OBJECT, pattern="_", guard="lim() > 1"))
    return out


def combos(rng, conds, n) -> list:
    plain = [c for c in conds if c.src is not None]
    out = []
    for _ in range(n):
        a, b = rng.choice(plain), rng.choice(plain)
        op = rng.choice(["and", "or"])
        tested = None if a.tested is None or b.tested is None else ty.Union(a.tested, b.tested)
        if a.tested is None and b.tested is not None:
            tested = b.tested
        if b.tested is None and a.tested is not None:
            tested = a.tested
        out.append(Cond(f"({a.src}) {op} ({b.src})", f"{op}({a.kind},{b.kind})", tested, eq_lits=a.eq_lits + b.eq_lits))
    return out


def applicable(v: Ty, c: Cond) -> bool:
    """Skip combinations pyanalyze rejects up-front or that raise for every inhabitant (len of an int...)."""
    if c.kind.startswith("len") or "len" in c.kind:
        ms = v.args if v.kind == "Union" else (v,)
        return all(m.kind in ("List", "Set", "FrozenSet", "Dict", "Tuple", "VarTuple", "Seq", "TypedDict") or
                   (m.kind == "Cls" and m.extra in (str, bytes)) for m in ms)
    if c.kind == "issubclass" or "issubclass" in c.kind:
        ms = v.args if v.kind == "Union" else (v,)
        return all(m.kind == "TypeOf" for m in ms)
    return True


def render_func(name: str, v: Ty, c: Cond, style: int, shape=None) -> list:
    ann = ty.render(v, style)
    if shape is not None:
        pos, neg = "return __probe(1, x)", "return __probe(0, x)"
        if shape in LOOPS:
            # the branches do not leave the loop, so what they know about x flows around the back edge
            leave = ["        if opq():", "            break"] if shape == "stored-in-while-true" else []
            return [f"def {name}(x: {ann}):", f"    ok = {c.src}", "    " + LOOPS[shape], "        if ok:", "            __probe(1, x)",
                    "        else:", "            __probe(0, x)"] + leave + ["    return None"]
        if shape.startswith("stored"):
            head, _, rb = shape.partition("+rebind-")
            mid = REBINDS[rb or "none"] or []
            sig = f"def {name}(x: {ann}, y: {ann}, r: bool):" if rb else f"def {name}(x: {ann}):"
            test = ["if not ok:", "    " + neg, "else:", "    " + pos] if head == "stored-not" else ["if ok:", "    " + pos, "else:", "    " + neg]
            return [sig, f"    ok = {c.src}"] + ["    " + l for l in mid + test]
        sig = f"def {name}(x: {ann}):"
        if shape == "walrus":
            return [sig, f"    if (ok := {c.src}):", "        " + pos, "    else:", "        " + neg]
        if shape == "early-return":
            return [sig, f"    if not ({c.src}):", "        " + neg, "    " + pos]
        if shape == "ifexp":
            return [sig, f"    return __probe(1, x) if {c.src} else __probe(0, x)"]
        if shape == "while-test":
            return [sig, f"    while {c.src}:", "        " + pos, "    " + neg]
        raise ValueError(shape)
    if c.pattern is not None:
        return [
            f"def {name}(x: {ann}):",
            "    match x:",
            f"        case {c.pattern}{' if ' + c.guard if c.guard else ''}:",
            "            return __probe(1, x)",
            "        case _:",
            "            return __probe(0, x)",
        ]
    return [f"def {name}(x: {ann}):", f"    if {c.src}:", "        return __probe(1, x)", "    else:", "        return __probe(0, x)"]


def cross_type_equal(o, lits) -> bool:
    for l in lits:
        try:
            if o == l and type(o) is not type(l):
                return True
        except Exception:  # noqa: BLE001
            return True
    return False


def has_user_eq(o) -> bool:
    return type(o).__module__ == "vp.prelude" and "__eq__" in type(o).__dict__ or any("__eq__" in k.__dict__ for k in type(o).__mro__[:-1] if k.__module__ == "vp.prelude")


def vkind(v: Ty) -> str:
    if v.kind == "Union":
        return "Union(" + ",".join(sorted({vkind(a) for a in v.args})) + ")"
    if v.kind == "Cls":
        return v.extra.__name__
    if v.kind == "Lit":
        return f"Lit:{type(v.extra.v).__name__}"
    return v.kind


def check_batch(ctx, batch) -> None:
    """batch: list of (V, Cond, style, shape) - shape None is the direct `if <c>:` form."""
    batch = [b if len(b) == 4 else (*b, None) for b in batch]
    lines = ["from vp.prelude import *", "import typing", HELPERS]
    names = []
    for i, (v, c, style, shape) in enumerate(batch):
        names.append(f"f{i}")
        lines += render_func(f"f{i}", v, c, style, shape) + [""]
    source = "\n".join(lines) + "\n"
    probes = []

    def probe(tag, value):
        probes.append((tag, value))
        return value

    try:
        ins = instrument.Instrumented(source, extra_scope={"__probe": probe}, observed=())
    except Exception as e:  # noqa: BLE001
        ctx.count("modules_not_importable")
        ctx.note(f"module not importable: {e!r}")
        return
    try:
        res = harness.run(source, tree=ins.tree, module=ins.module, annotate=True, mode="all",
                          overrides={"unused_variable": False, "missing_return_annotation": False, "missing_parameter_annotation": False,
                                     "suggested_return_type": False, "suggested_parameter_type": False, "implicit_any": False,
                                     "missing_return": False})
        if res.exception is not None:
            ctx.count("checker_raised")
            return
        funcs = {n.name: n for n in ins.tree.body if isinstance(n, ast.FunctionDef)}
        diags_by_func = {}
        for d in res.diags:
            for name, fn in funcs.items():
                if d.lineno is not None and fn.lineno <= d.lineno <= fn.end_lineno:
                    diags_by_func.setdefault(name, []).append(d)
        for i, (v, c, style, shape) in enumerate(batch):
            fn = funcs[f"f{i}"]
            ds = diags_by_func.get(f"f{i}", [])
            codes = {d.code for d in ds}
            ctx.count("evaluations")
            ctx.count("functions")
            if shape is not None:
                ctx.count("shaped_functions")
                ctx.histo("shape", shape)
            if c.kind.endswith("-tuple"):
                ctx.count("class_tuple_functions")
            if codes & {"incompatible_argument", "incompatible_call", "unsupported_operation", "undefined_name", "internal_error",
                        "undefined_attribute", "not_callable", "bad_match", "impossible_pattern", "invalid_annotation"}:
                ctx.count("functions_rejected_by_checker")
                ctx.histo("rejected_kind", c.kind.split("(")[0])
                continue
            # narrowed types per branch
            narrowed = {}
            for node in ast.walk(fn):
                if isinstance(node, ast.Call) and isinstance(node.func, ast.Name) and node.func.id == "__probe":
                    tag = node.args[0].value
                    xnode = node.args[1]
                    if hasattr(xnode, "inferred_value"):
                        narrowed[tag] = (ty.from_value(xnode.inferred_value), xnode.inferred_value)
            if len(narrowed) != 2:
                ctx.count("branches_not_annotated")
                continue
            always = {"value_always_true": 1, "type_always_true": 1, "type_does_not_support_bool": None}
            claimed_always_true = any(d.code in ("value_always_true", "type_always_true") for d in ds)
            rebinds = shape_rebinds(shape)
            inh = universe.inhabitants(v, ctx.rng, 8 if rebinds else 10)
            f = getattr(ins.module, f"f{i}")
            taken = {0: [], 1: []}
            # argument tuples: (x,) - or, when the shape rebinds x from y on the paths selected by r, (x, y, r)
            # (every y when r selects the rebinding path, one y when it selects the path that leaves x alone)
            calls = [(it,) for it in inh] if not rebinds else [(it, y, r) for it in inh for r in (False, True)
                                                               for y in (inh if r in rebinding_r(shape) else inh[:1])]
            for call in calls:
                it = call[0]
                if c.eq_lits and (cross_type_equal(it.obj, c.eq_lits) or has_user_eq(it.obj)):
                    ctx.count("objects_excluded_cross_type_eq")
                    continue
                del probes[:]
                try:
                    f(*[a.obj if isinstance(a, universe.Item) else a for a in call])
                    if c.guard:
                        f(it.obj)  # the opaque guard alternates: observe both outcomes
                except Exception as e:  # noqa: BLE001
                    ctx.histo("runtime_exceptions", type(e).__name__)
                    continue
                if not probes:
                    continue
                observed = list(probes)
                for tag, value in observed:
                    taken[tag].append(it)
                    ctx.count("branch_observations")
                    if rebinds and value is not it.obj:
                        ctx.count("rebound_object_observations")
                    t, val = narrowed[tag]
                    m = ty.member(value, t)
                    if m is None:
                        ctx.count("membership_unknown")
                    elif m is False:
                        key = lost_key(c, tag, value, v, t, shape, stored_condition_value(fn))
                        if shape is None:
                            what = f"x: {ty.render(v)}; condition `{cond_text(c)}` is {bool(tag)} for {it.src}, but the {'positive' if tag else 'negative'} branch narrows x to {val}"
                        else:
                            args = ", ".join(a.src if isinstance(a, universe.Item) else repr(a) for a in call)
                            what = (f"shape {shape}: f({args}) reaches the {'positive' if tag else 'negative'} branch with x = {value!r}, "
                                    f"but pyanalyze narrows x to {val} there\n" + "\n".join(render_func("f", v, c, 0, shape)))
                        ctx.violation(key, what, wit(v, c, style, it.src, shape, call))
            # (c) always-true / always-false verdicts
            if shape is None and claimed_always_true and taken[0] and c.kind in ("truthy", "not-truthy", "bool-call"):
                it = taken[0][0] if c.kind != "not-truthy" else (taken[1][0] if taken[1] else None)
                if it is not None:
                    ctx.violation("truthiness|falsy-member-of-type-assumed-always-true" if nominally_always_true(it.obj, v) else f"always-true-wrong|{c.kind}|{type(it.obj).__name__}",
                                  f"x: {ty.render(v)}; pyanalyze reports {sorted(codes & {'value_always_true', 'type_always_true'})} but {it.src} is falsy",
                                  wit(v, c, style, it.src))
            # (b) widening over U
            tested = c.tested
            if tested is not None and tested.kind != "Opaque" or c.tested is None:
                for tag in (0, 1):
                    t, val = narrowed[tag]
                    if not ty.is_informative(t) and v.kind != "Object":
                        pass
                    allowed = ty.Union(v, tested) if tested is not None else v
                    bad = universe.subset_over_u(t, allowed)
                    ctx.count("widening_checks")
                    if bad is not None:
                        key = f"widened|{shape_prefix(shape)}{prim_kinds(c.kind)}|{'pos' if tag else 'neg'}|{vkind(v)}|narrowed:{tkind(t)}"
                        ctx.violation(key, f"x: {ty.render(v)}; condition `{cond_text(c)}` {'(shape ' + shape + ') ' if shape else ''}{'positive' if tag else 'negative'} branch narrows x to {val}, which admits {bad.src} (neither in the declared nor in the tested type)",
                                      wit(v, c, style, bad.src, shape))
            changed = any(narrowed[tag][0] != v_as_inferred(v) for tag in (0, 1))
            if any(narrowed[tag][0].kind == "Never" for tag in (0, 1)) or changed:
                ctx.nontrivial((sorted(ty.kinds(v)), c.kind) if shape is None else (sorted(ty.kinds(v)), c.kind, shape))
            ctx.histo("cond_kind_x_outcome", f"{c.kind.split('(')[0]}:pos={len(taken[1])},neg={len(taken[0])}"[:40] if False else c.kind.split("(")[0])
        if len(ctx.samples) < 3:
            v, c, style, shape = batch[0]
            ctx.sample({"declared": ty.render(v), "condition": cond_text(c)})
    finally:
        ins.dispose()


def prim_kinds(kind: str) -> str:
    """and(isinstance,truthy) -> 'isinstance+truthy' (the primitive condition kinds involved, order-free)."""
    import re

    prims = sorted(set(re.findall(r"[A-Za-z][A-Za-z\-<>=!]*", kind)) - {"and", "or"})
    return "+".join(prims)


TRUTHY_KINDS = {"truthy", "not-truthy", "bool-call"}


def nominally_always_true(o, v: Ty) -> bool:
    """o is falsy, yet belongs to a member of V that by itself defines neither __bool__ nor __len__."""
    try:
        if bool(o):
            return False
    except Exception:  # noqa: BLE001
        return False
    for m in (v.args if v.kind == "Union" else (v,)):
        if m.kind == "Iter" and ty.member(o, m) is True:
            return True
        if m.kind in ("Cls", "Object") and ty.member(o, m) is True:
            c = m.extra if m.kind == "Cls" else object
            if "__bool__" not in dir(c) and "__len__" not in dir(c) and c is not type(o):
                return True
    return False


def _classes_of(t) -> list:
    if t is None:
        return []
    if t.kind == "Union":
        return [c for m in t.args for c in _classes_of(m)]
    if t.kind == "Cls" and isinstance(t.extra, type):
        return [t.extra]
    return []


def in_intersection_of_unrelated_classes(o, v: Ty, tested) -> bool:
    """o is an instance of a declared class D and of a tested class T that are unrelated (neither is a subclass of the
    other): only a type that is a subclass of both - an intersection pyanalyze cannot express - contains it."""
    for d in _classes_of(v):
        for t in _classes_of(tested):
            if d is object or t is object or issubclass(d, t) or issubclass(t, d):
                continue
            if isinstance(o, d) and isinstance(o, t):
                return True
    return False


def shape_prefix(shape) -> str:
    return "" if shape is None else shape_family(shape) + "|"


def stored_condition_value(fn: ast.FunctionDef):
    """The value pyanalyze inferred for the stored condition `ok` where it is tested (None for other shapes)."""
    for node in ast.walk(fn):
        if isinstance(node, ast.If):
            test = node.test.operand if isinstance(node.test, ast.UnaryOp) else node.test
            if isinstance(test, ast.Name) and test.id == "ok":
                return getattr(test, "inferred_value", None)
    return None


def condition_carried_by_each_union_member(okval) -> bool:
    """The stored condition's value is a union (e.g. `bool | Any` for `x != 0` with x: int | None) and the narrowing
    constraint hangs on the members of that union rather than on the union as a whole."""
    try:
        from pyanalyze.stacked_scopes import ConstraintExtension
        from pyanalyze.value import AnnotatedValue, MultiValuedValue

        while isinstance(okval, AnnotatedValue):
            okval = okval.value
        return isinstance(okval, MultiValuedValue) and any(
            isinstance(m, AnnotatedValue) and any(True for _ in m.get_metadata_of_type(ConstraintExtension)) for m in okval.vals)
    except Exception:  # noqa: BLE001
        return False


STORED_CONDITION_KEY = "stored-condition|constraint-added-again-at-the-same-node-replaces-the-definitions-it-restricts-and-narrows-to-Never"


def carries_constraint(okval) -> bool:
    try:
        from pyanalyze.stacked_scopes import NULL_CONSTRAINT, extract_constraints

        return extract_constraints(okval) is not NULL_CONSTRAINT
    except Exception:  # noqa: BLE001
        return False


PROMOTION_REMAINDER_KEY = "numeric-promotion|remainder-of-a-failed-isinstance-is-a-union-that-the-next-constraint-of-a-stored-chain-drops"


def _numeric_tower_classes(t) -> list:
    """[(class, under_type)] for float/complex mentioned in t, also inside type[...]."""
    if t is None:
        return []
    if t.kind == "Union":
        return [x for m in t.args for x in _numeric_tower_classes(m)]
    if t.kind == "TypeOf":
        return [(k, True) for k, _ in _numeric_tower_classes(t.args[0])]
    if t.kind == "Cls" and t.extra in (float, complex):
        return [(t.extra, False)]
    return []


def promoted_numeric_failing_isinstance(o, v: Ty, tested) -> bool:
    """o belongs to a declared float/complex only through the numeric promotion (an int where float is declared, an int
    or float where complex is declared; or those classes under type[...]) and fails a tested isinstance()/issubclass()
    against float/complex: pyanalyze keeps it as the union `float | int` left by the failed check, and - when the
    condition was stored as an and/or chain - hands that union unflattened to the next constraint, which drops it."""
    for d, under_type in _numeric_tower_classes(v):
        for k, k_under_type in _numeric_tower_classes(tested):
            if under_type != k_under_type:
                continue
            try:
                if under_type:
                    if isinstance(o, type) and issubclass(o, (int, float)) and not issubclass(o, d) and not issubclass(o, k):
                        return True
                elif isinstance(o, (int, float)) and not isinstance(o, d) and not isinstance(o, k):
                    return True
            except Exception:  # noqa: BLE001
                pass
    return False


def lost_key(c, tag, o, v: Ty, t: Ty, shape=None, okval=None) -> str:
    prims = set(prim_kinds(c.kind).split("+"))
    if prims & TRUTHY_KINDS and nominally_always_true(o, v):
        return "truthiness|falsy-member-of-type-assumed-always-true"
    if in_intersection_of_unrelated_classes(o, v, c.tested):
        return "intersection|instance-of-two-unrelated-classes-is-narrowed-away"
    # the stored condition's constraint is added more than once at the node that tests it: twice in one visit when
    # the condition's value is a union whose members each carry it, once per visit of a loop body
    if okval is not None and t.kind == "Never" and (condition_carried_by_each_union_member(okval) or shape in LOOPS and carries_constraint(okval)):
        return STORED_CONDITION_KEY
    if okval is not None and condition_carried_by_each_union_member(okval) and promoted_numeric_failing_isinstance(o, v, c.tested):
        return PROMOTION_REMAINDER_KEY
    return f"lost|{shape_prefix(shape)}{prim_kinds(c.kind)}|{'pos' if tag else 'neg'}|{type(o).__name__}|narrowed:{tkind(t)}"


def v_as_inferred(v: Ty) -> Ty:
    return v


def tkind(t: Ty) -> str:
    if t.kind == "Union":
        return "Union"
    if t.kind == "Cls":
        return f"Cls:{t.extra.__name__}"
    if t.kind == "Lit":
        return f"Lit:{type(t.extra.v).__name__}"
    return t.kind


def vkind_of_obj(o, v: Ty) -> str:
    return f"{type(o).__name__}-in-{vkind(v)}"[:60]


def cond_text(c: Cond) -> str:
    return c.src if c.src is not None else f"match x: case {c.pattern}{' if ' + c.guard if c.guard else ''}"


def wit(v, c, style, obj_src, shape=None, call=None):
    return {"declared": ty.render(v, 0), "style": style, "cond_src": c.src, "pattern": c.pattern, "kind": c.kind, "shape": shape,
            "call": [a.src if isinstance(a, universe.Item) else repr(a) for a in call] if call and shape else None,
            "tested": ty.render(c.tested) if c.tested is not None and c.tested.kind != "Opaque" else None,
            "eq_lits": [ty.lit_source(l) for l in c.eq_lits], "obj": obj_src, "guard": c.guard}


def shard(ctx) -> None:
    rng = ctx.rng
    conds = conditions(rng, ctx.tier == "thorough")
    conds += combos(rng.__class__(f"C02-combos/{ctx.seed}"), conds, ctx.pick(150, 1500))
    types = list(BASE_TYPES)
    if ctx.tier == "thorough":
        trng = rng.__class__(f"C02-types/{ctx.seed}")
        seen = {ty.render(t) for t in types}
        for _ in range(400):
            t = tygen.random_ty(trng, 2)
            if ty.render(t) not in seen and "MixTuple" not in ty.kinds(t) and "NewType" not in ty.kinds(t):
                seen.add(ty.render(t))
                types.append(t)
    work = []
    idx = 0
    srng = rng.__class__(f"C02-shapes/{ctx.seed}")  # consumed identically in every shard
    for v in types:
        for c in conds:
            idx += 1
            shape = srng.choice(SHAPES) if c.src is not None and srng.randrange(SHAPE_EVERY) == 0 else None
            if not ctx.mine(idx):
                continue
            if not applicable(v, c):
                continue
            work.append((v, c, idx % 2, None))
            if shape is not None:
                work.append((v, c, idx % 2, shape))
    for i in range(0, len(work), BATCH):
        check_batch(ctx, work[i : i + BATCH])


def replay(witness):
    from vp.core import Ctx
    from vp.props.c03 import _find_ty

    ctx = Ctx(ID, "quick", 0, 0, 1)
    ns = dict(ty.eval_ns())
    v = _find_ty(witness["declared"])
    tested = _find_ty(witness["tested"]) if witness.get("tested") else (ty.OPAQUE if witness["kind"].startswith("match-seq") or witness["kind"] in ("match-mapping", "callable") else None)
    c = Cond(witness["cond_src"], witness["kind"], tested, tuple(eval(l, ns) for l in witness.get("eq_lits", [])), witness.get("pattern"), witness.get("guard"))
    check_batch(ctx, [(v, c, witness.get("style", 0), witness.get("shape"))])
    for key, lst in ctx.violations.items():
        return key, lst[0]["what"]
    return None
