"""C02 — narrowing never loses the actual value and never widens.

Monitor: for (declared type V, condition c) the function
    def f(x: V):  if <c>: return __probe(1, x)  else: return __probe(0, x)
is checked by pyanalyze (annotate=True) and then CALLED on inhabitants of V. CPython decides which branch is taken;
the narrowed type read from the `x` node of each branch is judged with the membership oracle:
 (a) lost: the object reaching a branch is not a member of the type narrowed for that branch;
 (b) widened: a universe object belongs to the narrowed type but neither to V nor to the tested type;
 (c) always-true/false: a branch narrowed to Never (or a value_always_true / type_always_true diagnostic) although
     some inhabitant takes it.
One (V, c) pair in SHAPE_EVERY is tested a second time in another SHAPE (see SHAPES / render_func): the condition stored
in a variable and tested later - with x left alone, rebound from a second parameter on some paths, or on all paths -,
walrus, early return, conditional expression, while-test. There the object that reaches a branch may be the rebound one;
clause (a) is applied to whatever object reaches the probe.
Two more families of programs (run_cases): SEQUENCES of two conditions on one variable, the second tested inside each
branch of the first (SeqCase: four probes), and COMPOSITE subjects `x.a[0]['k']` of depth 1-3 with an assignment to a
prefix / the chain / a neighbour slot between the test and the read (CompCase); the value the subject has at the probe
is judged against the type narrowed there.
"""
from __future__ import annotations

import ast
import enum
import itertools
import re

from vp import harness, instrument, prelude, ty, tygen, universe
from vp.ty import Ty


class Perm(enum.Flag):
    """A flag enumeration: besides the named members R and W, Perm(0) and Perm.R | Perm.W are instances of it."""

    R = 1
    W = 2


ty._CLS_NAMES.setdefault(Perm, "Perm")  # source spelling for the generated modules (they import Perm from here)
PERM_ITEMS = [universe.Item(s_, eval(s_, {"Perm": Perm})) for s_ in ("Perm.R", "Perm.W", "Perm.R | Perm.W", "Perm(0)")]

ID = "C02"
LEVEL = "exploration"
RULE = (
    "case = (declared type V, condition kind with operands, polarity, shape); V enumerated over depth-1 leaves and depth-2 "
    "unions/Optional/tuples/generics/enums/type[...] (sampled deeper in thorough); conditions: isinstance / not isinstance "
    "(single class; every 2-tuple of classes from int/float/complex/bool/str/NoneType, the 3-tuples of the numeric tower and "
    "mixed ones), issubclass / not issubclass (single class, the same 2- and 3-tuples), is/is not, ==/!=, in/not in, "
    "truthiness, not, len comparisons, TypeIs and TypeGuard helpers, match patterns (class/literal/sequence), and their "
    "and/or combinations; every function is executed on inhabitants(V). Shape = how the condition reaches the branch: "
    "every (V, condition) is tested directly (`if c:`), and every 6th one additionally in one of 25 other shapes drawn per "
    "seed: condition stored in a variable and tested later (`ok = c ... if ok:` / `if not ok:`), with the tested variable "
    "left alone, rebound from a second parameter y: V on SOME paths only (if-body, else-body, for-body, while-body, "
    "try-body, except-body; taken or not according to a parameter r) or on all paths, stored and tested inside a loop "
    "that starts afterwards (for over a display / range / unknown iterable, while True, while <opaque>), walrus, early "
    "return, conditional expression, while-test; these are executed on (x, y, r) over inhabitants(V)^2 x {False, True} and the object "
    "that reaches a branch is judged against the type narrowed there. Non-trivial = narrowed type differs from V in some "
    "branch or a branch is Never; distinct by (constructor set of V, condition kind, shape). "
    "Added with the third seeding round: (1) ordering comparisons against int/float constants on either side (`x > 0`, `0 < x`, "
    "`x <= 1.5` ...; their positive branch is refined to Annotated[V, Gt/Ge/Lt/Le], judged by evaluating the bound), membership "
    "in collections of tuples / lists, declared Annotated[...] types (Gt, Ge+Le, Lt, MinLen, MaxLen on int/float/str/tuple/list) "
    "and a flag enumeration (whose instances include the empty and combined flags) as V; (2) SEQUENCES of two conditions on "
    "the same variable: for every ordered pair of condition-kind families (a kind and its plain negation are one family) one "
    "(V, c1, c2) per seed (4 in thorough; three times as many when c1 refines - ordering or len comparison - and c2 is a "
    "membership test), the best of 6 candidates by the number of branch outcomes CPython produces over inhabitants(V), rendered "
    "as `if c1: (if c2 / else) else: (if c2 / else)` with a probe in each of the four branches; (3) COMPOSITE subjects: the "
    "narrowed expression is a chain of 1-3 links below a parameter - attribute of a small mutable class, list index, dict key, "
    "pure and mixed chains (all 3^d link vectors in thorough) - whose leaf is declared V (8 unions); between the test and the "
    "read, in both branches, nothing / the root / every interior prefix / the parent / the chain itself / the neighbour slot of "
    "the last link (of every link in thorough) is assigned from a second parameter, by a plain, tuple-unpacking or for-target assignment or inside a nested "
    "block that only some paths run (if / else / for / while / try / except bodies selected by a parameter r); executed on "
    "inhabitants(V)^2 (x {False, True}) with freshly built objects, and whatever the chain evaluates to at the probe is judged "
    "against the type pyanalyze holds for the chain there."
)
ASSUMPTIONS = [
    "CPython evaluates the condition; vp.ty.member judges membership over inhabitants(V) and the universe U",
    "for ==/!=/in/not in (and match value patterns) objects whose equality with the tested literal crosses types "
    "(True == 1, 1.0 == 1, IntEnum == int) are excluded, as the property states",
    "UNKNOWN memberships are counted, never violations",
]
FLOORS = {
    "quick": {"distinct_nontrivial": 300, "functions": 3000, "branch_observations": 15000, "widening_checks": 3000,
              "shaped_functions": 1300, "rebound_object_observations": 20000, "class_tuple_functions": 1200,
              "seq_functions": 600, "seq_branch_observations": 3000, "seq_second_condition_on_refined_subject": 300,
              "seq_membership_test_on_refined_subject_taken": 25, "composite_functions": 500,
              "composite_branch_observations": 4500, "composite_depth3_interior_assignments": 30},
    "thorough": {"distinct_nontrivial": 500, "functions": 30000, "branch_observations": 150000,
                 "shaped_functions": 2600, "rebound_object_observations": 40000, "class_tuple_functions": 2400,
                 "seq_functions": 2600, "seq_branch_observations": 13000, "seq_second_condition_on_refined_subject": 1200,
                 "seq_membership_test_on_refined_subject_taken": 110, "composite_functions": 4500,
                 "composite_branch_observations": 40000, "composite_depth3_interior_assignments": 430},
}
BATCH = 60
SHAPE_EVERY = 6  # one (V, condition) pair in SHAPE_EVERY is additionally tested in a non-direct shape

I, S, F, BL, NONE = ty.Cls(int), ty.Cls(str), ty.Cls(float), ty.Cls(bool), ty.NONE
A, Bc, C = ty.Cls(prelude.A), ty.Cls(prelude.B), ty.Cls(prelude.C)
COLOR, NUM = ty.Cls(prelude.Color), ty.Cls(prelude.Num)
PERM = ty.Cls(Perm)

# declared types that already carry a custom check: Annotated[int, Gt(0)], Annotated[tuple[int, ...], MinLen(1)], ...
ANNOTATED_TYPES = [
    ty.Refine(I, [("gt", 0)]), ty.Refine(ty.VarTuple(I), [("minlen", 1)]), ty.Refine(I, [("ge", 0), ("le", 2)]),
    ty.Refine(F, [("lt", 1.5)]), ty.Refine(S, [("maxlen", 1)]), ty.Refine(ty.List(I), [("minlen", 1), ("maxlen", 2)]),
]
_CHECK_SRC = {"gt": "Gt", "ge": "Ge", "lt": "Lt", "le": "Le", "minlen": "MinLen", "maxlen": "MaxLen"}

BASE_TYPES = [
    I, BL, F, ty.Cls(complex), S, ty.Cls(bytes), NONE, ty.OBJECT, A, Bc, C, COLOR, NUM,
    ty.Lit(1), ty.Lit(True), ty.Lit("a"), ty.Lit(prelude.Color.RED),
    ty.Union(I, NONE), ty.Union(S, NONE), ty.Union(A, NONE), ty.Union(I, S), ty.Union(I, S, NONE), ty.Union(A, C), ty.Union(Bc, C),
    ty.Union(F, S), ty.Union(BL, S), ty.Union(F, NONE), ty.Union(F, I), ty.Union(COLOR, NONE), ty.Union(NUM, S),
    ty.Union(ty.Lit(1), ty.Lit(2)), ty.Union(ty.Lit("a"), ty.Lit("b")), ty.Union(ty.Lit(1), ty.Lit("a"), NONE),
    ty.Union(ty.Lit(prelude.Color.RED), ty.Lit(prelude.Color.GREEN)), ty.Union(ty.Lit(True), NONE), ty.Union(ty.Lit(0), ty.Lit("")),
    ty.Tuple(I, S), ty.Tuple(I, S, F), ty.Tuple(), ty.VarTuple(I), ty.VarTuple(ty.Union(I, S)), ty.Union(ty.Tuple(I, S), NONE),
    ty.Union(ty.Tuple(I), ty.Tuple(I, I)), ty.Union(ty.VarTuple(I), NONE),
    ty.List(I), ty.List(S), ty.Union(ty.List(I), NONE), ty.Union(I, ty.List(I)), ty.Union(ty.List(I), ty.Tuple(I, I)),
    ty.Dict(S, I), ty.Union(ty.Dict(S, I), NONE), ty.Set(I), ty.FrozenSet(I), ty.Seq(I), ty.Iter(I), ty.Union(S, ty.Cls(bytes)),
    ty.TypeOf(A), ty.TypeOf(ty.Union(A, C)), ty.TypeOf(I), ty.Union(ty.TypeOf(A), NONE), ty.Union(S, ty.List(S)),
    ty.TypeOf(F), ty.TypeOf(ty.Cls(complex)), ty.Union(ty.Cls(complex), NONE),
    ty.TypedDictT("TD1", {"a": (I, True), "b": (S, False)}),
    # added with the condition sequences: declared Annotated[...] types and a flag enumeration
    ANNOTATED_TYPES[0], PERM,
]

CLASSES = [("int", int), ("str", str), ("float", float), ("bool", bool), ("bytes", bytes), ("complex", complex), ("A", prelude.A),
           ("B", prelude.B), ("C", prelude.C), ("Color", prelude.Color), ("Num", prelude.Num), ("list", list), ("tuple", tuple),
           ("dict", dict), ("object", object), ("type(None)", type(None))]
LITERALS = ["1", "0", "2", "True", "False", "None", "'a'", "''", "'b'", "1.5", "b'a'", "Color.RED", "Color.GREEN", "Num.ONE", "A", "int",
            "Perm.R"]
# ordering comparisons against a constant (either side): the positive branch is refined to Annotated[V, Gt(k)] etc.
ORD_CONSTS = ["0", "2", "1.5"]
ORD_OPS = ("<", "<=", ">", ">=")

HELPERS = '''
from typing_extensions import TypeIs, TypeGuard, Annotated
import annotated_types
from vp.props.c02 import Perm
def is_int(x: object) -> TypeIs[int]:
    return isinstance(x, int)
def is_str(x: object) -> TypeIs[str]:
    return isinstance(x, str)
def guard_int(x: object) -> TypeGuard[int]:
    return isinstance(x, int)
def is_a(x: object) -> TypeIs[A]:
    return isinstance(x, A)
_tog = [False]
def opq() -> bool:
    _tog[0] = not _tog[0]
    return _tog[0]
def lim() -> int:
    return 1
def times(r: bool) -> typing.List[int]:
    return [0] if r else []
def need(r: bool) -> None:
    if not r:
        raise ValueError("no")
'''

# classes combined systematically into 2- and 3-tuples for isinstance()/issubclass()
TUPLE_POOL = ["int", "float", "complex", "bool", "str", "type(None)"]
NUMERIC = ["int", "float", "complex", "bool"]
MIXED_TRIPLES = [("float", "complex", "str"), ("int", "str", "type(None)")]


def class_tuples() -> list:
    """[(names, is_numeric_only)]: every pair from TUPLE_POOL, the triples of the numeric tower, two mixed triples."""
    import itertools

    out = [(p, all(n in NUMERIC for n in p)) for p in itertools.combinations(TUPLE_POOL, 2)]
    out += [(t, True) for t in itertools.combinations(NUMERIC, 3)]
    out += [(t, False) for t in MIXED_TRIPLES]
    return out


# ---- shapes: how the condition reaches the branch -------------------------------------------------------------
# name -> (family, uses (x, y, r), statements between `ok = <c>` and the test or None for the non-stored shapes)
REBINDS = {
    "none": None,
    "if": ["if r:", "    x = y"],
    "else": ["if r:", "    pass", "else:", "    x = y"],
    "for": ["for _i in times(r):", "    x = y"],
    "while": ["while r:", "    x = y", "    break"],
    "try": ["try:", "    need(r)", "    x = y", "except ValueError:", "    pass"],
    "except": ["try:", "    need(r)", "except ValueError:", "    x = y"],
    "all": ["x = y"],
}
# the stored condition is tested INSIDE a loop that starts after it was stored
LOOPS = {
    "stored-in-for-fixed": "for _i in [0, 1]:",      # the checker knows the loop body is entered
    "stored-in-for-unknown": "for _i in times(True):",
    "stored-in-for-range": "for _i in range(2):",
    "stored-in-while-true": "while True:",
    "stored-in-while-unknown": "while opq():",
}
SHAPES = [f"stored{'-not' if neg else ''}+rebind-{rb}" if rb != "none" else f"stored{'-not' if neg else ''}"
          for rb in REBINDS for neg in (False, True)] + ["walrus", "early-return", "ifexp", "while-test"] + list(LOOPS)


def shape_family(shape) -> str:
    if shape is None:
        return "direct"
    if "+rebind-all" in shape:
        return "stored+full-rebind"
    if "+rebind-" in shape:
        return "stored+partial-rebind"
    if shape in LOOPS:
        return "stored-in-loop"
    return "stored" if shape.startswith("stored") else shape


def rebinding_r(shape) -> tuple:
    """The values of the parameter r for which the shape's rebinding statement `x = y` is executed."""
    rb = shape.partition("+rebind-")[2]
    return {"else": (False,), "except": (False,), "all": (False, True)}.get(rb, (True,))


def shape_rebinds(shape) -> bool:
    return shape is not None and "+rebind-" in shape


class Cond:
    def __init__(self, src, kind, tested: Ty = None, eq_lits=(), pattern=None, guard=None):
        self.guard = guard      # guard expression of the match case (None = no guard)
        self.src = src          # uses variable name x
        self.kind = kind
        self.tested = tested    # Ty of the tested type (for the widening clause), None = nothing added
        self.eq_lits = eq_lits  # literal objects compared by equality (cross-type exclusion)
        self.pattern = pattern  # match pattern source or None


def eval_ns() -> dict:
    ns = dict(ty.eval_ns())
    ns["Perm"] = Perm
    return ns


def conditions(rng, thorough: bool) -> list:
    ns = eval_ns()
    out = []
    for name, c in CLASSES:
        out.append(Cond(f"isinstance(x, {name})", "isinstance", ty.Cls(c)))
        out.append(Cond(f"not isinstance(x, {name})", "not-isinstance", ty.Cls(c)))
    for (n1, c1), (n2, c2) in [(CLASSES[0], CLASSES[1]), (CLASSES[2], CLASSES[0]), (CLASSES[6], CLASSES[8]), (CLASSES[11], CLASSES[12]),
                               (CLASSES[3], CLASSES[1]), (CLASSES[9], CLASSES[10])]:
        out.append(Cond(f"isinstance(x, ({n1}, {n2}))", "isinstance-tuple", ty.Union(ty.Cls(c1), ty.Cls(c2))))
    by_name = dict(CLASSES)
    have = {c.src for c in out}
    for names, numeric in class_tuples():
        tested = ty.Union(*[ty.Cls(by_name[n]) for n in names])
        src = f"isinstance(x, ({', '.join(names)}))"
        if src not in have:
            out.append(Cond(src, "isinstance-tuple", tested))
        if numeric and len(names) == 2 or names == ("int", "float", "complex"):
            out.append(Cond(f"not {src}", "not-isinstance-tuple", tested))
    for name, c in CLASSES[:11]:
        out.append(Cond(f"issubclass(x, {name})", "issubclass", ty.TypeOf(ty.Cls(c))))
        out.append(Cond(f"not issubclass(x, {name})", "not-issubclass", ty.TypeOf(ty.Cls(c))))
    for names, numeric in class_tuples():
        if "type(None)" in names:
            continue
        tested = ty.TypeOf(ty.Union(*[ty.Cls(by_name[n]) for n in names]))
        out.append(Cond(f"issubclass(x, ({', '.join(names)}))", "issubclass-tuple", tested))
        if numeric and len(names) == 2:
            out.append(Cond(f"not issubclass(x, ({', '.join(names)}))", "not-issubclass-tuple", tested))
    for lit in LITERALS:
        v = eval(lit, ns)
        identity_ok = v is None or isinstance(v, (bool, prelude.Color, type, Perm)) or lit in ("Num.ONE",)
        if identity_ok:
            out.append(Cond(f"x is {lit}", "is", ty.Lit(v)))
            out.append(Cond(f"x is not {lit}", "is-not", ty.Lit(v)))
        if not isinstance(v, type):
            out.append(Cond(f"x == {lit}", "eq", ty.Lit(v), eq_lits=(v,)))
            out.append(Cond(f"x != {lit}", "ne", ty.Lit(v), eq_lits=(v,)))
    for l1, l2 in [("1", "2"), ("'a'", "'b'"), ("1", "'a'"), ("None", "1"), ("Color.RED", "Color.GREEN"), ("True", "None"), ("0", "''"),
                   ("Perm.R", "Perm.W")]:
        v1, v2 = eval(l1, ns), eval(l2, ns)
        out.append(Cond(f"x in ({l1}, {l2})", "in", ty.Union(ty.Lit(v1), ty.Lit(v2)), eq_lits=(v1, v2)))
        out.append(Cond(f"x not in ({l1}, {l2})", "not-in", ty.Union(ty.Lit(v1), ty.Lit(v2)), eq_lits=(v1, v2)))
    out.append(Cond("x", "truthy"))
    out.append(Cond("not x", "not-truthy"))
    out.append(Cond("bool(x)", "bool-call"))
    for op in ("==", "!=", "<", ">=", ">", "<="):
        for k in (0, 1, 2):
            out.append(Cond(f"len(x) {op} {k}", "len" + op))
    # the same comparisons with the operands swapped (the variable on the right)
    mirror = {"==": "==", "!=": "!=", "<": ">", ">=": "<=", ">": "<", "<=": ">="}
    for op in ("==", "!=", "<", ">=", ">", "<="):
        for k in (0, 1, 2, 3):
            out.append(Cond(f"{k} {mirror[op]} len(x)", "len-swapped" + op))
    for lit in ["1", "'a'", "None", "Color.RED", "True", "0"]:
        v = eval(lit, ns)
        if v is None or isinstance(v, (bool, prelude.Color)):
            out.append(Cond(f"{lit} is x", "is-swapped", ty.Lit(v)))
            out.append(Cond(f"{lit} is not x", "is-not-swapped", ty.Lit(v)))
        out.append(Cond(f"{lit} == x", "eq-swapped", ty.Lit(v), eq_lits=(v,)))
        out.append(Cond(f"{lit} != x", "ne-swapped", ty.Lit(v), eq_lits=(v,)))
    # membership in a str / bytes is substring containment, not element equality
    out.append(Cond("x in 'ab'", "in-str", S))
    out.append(Cond("x not in 'ab'", "not-in-str", S))
    out.append(Cond("x in b'ab'", "in-bytes", ty.Cls(bytes)))
    # membership in other containers of literals
    out.append(Cond("x in [1, 2]", "in-list", ty.Union(ty.Lit(1), ty.Lit(2)), eq_lits=(1, 2)))
    out.append(Cond("x in {'a', 'b'}", "in-set", ty.Union(ty.Lit("a"), ty.Lit("b")), eq_lits=("a", "b")))
    out.append(Cond("x in {'a': 0, 'b': 1}", "in-dict", ty.Union(ty.Lit("a"), ty.Lit("b")), eq_lits=("a", "b")))
    out.append(Cond("x not in [1, 2]", "not-in-list", ty.Union(ty.Lit(1), ty.Lit(2)), eq_lits=(1, 2)))
    out.append(Cond("is_int(x)", "TypeIs", I))
    out.append(Cond("is_str(x)", "TypeIs", S))
    out.append(Cond("is_a(x)", "TypeIs", A))
    out.append(Cond("guard_int(x)", "TypeGuard", I))
    out.append(Cond("callable(x)", "callable", ty.OPAQUE))
    for op in ORD_OPS:
        for k in ORD_CONSTS:
            out.append(Cond(f"x {op} {k}", "ord" + op))
            out.append(Cond(f"{k} {op} x", "ord-swapped" + op))
    out.append(Cond("x in ((1,), (2, 3))", "in", ty.Union(ty.Lit((1,)), ty.Lit((2, 3))), eq_lits=((1,), (2, 3))))
    out.append(Cond("x in ([1], [1, 2])", "in", ty.Union(ty.Lit([1]), ty.Lit([1, 2])), eq_lits=([1], [1, 2])))
    # match patterns (the positive branch is the case body, the negative the fall-through `case _`)
    for name, c in CLASSES[:11]:
        out.append(Cond(None, "match-class", ty.Cls(c), pattern=f"{name}()"))
    for lit in ["1", "'a'", "None", "True", "Color.RED", "0", "Perm.R"]:
        v = eval(lit, ns)
        out.append(Cond(None, "match-literal", ty.Lit(v), eq_lits=() if v is None or isinstance(v, bool) else (v,), pattern=lit))
    out.append(Cond(None, "match-sequence", ty.OPAQUE, pattern="[_a, _b]"))
    out.append(Cond(None, "match-sequence", ty.OPAQUE, pattern="[]"))
    out.append(Cond(None, "match-sequence-star", ty.OPAQUE, pattern="[_a, *_rest]"))
    out.append(Cond(None, "match-mapping", ty.OPAQUE, pattern="{'a': _a}"))
    out.append(Cond(None, "match-or", ty.Union(ty.Lit(1), ty.Lit(2)), eq_lits=(1, 2), pattern="1 | 2"))
    out.append(Cond(None, "match-or-class", ty.Union(I, S), pattern="int() | str()"))
    # the same patterns behind a guard the checker cannot evaluate: an object that matches the pattern but fails the
    # guard falls through to the later case, so the negative branch must still contain it
    for c in list(out):
        if c.pattern is not None and c.kind in ("match-class", "match-literal", "match-or", "match-or-class"):
            out.append(Cond(None, c.kind + "+opaque-guard", c.tested, eq_lits=c.eq_lits, pattern=c.pattern, guard="opq()"))
    out.append(Cond(None, "match-capture+opaque-guard", ty.OBJECT, pattern="_y", guard="opq()"))
    out.append(Cond(None, "match-wildcard+opaque-guard", ty.OBJECT, pattern="_", guard="lim() > 1"))
    return out


def combos(rng, conds, n) -> list:
    plain = [c for c in conds if c.src is not None]
    out = []
    for _ in range(n):
        a, b = rng.choice(plain), rng.choice(plain)
        op = rng.choice(["and", "or"])
        tested = None if a.tested is None or b.tested is None else ty.Union(a.tested, b.tested)
        if a.tested is None and b.tested is not None:
            tested = b.tested
        if b.tested is None and a.tested is not None:
            tested = a.tested
        out.append(Cond(f"({a.src}) {op} ({b.src})", f"{op}({a.kind},{b.kind})", tested, eq_lits=a.eq_lits + b.eq_lits))
    return out


def applicable(v: Ty, c: Cond) -> bool:
    """Skip combinations pyanalyze rejects up-front or that raise for every inhabitant (len of an int...)."""
    if c.kind.startswith("len") or "len" in c.kind:
        ms = v.args if v.kind == "Union" else (v,)
        return all(m.kind in ("List", "Set", "FrozenSet", "Dict", "Tuple", "VarTuple", "Seq", "TypedDict") or
                   (m.kind == "Cls" and m.extra in (str, bytes)) for m in ms)
    if c.kind == "issubclass" or "issubclass" in c.kind:
        ms = v.args if v.kind == "Union" else (v,)
        return all(m.kind == "TypeOf" for m in ms)
    if re.search(r"\bord", c.kind):
        ms = v.args if v.kind == "Union" else (v,)
        return all(_orderable(m) for m in ms)
    text = c.src or c.pattern or ""
    if "Perm" in text:  # conditions on the flag enumeration: only where a Perm can occur
        return v.kind == "Object" or PERM in (v.args if v.kind == "Union" else (v,))
    if "(1,)" in text or "[1]" in text:  # membership in a collection of tuples / lists
        return v.kind == "Object" or any(_base(m).kind in ("Tuple", "VarTuple", "List") for m in (v.args if v.kind == "Union" else (v,)))
    return True


def _base(m: Ty) -> Ty:
    return m.args[0] if m.kind == "Refine" else m


def _orderable(m: Ty) -> bool:
    """Every member of m can be compared with an int or float constant by < <= > >=."""
    if m.kind == "Refine":
        return _orderable(m.args[0])
    if m.kind == "Cls":
        return m.extra in (int, float, bool, prelude.Num)
    return m.kind == "Lit" and isinstance(m.extra.v, (int, float))


def render_ann(v: Ty, style: int = 0) -> str:
    """ty.render, plus the source spelling of declared Annotated[...] types (top level or as a union member)."""
    if v.kind == "Refine":
        checks = ", ".join(f"annotated_types.{_CHECK_SRC[op]}({bound!r})" for op, bound in v.extra)
        return f"Annotated[{ty.render(v.args[0], style)}, {checks}]"
    if v.kind == "Union" and any(a.kind == "Refine" for a in v.args):
        return "Union[" + ", ".join(render_ann(a, style) for a in v.args) + "]"
    return ty.render(v, style)


def inhab(v: Ty, rng, limit: int) -> list:
    """universe.inhabitants, extended to the declared Annotated[...] types and to the flag enumeration."""
    if v.kind == "Refine":
        return [it for it in inhab(v.args[0], rng, 40) if ty.member(it.obj, v) is True][:limit]
    if v.kind == "Union" and any(a.kind == "Refine" or a == PERM for a in v.args):
        per = max(2, limit // len(v.args))
        return [it for a in v.args for it in inhab(a, rng, per)]
    if v == PERM:
        return list(PERM_ITEMS)
    return universe.inhabitants(v, rng, limit)


def render_func(name: str, v: Ty, c: Cond, style: int, shape=None) -> list:
    ann = render_ann(v, style)
    if shape is not None:
        pos, neg = "return __probe(1, x)", "return __probe(0, x)"
        if shape in LOOPS:
            # the branches do not leave the loop, so what they know about x flows around the back edge
            leave = ["        if opq():", "            break"] if shape == "stored-in-while-true" else []
            return [f"def {name}(x: {ann}):", f"    ok = {c.src}", "    " + LOOPS[shape], "        if ok:", "            __probe(1, x)",
                    "        else:", "            __probe(0, x)"] + leave + ["    return None"]
        if shape.startswith("stored"):
            head, _, rb = shape.partition("+rebind-")
            mid = REBINDS[rb or "none"] or []
            sig = f"def {name}(x: {ann}, y: {ann}, r: bool):" if rb else f"def {name}(x: {ann}):"
            test = ["if not ok:", "    " + neg, "else:", "    " + pos] if head == "stored-not" else ["if ok:", "    " + pos, "else:", "    " + neg]
            return [sig, f"    ok = {c.src}"] + ["    " + l for l in mid + test]
        sig = f"def {name}(x: {ann}):"
        if shape == "walrus":
            return [sig, f"    if (ok := {c.src}):", "        " + pos, "    else:", "        " + neg]
        if shape == "early-return":
            return [sig, f"    if not ({c.src}):", "        " + neg, "    " + pos]
        if shape == "ifexp":
            return [sig, f"    return __probe(1, x) if {c.src} else __probe(0, x)"]
        if shape == "while-test":
            return [sig, f"    while {c.src}:", "        " + pos, "    " + neg]
        raise ValueError(shape)
    if c.pattern is not None:
        return [
            f"def {name}(x: {ann}):",
            "    match x:",
            f"        case {c.pattern}{' if ' + c.guard if c.guard else ''}:",
            "            return __probe(1, x)",
            "        case _:",
            "            return __probe(0, x)",
        ]
    return [f"def {name}(x: {ann}):", f"    if {c.src}:", "        return __probe(1, x)", "    else:", "        return __probe(0, x)"]


def cross_type_equal(o, lits) -> bool:
    for l in lits:
        try:
            if o == l and (type(o) is not type(l) or isinstance(l, (tuple, list)) and ty.lit_equal(o, l) is not True):
                return True
        except Exception:  # noqa: BLE001
            return True
    return False


def has_user_eq(o) -> bool:
    return type(o).__module__ == "vp.prelude" and "__eq__" in type(o).__dict__ or any("__eq__" in k.__dict__ for k in type(o).__mro__[:-1] if k.__module__ == "vp.prelude")


def vkind(v: Ty) -> str:
    if v.kind == "Union":
        return "Union(" + ",".join(sorted({vkind(a) for a in v.args})) + ")"
    if v.kind == "Cls":
        return v.extra.__name__
    if v.kind == "Lit":
        return f"Lit:{type(v.extra.v).__name__}"
    return v.kind


def check_batch(ctx, batch) -> None:
    """batch: list of (V, Cond, style, shape) - shape None is the direct `if <c>:` form."""
    batch = [b if len(b) == 4 else (*b, None) for b in batch]
    lines = ["from vp.prelude import *", "import typing", HELPERS]
    names = []
    for i, (v, c, style, shape) in enumerate(batch):
        names.append(f"f{i}")
        lines += render_func(f"f{i}", v, c, style, shape) + [""]
    source = "\n".join(lines) + "\n"
    probes = []

    def probe(tag, value):
        probes.append((tag, value))
        return value

    try:
        ins = instrument.Instrumented(source, extra_scope={"__probe": probe}, observed=())
    except Exception as e:  # noqa: BLE001
        ctx.count("modules_not_importable")
        ctx.note(f"module not importable: {e!r}")
        return
    try:
        res = harness.run(source, tree=ins.tree, module=ins.module, annotate=True, mode="all",
                          overrides={"unused_variable": False, "missing_return_annotation": False, "missing_parameter_annotation": False,
                                     "suggested_return_type": False, "suggested_parameter_type": False, "implicit_any": False,
                                     "missing_return": False})
        if res.exception is not None:
            ctx.count("checker_raised")
            return
        funcs = {n.name: n for n in ins.tree.body if isinstance(n, ast.FunctionDef)}
        diags_by_func = {}
        for d in res.diags:
            for name, fn in funcs.items():
                if d.lineno is not None and fn.lineno <= d.lineno <= fn.end_lineno:
                    diags_by_func.setdefault(name, []).append(d)
        for i, (v, c, style, shape) in enumerate(batch):
            fn = funcs[f"f{i}"]
            ds = diags_by_func.get(f"f{i}", [])
            codes = {d.code for d in ds}
            ctx.count("evaluations")
            ctx.count("functions")
            if shape is not None:
                ctx.count("shaped_functions")
                ctx.histo("shape", shape)
            if c.kind.endswith("-tuple"):
                ctx.count("class_tuple_functions")
            if codes & {"incompatible_argument", "incompatible_call", "unsupported_operation", "undefined_name", "internal_error",
                        "undefined_attribute", "not_callable", "bad_match", "impossible_pattern", "invalid_annotation"}:
                ctx.count("functions_rejected_by_checker")
                ctx.histo("rejected_kind", c.kind.split("(")[0])
                continue
            # narrowed types per branch
            narrowed = {}
            for node in ast.walk(fn):
                if isinstance(node, ast.Call) and isinstance(node.func, ast.Name) and node.func.id == "__probe":
                    tag = node.args[0].value
                    xnode = node.args[1]
                    if hasattr(xnode, "inferred_value"):
                        narrowed[tag] = (ty.from_value(xnode.inferred_value), xnode.inferred_value)
            if len(narrowed) != 2:
                ctx.count("branches_not_annotated")
                continue
            always = {"value_always_true": 1, "type_always_true": 1, "type_does_not_support_bool": None}
            claimed_always_true = any(d.code in ("value_always_true", "type_always_true") for d in ds)
            rebinds = shape_rebinds(shape)
            inh = inhab(v, ctx.rng, 8 if rebinds else 10)
            f = getattr(ins.module, f"f{i}")
            taken = {0: [], 1: []}
            # argument tuples: (x,) - or, when the shape rebinds x from y on the paths selected by r, (x, y, r)
            # (every y when r selects the rebinding path, one y when it selects the path that leaves x alone)
            calls = [(it,) for it in inh] if not rebinds else [(it, y, r) for it in inh for r in (False, True)
                                                               for y in (inh if r in rebinding_r(shape) else inh[:1])]
            for call in calls:
                it = call[0]
                if c.eq_lits and (cross_type_equal(it.obj, c.eq_lits) or has_user_eq(it.obj)):
                    ctx.count("objects_excluded_cross_type_eq")
                    continue
                del probes[:]
                try:
                    f(*[a.obj if isinstance(a, universe.Item) else a for a in call])
                    if c.guard:
                        f(it.obj)  # the opaque guard alternates: observe both outcomes
                except Exception as e:  # noqa: BLE001
                    ctx.histo("runtime_exceptions", type(e).__name__)
                    continue
                if not probes:
                    continue
                observed = list(probes)
                for tag, value in observed:
                    taken[tag].append(it)
                    ctx.count("branch_observations")
                    if rebinds and value is not it.obj:
                        ctx.count("rebound_object_observations")
                    t, val = narrowed[tag]
                    m = ty.member(value, t)
                    if m is None:
                        ctx.count("membership_unknown")
                    elif m is False:
                        key = lost_key(c, tag, value, v, t, shape, stored_condition_value(fn), subject_types_at_tests(fn))
                        if shape is None:
                            what = f"x: {ty.render(v)}; condition `{cond_text(c)}` is {bool(tag)} for {it.src}, but the {'positive' if tag else 'negative'} branch narrows x to {val}"
                        else:
                            args = ", ".join(a.src if isinstance(a, universe.Item) else repr(a) for a in call)
                            what = (f"shape {shape}: f({args}) reaches the {'positive' if tag else 'negative'} branch with x = {value!r}, "
                                    f"but pyanalyze narrows x to {val} there\n" + "\n".join(render_func("f", v, c, 0, shape)))
                        ctx.violation(key, what, wit(v, c, style, it.src, shape, call))
            # (c) always-true / always-false verdicts
            if shape is None and claimed_always_true and taken[0] and c.kind in ("truthy", "not-truthy", "bool-call"):
                it = taken[0][0] if c.kind != "not-truthy" else (taken[1][0] if taken[1] else None)
                if it is not None:
                    ctx.violation("truthiness|falsy-member-of-type-assumed-always-true" if nominally_always_true(it.obj, v) else f"always-true-wrong|{c.kind}|{type(it.obj).__name__}",
                                  f"x: {ty.render(v)}; pyanalyze reports {sorted(codes & {'value_always_true', 'type_always_true'})} but {it.src} is falsy",
                                  wit(v, c, style, it.src))
            # (b) widening over U
            tested = c.tested
            if tested is not None and tested.kind != "Opaque" or c.tested is None:
                for tag in (0, 1):
                    t, val = narrowed[tag]
                    if not ty.is_informative(t) and v.kind != "Object":
                        pass
                    allowed = ty.Union(v, tested) if tested is not None else v
                    bad = universe.subset_over_u(t, allowed)
                    ctx.count("widening_checks")
                    if bad is not None:
                        key = f"widened|{shape_prefix(shape)}{prim_kinds(c.kind)}|{'pos' if tag else 'neg'}|{vkind(v)}|narrowed:{tkind(t)}"
                        ctx.violation(key, f"x: {ty.render(v)}; condition `{cond_text(c)}` {'(shape ' + shape + ') ' if shape else ''}{'positive' if tag else 'negative'} branch narrows x to {val}, which admits {bad.src} (neither in the declared nor in the tested type)",
                                      wit(v, c, style, bad.src, shape))
            changed = any(narrowed[tag][0] != v_as_inferred(v) for tag in (0, 1))
            if any(narrowed[tag][0].kind == "Never" for tag in (0, 1)) or changed:
                ctx.nontrivial((sorted(ty.kinds(v)), c.kind) if shape is None else (sorted(ty.kinds(v)), c.kind, shape))
            ctx.histo("cond_kind_x_outcome", f"{c.kind.split('(')[0]}:pos={len(taken[1])},neg={len(taken[0])}"[:40] if False else c.kind.split("(")[0])
        if len(ctx.samples) < 3:
            v, c, style, shape = batch[0]
            ctx.sample({"declared": ty.render(v), "condition": cond_text(c)})
    finally:
        ins.dispose()


def prim_kinds(kind: str) -> str:
    """and(isinstance,truthy) -> 'isinstance+truthy' (the primitive condition kinds involved, order-free)."""
    import re

    prims = sorted(set(re.findall(r"[A-Za-z][A-Za-z\-<>=!]*", kind)) - {"and", "or"})
    return "+".join(prims)


TRUTHY_KINDS = {"truthy", "not-truthy", "bool-call"}


def nominally_always_true(o, v: Ty) -> bool:
    """o is falsy, yet belongs to a member of V that by itself defines neither __bool__ nor __len__."""
    try:
        if bool(o):
            return False
    except Exception:  # noqa: BLE001
        return False
    for m in (v.args if v.kind == "Union" else (v,)):
        if m.kind == "Iter" and ty.member(o, m) is True:
            return True
        if m.kind in ("Cls", "Object") and ty.member(o, m) is True:
            c = m.extra if m.kind == "Cls" else object
            if "__bool__" not in dir(c) and "__len__" not in dir(c) and c is not type(o):
                return True
    return False


def _classes_of(t) -> list:
    if t is None:
        return []
    if t.kind == "Union":
        return [c for m in t.args for c in _classes_of(m)]
    if t.kind == "Cls" and isinstance(t.extra, type):
        return [t.extra]
    return []


def in_intersection_of_unrelated_classes(o, v: Ty, tested) -> bool:
    """o is an instance of a declared class D and of a tested class T that are unrelated (neither is a subclass of the
    other): only a type that is a subclass of both - an intersection pyanalyze cannot express - contains it."""
    for d in _classes_of(v):
        for t in _classes_of(tested):
            if d is object or t is object or issubclass(d, t) or issubclass(t, d):
                continue
            if isinstance(o, d) and isinstance(o, t):
                return True
    return False


def shape_prefix(shape) -> str:
    return "" if shape is None else shape_family(shape) + "|"


def stored_condition_value(fn: ast.FunctionDef):
    """The value pyanalyze inferred for the stored condition `ok` where it is tested (None for other shapes)."""
    for node in ast.walk(fn):
        if isinstance(node, ast.If):
            test = node.test.operand if isinstance(node.test, ast.UnaryOp) else node.test
            if isinstance(test, ast.Name) and test.id == "ok":
                return getattr(test, "inferred_value", None)
    return None


def condition_carried_by_each_union_member(okval) -> bool:
    """The stored condition's value is a union (e.g. `bool | Any` for `x != 0` with x: int | None) and the narrowing
    constraint hangs on the members of that union rather than on the union as a whole."""
    try:
        from pyanalyze.stacked_scopes import ConstraintExtension
        from pyanalyze.value import AnnotatedValue, MultiValuedValue

        while isinstance(okval, AnnotatedValue):
            okval = okval.value
        return isinstance(okval, MultiValuedValue) and any(
            isinstance(m, AnnotatedValue) and any(True for _ in m.get_metadata_of_type(ConstraintExtension)) for m in okval.vals)
    except Exception:  # noqa: BLE001
        return False


STORED_CONDITION_KEY = "stored-condition|constraint-added-again-at-the-same-node-replaces-the-definitions-it-restricts-and-narrows-to-Never"


def carries_constraint(okval) -> bool:
    try:
        from pyanalyze.stacked_scopes import NULL_CONSTRAINT, extract_constraints

        return extract_constraints(okval) is not NULL_CONSTRAINT
    except Exception:  # noqa: BLE001
        return False


PROMOTION_REMAINDER_KEY = "numeric-promotion|remainder-of-a-failed-isinstance-is-a-union-that-the-next-constraint-of-a-stored-chain-drops"


def _numeric_tower_classes(t) -> list:
    """[(class, under_type)] for float/complex mentioned in t, also inside type[...]."""
    if t is None:
        return []
    if t.kind == "Union":
        return [x for m in t.args for x in _numeric_tower_classes(m)]
    if t.kind == "TypeOf":
        return [(k, True) for k, _ in _numeric_tower_classes(t.args[0])]
    if t.kind == "Cls" and t.extra in (float, complex):
        return [(t.extra, False)]
    return []


def promoted_numeric_failing_isinstance(o, v: Ty, tested) -> bool:
    """o belongs to a declared float/complex only through the numeric promotion (an int where float is declared, an int
    or float where complex is declared; or those classes under type[...]) and fails a tested isinstance()/issubclass()
    against float/complex: pyanalyze keeps it as the union `float | int` left by the failed check, and - when the
    condition was stored as an and/or chain - hands that union unflattened to the next constraint, which drops it."""
    for d, under_type in _numeric_tower_classes(v):
        for k, k_under_type in _numeric_tower_classes(tested):
            if under_type != k_under_type:
                continue
            try:
                if under_type:
                    if isinstance(o, type) and issubclass(o, (int, float)) and not issubclass(o, d) and not issubclass(o, k):
                        return True
                elif isinstance(o, (int, float)) and not isinstance(o, d) and not isinstance(o, k):
                    return True
            except Exception:  # noqa: BLE001
                pass
    return False


def lost_key(c, tag, o, v: Ty, t: Ty, shape=None, okval=None, mids=()) -> str:
    prims = set(prim_kinds(c.kind).split("+"))
    if prims & TRUTHY_KINDS and nominally_always_true(o, v):
        return "truthiness|falsy-member-of-type-assumed-always-true"
    if in_intersection_of_unrelated_classes(o, v, c.tested):
        return "intersection|instance-of-two-unrelated-classes-is-narrowed-away"
    if unmirrored_bound((c,), o, [t] + list(mids)):
        return UNMIRRORED_KEY
    if dropped_flag((c,), o, t):
        return FLAG_KEY
    # the stored condition's constraint is added more than once at the node that tests it: twice in one visit when
    # the condition's value is a union whose members each carry it, once per visit of a loop body
    if okval is not None and t.kind == "Never" and (condition_carried_by_each_union_member(okval) or shape in LOOPS and carries_constraint(okval)):
        return STORED_CONDITION_KEY
    if okval is not None and condition_carried_by_each_union_member(okval) and promoted_numeric_failing_isinstance(o, v, c.tested):
        return PROMOTION_REMAINDER_KEY
    return f"lost|{shape_prefix(shape)}{prim_kinds(c.kind)}|{'pos' if tag else 'neg'}|{type(o).__name__}|narrowed:{tkind(t)}"


def v_as_inferred(v: Ty) -> Ty:
    return v


def tkind(t: Ty) -> str:
    if t.kind == "Union":
        return "Union"
    if t.kind == "Cls":
        return f"Cls:{t.extra.__name__}"
    if t.kind == "Lit":
        return f"Lit:{type(t.extra.v).__name__}"
    return t.kind


def vkind_of_obj(o, v: Ty) -> str:
    return f"{type(o).__name__}-in-{vkind(v)}"[:60]


def cond_text(c: Cond) -> str:
    return c.src if c.src is not None else f"match x: case {c.pattern}{' if ' + c.guard if c.guard else ''}"


def wit(v, c, style, obj_src, shape=None, call=None):
    return {"declared": ty.render(v, 0), "style": style, "cond_src": c.src, "pattern": c.pattern, "kind": c.kind, "shape": shape,
            "call": [a.src if isinstance(a, universe.Item) else repr(a) for a in call] if call and shape else None,
            "tested": ty.render(c.tested) if c.tested is not None and c.tested.kind != "Opaque" else None,
            "eq_lits": [ty.lit_source(l) for l in c.eq_lits], "obj": obj_src, "guard": c.guard}


# =====================================================================================================================
# Condition SEQUENCES (the second condition tested inside each branch of the first) and COMPOSITE subjects (x.a.b.c,
# x[0]['k'].a ... with an assignment to a prefix between the test and the read). Both are rendered as functions with
# tagged probes, executed on inhabitants and judged by run_cases().

SEQ_TYPES = [
    I, F, BL, S, NUM, COLOR, ty.OBJECT, ty.Union(I, NONE), ty.Union(I, S), ty.Union(I, S, NONE), ty.Union(F, I), ty.Union(F, S),
    ty.Union(ty.Lit(1), ty.Lit(2)), ty.Union(ty.Lit("a"), ty.Lit("b")), ty.Union(ty.Lit(1), ty.Lit("a"), NONE),
    ty.Union(A, C), ty.Union(A, NONE), ty.Union(COLOR, NONE), ty.Union(BL, S), ty.VarTuple(I), ty.Tuple(I, S),
    ty.Union(ty.Tuple(I), ty.Tuple(I, I)), ty.List(I), ty.Union(ty.List(I), NONE), ty.Union(S, ty.List(S)), ty.Dict(S, I),
    ty.Union(S, ty.Cls(bytes)), ty.TypeOf(ty.Union(A, C)), ty.TypeOf(I), ty.TypeOf(F), PERM, ty.Union(PERM, NONE),
] + ANNOTATED_TYPES

# declared types of the LEAF of a composite subject
COMP_LEAVES = [
    ty.Union(I, NONE), ty.Union(I, S), ty.Union(A, NONE), ty.Union(COLOR, NONE), ty.Union(ty.Lit(1), ty.Lit(2)),
    ty.Union(S, NONE), ty.Union(ty.List(I), NONE), ty.Union(F, I),
]
LINK_SRC = {"a": ".a", "l": "[0]", "d": "['k']"}
SIBLING_SRC = {"a": ".s", "l": "[1]", "d": "['z']"}
LINK_NAME = {"a": "attr", "l": "list", "d": "dict"}
# how the prefix is assigned: unconditionally (three target syntaxes), or inside a nested block that only some paths
# (selected by the parameter r) run through - the statements of REBINDS with the prefix as the target
NESTED_FORMS = [f"nested-{rb}" for rb in ("if", "else", "for", "while", "try", "except")]
ASSIGN_FORMS = ["plain", "plain", "unpack", "for-target"] + NESTED_FORMS
STALE_AFTER_MERGE_KEY = ("composite|assignment-to-a-prefix-inside-a-nested-block-is-forgotten-at-the-merge-"
                         "and-the-narrowing-of-the-longer-chain-survives")
UNMIRRORED_KEY = "ordering-comparison|constant-on-the-left-refines-with-the-written-operator-instead-of-the-mirrored-one"
FLAG_KEY = "enum-flag|failed-equality-expands-the-class-into-its-named-members-and-drops-combined-and-empty-flags"


def _subst(src: str, subject: str) -> str:
    return re.sub(r"\bx\b", subject, src)


_COND_CODE = {}


def _holds(c: Cond, obj, ns) -> object:
    """CPython's verdict of the condition on obj (None when it raises)."""
    code = _COND_CODE.get(c.src)
    if code is None:
        code = _COND_CODE[c.src] = compile(c.src, "<cond>", "eval")
    try:
        return bool(eval(code, ns, {"x": obj}))
    except Exception:  # noqa: BLE001
        return None


_HELPER_NS = None


def helper_ns() -> dict:
    global _HELPER_NS
    if _HELPER_NS is None:
        ns = eval_ns()
        exec("import typing\n" + HELPERS, ns)
        _HELPER_NS = ns
    return _HELPER_NS


class SeqCase:
    """def f(x: V): if c1: (if c2: probe 3 else: probe 2) else: (if c2: probe 1 else: probe 0)."""

    shape = "seq"
    tags = (0, 1, 2, 3)

    def __init__(self, v: Ty, c1: Cond, c2: Cond, style: int = 0):
        self.v, self.c1, self.c2, self.style = v, c1, c2, style
        self.conds = (c1, c2)
        self.eq_lits = tuple(c1.eq_lits) + tuple(c2.eq_lits)
        self.kind = f"{prim_kinds(c1.kind)}>{prim_kinds(c2.kind)}"

    def lines(self, name, classes, header) -> list:
        return [f"def {name}(x: {render_ann(self.v, self.style)}):",
                f"    if {self.c1.src}:", f"        if {self.c2.src}:", "            return __probe(3, x)", "        else:", "            return __probe(2, x)",
                "    else:", f"        if {self.c2.src}:", "            return __probe(1, x)", "        else:", "            return __probe(0, x)"]

    fixed = None  # replay: the recorded inhabitant(s) instead of a fresh draw

    def calls(self, module, rng):
        for it in ([self.fixed[0]] if self.fixed else inhab(self.v, rng, 10)):
            yield (it.obj,), it.src, [it]

    def allowed(self):
        ts = [c.tested for c in self.conds if c.tested is not None]
        return None if any(t.kind == "Opaque" for t in ts) else ty.Union(self.v, *ts)

    def branch(self, tag) -> str:
        return f"{'pos' if tag & 2 else 'neg'}>{'pos' if tag & 1 else 'neg'}"

    def describe(self) -> str:
        return f"x: {ty.render(self.v)}; `{self.c1.src}` then, inside each of its branches, `{self.c2.src}`"

    def key_head(self) -> str:
        return f"seq|{self.kind}"

    def distinct(self):
        return (sorted(ty.kinds(self.v)), "seq", self.c1.kind, self.c2.kind)

    def witness(self, obj_src, leaves=(), args=()):
        return {"shape": "seq", "declared": ty.render(self.v, 0), "style": self.style, "c1": cond_wit(self.c1), "c2": cond_wit(self.c2),
                "obj": obj_src, "leaves": [it.src for it in leaves]}


class CompCase:
    """def f(x: T0, y: Tp[, r: bool]): if c(<chain of x>): <prefix> = y; probe(1, <chain>) else: <prefix> = y; probe(0, <chain>).
    links: string over a (attribute .a), l (list index [0]), d (dict key ['k']); the leaf is declared V.
    assign: None | ("prefix", p) with 0 <= p <= depth (0 = the root variable, depth = the chain itself) |
    ("sibling", j) with 1 <= j <= depth (the neighbour slot of link j: .s, [1], ['z'])."""

    shape = "composite"
    tags = (0, 1)
    fixed = None  # replay: the recorded leaf objects [a, b] instead of a fresh draw

    def __init__(self, v: Ty, links: str, assign, form: str, c: Cond, style: int = 0):
        self.v, self.links, self.assign, self.form, self.c, self.style = v, links, assign, form, c, style
        self.conds = (c,)
        self.eq_lits = tuple(c.eq_lits)
        self.depth = len(links)
        self.chain = "x" + "".join(LINK_SRC[k] for k in links)
        self.kind = prim_kinds(c.kind)
        self.cls_names = {}

    def nested(self) -> bool:
        return self.assign is not None and self.form.startswith("nested-")

    def assigned_on(self, r) -> bool:
        return self.assign is not None and (not self.nested() or r in rebinding_r("+rebind-" + self.form.partition("-")[2]))

    def mechanism(self, value, args, leaves):
        """Key of a loss whose mechanism the run itself exhibits, else None."""
        if (self.nested() and self.assign[0] == "prefix" and self.assign[1] < self.depth and self.assigned_on(args[-1])
                and value is leaves[1].obj):
            return STALE_AFTER_MERGE_KEY
        return None

    def role(self) -> str:
        if self.assign is None:
            return "none"
        what, n = self.assign
        if what == "sibling":
            return "sibling-of-the-chain" if n == self.depth else "sibling-of-a-prefix"
        return "root" if n == 0 else "the-chain-itself" if n == self.depth else "parent" if n == self.depth - 1 else "interior-prefix"

    def level_ann(self, level: int, classes, header) -> str:
        """Annotation of the object `level` links below the root (level == depth: the leaf)."""
        ann = render_ann(self.v, self.style)
        for i in range(self.depth, level, -1):
            k = self.links[i - 1]
            if k == "a":
                if ann not in classes:
                    name = classes[ann] = f"K{len(classes)}"
                    header += [f"class {name}:", f"    a: {ann}", f"    s: {ann}",
                               f"    def __init__(self, a: {ann}, s: {ann}) -> None:", "        self.a = a", "        self.s = s", ""]
                self.cls_names[i] = classes[ann]
                ann = classes[ann]
            else:
                ann = f"List[{ann}]" if k == "l" else f"Dict[str, {ann}]"
        return ann

    def target(self):
        if self.assign is None:
            return None, None
        what, n = self.assign
        if what == "prefix":
            return "x" + "".join(LINK_SRC[k] for k in self.links[:n]), n
        return "x" + "".join(LINK_SRC[k] for k in self.links[: n - 1]) + SIBLING_SRC[self.links[n - 1]], n

    def lines(self, name, classes, header) -> list:
        root = self.level_ann(0, classes, header)
        tgt, level = self.target()
        sig = f"def {name}(x: {root}"
        if tgt is not None:
            sig += f", y: {self.level_ann(level, classes, header)}" + (", r: bool" if self.nested() else "")
        if tgt is None:
            asg = []
        elif self.form == "unpack":
            asg = [f"{tgt}, _u = y, 0"]
        elif self.form == "for-target":
            asg = [f"for {tgt} in [y]:", "    pass"]
        elif self.nested():
            asg = [l.replace("x = y", f"{tgt} = y") for l in REBINDS[self.form.partition("-")[2]]]
        else:
            asg = [f"{tgt} = y"]
        out = [sig + "):", f"    if {_subst(self.c.src, self.chain)}:"]
        out += ["        " + l for l in asg] + [f"        return __probe(1, {self.chain})", "    else:"]
        out += ["        " + l for l in asg] + [f"        return __probe(0, {self.chain})"]
        return out

    def build(self, module, level: int, leaf):
        """A fresh object for `level` whose chain ends in leaf (neighbour slots hold independent copies)."""
        def mk(i):
            if i == self.depth:
                return leaf
            k = self.links[i]
            if k == "a":
                return getattr(module, self.cls_names[i + 1])(mk(i + 1), mk(i + 1))
            return [mk(i + 1), mk(i + 1)] if k == "l" else {"k": mk(i + 1), "z": mk(i + 1)}
        return mk(level)

    def calls(self, module, rng):
        inh = inhab(self.v, rng, 5) if not self.fixed else None
        tgt, level = self.target()
        for a in (self.fixed[:1] if self.fixed else inh):
            if tgt is None:
                yield (self.build(module, 0, a.obj),), f"<{self.chain} = {a.src}>", [a]
                continue
            for r in ((False, True) if self.nested() else (None,)):
                # every replacement when the assignment is executed, one when the path skips it
                for b in (self.fixed[1:2] if self.fixed else inh if r is None or self.assigned_on(r) else inh[:1]):
                    args = (self.build(module, 0, a.obj), self.build(module, level, b.obj)) + (() if r is None else (r,))
                    yield args, f"<{self.chain} = {a.src}>, <y holding {b.src}>" + ("" if r is None else f", {r}"), [a, b]

    def allowed(self):
        t = self.c.tested
        return None if t is not None and t.kind == "Opaque" else ty.Union(self.v, t) if t is not None else self.v

    def branch(self, tag) -> str:
        return "pos" if tag else "neg"

    def describe(self) -> str:
        saved, header = dict(self.cls_names), []
        body = self.lines("f", {}, header)
        self.cls_names = saved
        return "\n".join(header + body)

    def key_head(self) -> str:
        kinds = {LINK_NAME[k] for k in self.links}
        return (f"composite|depth{self.depth}|links:{kinds.pop() if len(kinds) == 1 else 'mixed'}|assign:{self.role()}"
                f"{'' if self.assign is None else '|form:' + ('nested' if self.nested() else self.form)}|{self.kind}")

    def distinct(self):
        return (sorted(ty.kinds(self.v)), "composite", self.links, self.role(), self.form if self.assign else "", self.c.kind)

    def witness(self, obj_src, leaves=(), args=()):
        return {"shape": "composite", "declared": ty.render(self.v, 0), "style": self.style, "links": self.links,
                "assign": list(self.assign) if self.assign else None, "form": self.form, "c": cond_wit(self.c), "obj": obj_src,
                "leaves": [it.src for it in leaves]}


def cond_wit(c: Cond) -> dict:
    return {"src": c.src, "kind": c.kind}


def refine_checks(t: Ty) -> list:
    if t.kind == "Refine":
        return list(t.extra) + refine_checks(t.args[0])
    if t.kind == "Union":
        return [x for a in t.args for x in refine_checks(a)]
    return []


_ORD_OPS = {"<": ("lt", lambda o, k: o < k), "<=": ("le", lambda o, k: o <= k), ">": ("gt", lambda o, k: o > k), ">=": ("ge", lambda o, k: o >= k)}


def unmirrored_bound(conds, o, types) -> bool:
    """Some condition is `k OP x` with the constant on the left, one of the types pyanalyze derived carries the check
    OP(k) - the written operator, not the mirrored one - and the object (for which `k OP x` holds) fails that check."""
    for c in conds:
        for m in re.finditer(r"(?<![\w.)\]])(-?\d+(?:\.\d+)?) (<=|>=|<|>) x\b", c.src or ""):
            k = float(m.group(1)) if "." in m.group(1) else int(m.group(1))
            op, fn = _ORD_OPS[m.group(2)]
            for t in types:
                if t is None or (op, k) not in refine_checks(t):
                    continue
                try:
                    if not fn(o, k) and fn(k, o):
                        return True
                except Exception:  # noqa: BLE001
                    pass
    return False


def dropped_flag(conds, o, t: Ty) -> bool:
    """o is an instance of a flag enumeration that is not one of its named members (Perm(0), Perm.R | Perm.W), a
    condition compares with a named member, and the narrowed type is made of named members only."""
    if not isinstance(o, enum.Flag) or o in list(type(o).__members__.values()):
        return False
    def tested_flags(t):
        return [] if t is None else [x for a_ in t.args for x in tested_flags(a_)] if t.kind == "Union" else (
            [t.extra.v] if t.kind == "Lit" and isinstance(t.extra.v, enum.Flag) else [])

    if not any(isinstance(l, enum.Flag) for c in conds for l in tuple(c.eq_lits) + tuple(tested_flags(c.tested))):
        return False
    ms = t.args if t.kind == "Union" else (t,)
    return all(m.kind in ("Lit", "NoneT", "Never") for m in ms)


def subject_types_at_tests(fn: ast.FunctionDef, subject: str = "x") -> list:
    """Types pyanalyze holds for the subject where the conditions are evaluated (`x` inside every if-test)."""
    out = []
    for node in ast.walk(fn):
        if isinstance(node, ast.If):
            for n in ast.walk(node.test):
                if isinstance(n, ast.Name) and n.id == subject and hasattr(n, "inferred_value"):
                    try:
                        out.append(ty.from_value(n.inferred_value))
                    except Exception:  # noqa: BLE001
                        pass
    return out


def case_lost_key(case, tag, o, t: Ty, mids, args=(), leaves=()) -> str:
    special = case.mechanism(o, args, leaves) if case.shape == "composite" else None
    if special is not None:
        return special
    prims = set()
    for c in case.conds:
        prims |= set(prim_kinds(c.kind).split("+"))
    if prims & TRUTHY_KINDS and nominally_always_true(o, case.v):
        return "truthiness|falsy-member-of-type-assumed-always-true"
    if any(in_intersection_of_unrelated_classes(o, case.v, c.tested) for c in case.conds):
        return "intersection|instance-of-two-unrelated-classes-is-narrowed-away"
    if unmirrored_bound(case.conds, o, [t] + list(mids)):
        return UNMIRRORED_KEY
    if dropped_flag(case.conds, o, t):
        return FLAG_KEY
    return f"lost|{case.key_head()}|{case.branch(tag)}|{type(o).__name__}|narrowed:{tkind(t)}"


CHECKER_OVERRIDES = {"unused_variable": False, "missing_return_annotation": False, "missing_parameter_annotation": False,
                     "suggested_return_type": False, "suggested_parameter_type": False, "implicit_any": False, "missing_return": False}
REJECT_CODES = {"incompatible_argument", "incompatible_call", "unsupported_operation", "undefined_name", "internal_error",
                "undefined_attribute", "not_callable", "bad_match", "impossible_pattern", "invalid_annotation", "incompatible_assignment"}


def run_cases(ctx, cases) -> None:
    """cases: SeqCase / CompCase objects; one generated module, checked once, every function executed."""
    header = ["from vp.prelude import *", "import typing", HELPERS]
    classes, body = {}, []
    for i, case in enumerate(cases):
        body += case.lines(f"f{i}", classes, header) + [""]
    source = "\n".join(header + body) + "\n"
    probes = []

    def probe(tag, value):
        probes.append((tag, value))
        return value

    try:
        ins = instrument.Instrumented(source, extra_scope={"__probe": probe}, observed=())
    except Exception as e:  # noqa: BLE001
        ctx.count("modules_not_importable")
        ctx.note(f"module not importable: {e!r}")
        return
    try:
        res = harness.run(source, tree=ins.tree, module=ins.module, annotate=True, mode="all", overrides=CHECKER_OVERRIDES)
        if res.exception is not None:
            ctx.count("checker_raised")
            ctx.note(f"checker raised on a {cases[0].shape} module: {res.exception!r}")
            return
        funcs = {n.name: n for n in ins.tree.body if isinstance(n, ast.FunctionDef)}
        for i, case in enumerate(cases):
            fn = funcs[f"f{i}"]
            codes = {d.code for d in res.diags if d.lineno is not None and fn.lineno <= d.lineno <= fn.end_lineno}
            ctx.count("evaluations")
            ctx.count("functions")
            ctx.count(f"{case.shape}_functions")
            if codes & REJECT_CODES:
                ctx.count("functions_rejected_by_checker")
                ctx.histo("rejected_kind", f"{case.shape}:{case.kind}"[:60])
                continue
            narrowed = {}
            for node in ast.walk(fn):
                if isinstance(node, ast.Call) and isinstance(node.func, ast.Name) and node.func.id == "__probe":
                    if hasattr(node.args[1], "inferred_value"):
                        narrowed[node.args[0].value] = (ty.from_value(node.args[1].inferred_value), node.args[1].inferred_value)
            if not narrowed:
                ctx.count("branches_not_annotated")
                continue
            mids = subject_types_at_tests(fn)
            f = getattr(ins.module, f"f{i}")
            reached = set()
            for args, args_src, leaves in case.calls(ins.module, ctx.rng):
                if case.eq_lits and any(cross_type_equal(it.obj, case.eq_lits) or has_user_eq(it.obj) for it in leaves):
                    ctx.count("objects_excluded_cross_type_eq")
                    continue
                del probes[:]
                try:
                    f(*args)
                except Exception as e:  # noqa: BLE001
                    ctx.histo("runtime_exceptions", type(e).__name__)
                    continue
                for tag, value in list(probes):
                    ctx.count("branch_observations")
                    ctx.count(f"{case.shape}_branch_observations")
                    reached.add(tag)
                    if tag not in narrowed:
                        ctx.count("reached_branch_not_annotated")
                        continue
                    t, val = narrowed[tag]
                    m = ty.member(value, t)
                    if m is None:
                        ctx.count("membership_unknown")
                    elif m is False:
                        what = (f"{case.describe()}\nf({args_src}) reaches the branch {case.branch(tag)} with the subject = {value!r}, "
                                f"but pyanalyze narrows it to {val} there")
                        ctx.violation(case_lost_key(case, tag, value, t, mids, args, leaves), what, case.witness(args_src, leaves, args))
            allowed = case.allowed()
            if allowed is not None:
                for tag, (t, val) in sorted(narrowed.items()):
                    bad = universe.subset_over_u(t, allowed)
                    ctx.count("widening_checks")
                    if bad is not None:
                        ctx.violation(f"widened|{case.key_head()}|{case.branch(tag)}|{vkind(case.v)}|narrowed:{tkind(t)}",
                                      f"{case.describe()}\nbranch {case.branch(tag)} narrows the subject to {val}, which admits {bad.src} "
                                      "(neither in the declared nor in a tested type)", case.witness(bad.src))
            if case.shape == "seq":
                ctx.histo("seq_branches_reached", len(reached))
                ctx.histo("seq_first_kind", prim_kinds(case.c1.kind))
                inner = [t for t in mids[1:] if t is not None]
                if any(refine_checks(t) for t in inner):
                    ctx.count("seq_second_condition_on_refined_subject")
                    if reached & {3} and prim_kinds(case.c2.kind).startswith("in"):
                        ctx.count("seq_membership_test_on_refined_subject_taken")
            else:
                ctx.histo("composite_depth_x_assign", f"depth{case.depth}:{case.role()}")
                ctx.histo("composite_links", "".join(sorted(set(case.links))))
                if case.assign is not None:
                    ctx.histo("composite_assign_form", case.form)
                if case.depth == 3 and case.role() == "interior-prefix":
                    ctx.count("composite_depth3_interior_assignments")
            v_t = case.v
            if any(t.kind == "Never" or t != v_t for t, _ in narrowed.values()):
                ctx.nontrivial(case.distinct())
    finally:
        ins.dispose()


_NEGATED_KIND = {"ne": "eq", "ne-swapped": "eq-swapped", "is-not": "is", "is-not-swapped": "is-swapped", "len!=": "len==",
                 "len-swapped!=": "len-swapped=="}


def kind_family(kind: str) -> str:
    """A condition kind and its plain negation are one family: a sequence function observes both branches of both of
    its conditions, so `not isinstance` / `!=` / `is not` / `not in` first or second is the same function with the
    branches swapped (the ordering and len comparisons stay apart: their refinements differ per operator)."""
    kind = _NEGATED_KIND.get(kind, kind)
    return kind[4:] if kind.startswith("not-") else kind


def seq_work(ctx, conds) -> list:
    """One (V, c1, c2) per ordered pair of condition kinds (4 in thorough): of 6 candidates drawn for the pair, the one
    whose four branches are reached by the most inhabitants' outcomes."""
    by_kind = {}
    for c in conds:
        if c.src is not None and "(" not in c.kind:
            by_kind.setdefault(kind_family(c.kind), []).append(c)
    kinds = sorted(by_kind)
    ns = helper_ns()
    work, idx = [], 0
    for k1 in kinds:
        for k2 in kinds:
            idx += 1
            if not ctx.mine(idx):
                continue
            rng = ctx.rng.__class__(f"C02-seq/{ctx.seed}/{k1}/{k2}")
            # a first condition that REFINES the type (Annotated[..., Gt/Ge/Lt/Le/MinLen/MaxLen]) followed by a
            # membership test is drawn three times as often
            per_pair = ctx.pick(1, 4) * (3 if re.match(r"ord|len", k1) and k2.startswith("in") else 1)
            cands = []
            for _ in range(6 * per_pair):
                c1, c2 = rng.choice(by_kind[k1]), rng.choice(by_kind[k2])
                vs = [v for v in SEQ_TYPES if applicable(v, c1) and applicable(v, c2)]
                if not vs or c1.src == c2.src:
                    continue
                v = rng.choice(vs)
                outcomes = {(_holds(c1, it.obj, ns), _holds(c2, it.obj, ns)) for it in inhab(v, rng, 10)}
                score = len({o for o in outcomes if None not in o}) + (2 if (True, True) in outcomes else 0)
                cands.append((-score, len(cands), v, c1, c2))
            if not cands:
                ctx.count("seq_kind_pairs_without_common_type")
                continue
            seen = set()
            for _score, _n, v, c1, c2 in sorted(cands, key=lambda t: t[:2]):
                sig = (ty.render(v), c1.src, c2.src)
                if sig not in seen and len(seen) < per_pair:
                    seen.add(sig)
                    work.append(SeqCase(v, c1, c2, idx % 2))
    return work


def link_vectors(rng, thorough: bool) -> list:
    out = []
    for d in (1, 2, 3):
        allv = ["".join(p) for p in itertools.product("ald", repeat=d)]
        pure = [k * d for k in "ald"]
        mixed = [v for v in allv if v not in pure]
        out += allv if thorough else pure + (rng.sample(mixed, 1) if mixed else [])
    return out


def comp_assignments(depth: int, thorough: bool) -> list:
    """nothing, every prefix (0 = the root ... depth = the chain itself), the neighbour slot of the last link (of every
    link in thorough)."""
    return [None] + [("prefix", p) for p in range(depth + 1)] + [("sibling", j) for j in range(1 if thorough else depth, depth + 1)]


def comp_work(ctx, conds) -> list:
    ns = helper_ns()
    thorough = ctx.tier == "thorough"
    rng = ctx.rng.__class__(f"C02-composite/{ctx.seed}")  # consumed identically in every shard
    plain = [c for c in conds if c.src is not None and "(" not in c.kind]
    work, idx = [], 0
    for v in COMP_LEAVES:
        inh = inhab(v, rng, 10)
        # conditions that separate the inhabitants of the leaf type
        useful = [c for c in plain if applicable(v, c) and len({_holds(c, it.obj, ns) for it in inh} - {None}) == 2]
        for links in link_vectors(rng, thorough):
            for assign in comp_assignments(len(links), thorough):
                for _ in range(ctx.pick(2, 4)):
                    idx += 1
                    c = rng.choice(useful)
                    form = rng.choice(ASSIGN_FORMS)
                    if ctx.mine(idx):
                        work.append(CompCase(v, links, assign, form, c, idx % 2))
    return work



def shard(ctx) -> None:
    rng = ctx.rng
    conds = conditions(rng, ctx.tier == "thorough")
    conds += combos(rng.__class__(f"C02-combos/{ctx.seed}"), conds, ctx.pick(150, 1500))
    types = list(BASE_TYPES)
    if ctx.tier == "thorough":
        trng = rng.__class__(f"C02-types/{ctx.seed}")
        seen = {ty.render(t) for t in types}
        for _ in range(400):
            t = tygen.random_ty(trng, 2)
            if ty.render(t) not in seen and "MixTuple" not in ty.kinds(t) and "NewType" not in ty.kinds(t):
                seen.add(ty.render(t))
                types.append(t)
    work = []
    idx = 0
    srng = rng.__class__(f"C02-shapes/{ctx.seed}")  # consumed identically in every shard
    for v in types:
        for c in conds:
            idx += 1
            shape = srng.choice(SHAPES) if c.src is not None and srng.randrange(SHAPE_EVERY) == 0 else None
            if not ctx.mine(idx):
                continue
            if not applicable(v, c):
                continue
            work.append((v, c, idx % 2, None))
            if shape is not None:
                work.append((v, c, idx % 2, shape))
    for i in range(0, len(work), BATCH):
        check_batch(ctx, work[i : i + BATCH])
    base_conds = [c for c in conds if "(" not in c.kind]
    for more in (seq_work(ctx, base_conds), comp_work(ctx, base_conds)):
        for i in range(0, len(more), BATCH):
            run_cases(ctx, more[i : i + BATCH])


def find_ty(rendered: str):
    from vp.props.c03 import _find_ty

    for t in BASE_TYPES + SEQ_TYPES + COMP_LEAVES:
        if ty.render(t, 0) == rendered:
            return t
    return _find_ty(rendered)


def find_cond(w: dict) -> Cond:
    import random

    for c in conditions(random.Random(0), False):
        if c.src == w["src"] and c.kind == w["kind"]:
            return c
    raise ValueError(f"unknown condition {w!r}")


def replay(witness):
    from vp.core import Ctx

    ctx = Ctx(ID, "quick", 0, 0, 1)
    if witness.get("shape") in ("seq", "composite"):
        v = find_ty(witness["declared"])
        if witness["shape"] == "seq":
            case = SeqCase(v, find_cond(witness["c1"]), find_cond(witness["c2"]), witness.get("style", 0))
        else:
            case = CompCase(v, witness["links"], tuple(witness["assign"]) if witness.get("assign") else None, witness["form"],
                            find_cond(witness["c"]), witness.get("style", 0))
        if witness.get("leaves"):
            case.fixed = [universe.Item(src, eval(src, eval_ns())) for src in witness["leaves"]]
        run_cases(ctx, [case])
        for key, lst in ctx.violations.items():
            return key, lst[0]["what"]
        return None
    _find_ty = find_ty
    ns = eval_ns()
    v = _find_ty(witness["declared"])
    import random

    c = None
    for k in conditions(random.Random(0), False):
        if (k.src, k.pattern, k.guard, k.kind) == (witness["cond_src"], witness.get("pattern"), witness.get("guard"), witness["kind"]):
            c = k
    if c is None:
        tested = _find_ty(witness["tested"]) if witness.get("tested") else (ty.OPAQUE if witness["kind"].startswith("match-seq") or witness["kind"] in ("match-mapping", "callable") else None)
        c = Cond(witness["cond_src"], witness["kind"], tested, tuple(eval(l, ns) for l in witness.get("eq_lits", [])), witness.get("pattern"), witness.get("guard"))
    check_batch(ctx, [(v, c, witness.get("style", 0), witness.get("shape"))])
    for key, lst in ctx.violations.items():
        return key, lst[0]["what"]
    return None
