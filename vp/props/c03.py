"""C03 — assignability of a concrete value equals runtime membership.

Monitor: for (object o, static type T) pairs, the real pyanalyze.runtime.is_assignable / get_assignability_error
and the checker's verdict on `x: T = <literal o>` are compared with the independent membership oracle vp.ty.member.
"""
from __future__ import annotations

import ast
import re

from vp import harness, prelude, ty, tygen, universe
from vp.ty import Ty

ID = "C03"
LEVEL = "exploration"
RULE = (
    "case = (object o from the universe U or an inhabitant of T, static type T); T enumerated exhaustively at depth<=2 "
    "over a 12-leaf core vocabulary plus all depth-1 leaves/special forms, sampled at depth 3; plus WIDE unions "
    "(tygen.wide_unions: 3/9/10/11/14 flattened members around the size where unions switch to indexed literal "
    "lookup; literal members from int/str/mixed families, optionally containing a group of ==-equal literals of "
    "different type (1/True, 0/False, IntEnum member/int/bool) in either order at the front, back or split; "
    "optionally one class or parametrised/structural member; spelled member-wise or as one merged Literal[...]): a "
    "seed-independent core plus a seeded sample of the product; every literal member is also tried as object. Objects per "
    "type: U, inhabitants, NEAR-MISSES (universe.near_miss_pairs: a member with one possibly nested component replaced "
    "by a non-member of the component type, preferring one that is ==-equal but of another type, alone and next to "
    "the unmodified original, e.g. [[0], [0.0]]), and namedtuple instances for tuple/sequence-like targets. Both annotation "
    "spellings (builtin generics / typing.*) evaluated, plus a third one spelling un-parameterised generic classes by "
    "their typing alias (Tuple, List, Dict, ...) when the term mentions one; routes: runtime.is_assignable, get_assignability_error, and the "
    "checker on `x: T = <literal>` (literal-display objects only). Non-trivial = membership decided (not UNKNOWN) and "
    "o's top constructor matches T's top constructor (verdict depends on something below the top level); distinct by "
    "(render(T), source(o), route). Plus (I) the TypedDict INHERITANCE family generated in vp.prelude: roots total / "
    "total=False x own keys each declared plain / Required / NotRequired / ReadOnly / Required[ReadOnly] / "
    "NotRequired[ReadOnly] (one qualifier, all four, or the two ReadOnly combinations); every one-level subclass (x total / "
    "total=False x no own key or one of plain / NotRequired / Required / ReadOnly / NotRequired[ReadOnly]); two-level "
    "subclasses below every subclass that added no or only optional keys (quick: a seeded sample of 48, thorough: all); "
    "classes with two bases of different totality; the membership term of each class is read from CPython's own "
    "__required_keys__ / __optional_keys__ / __annotations__; objects per class: dicts with all keys / none / required "
    "only / optional only / all but one / exactly one / one value of the wrong type / one undeclared key more, the "
    "universe's dicts, a few non-dicts. Plus (F) the classes bool / Enum / IntEnum / Flag / IntFlag and the unions of "
    "their literals (tygen.finite_literal_unions: all named members in both spellings and reversed, all but one, all plus "
    "None / another literal / str, Flag: plus zero, plus every value up to all bits), judged also on the flag instances "
    "that iterating the class does not yield (zero, composites, IntFlag value with an undeclared bit)."
)
ASSUMPTIONS = [
    "vp.ty.member is the membership oracle (int->float->complex promotion, bool is int, structural TypedDict, "
    "NewType membership of strict-subclass instances is UNKNOWN)",
    "pairs whose membership is UNKNOWN are skipped and counted",
    "TypedDict inheritance family: which keys a class has and which of them are required is what CPython recorded on the "
    "class object (typing_extensions.TypedDict: __annotations__, __required_keys__, __optional_keys__)",
    "NewType: a plain instance of the supertype is treated as a member at run time (objects are indistinguishable); "
    "the static-literal route is not judged for NewType targets",
]
FLOORS = {
    "quick": {"distinct_nontrivial": 8000, "runtime_pairs": 60000, "assign_lines": 10000, "member_true": 5000, "member_false": 20000,
              "wide_union_types": 65, "wide_union_pairs": 5000, "wide_union_cross_type_equal_pairs": 180,
              "near_miss_objects": 1300, "near_miss_objects_nested": 400, "tuple_subclass_objects": 1300, "bare_typing_alias_types": 45,
              "typeddict_family_types": 115, "typeddict_family_objects": 1350, "typeddict_family_assign_lines": 700, "finite_class_types": 50},
    "thorough": {"distinct_nontrivial": 50000, "runtime_pairs": 400000, "assign_lines": 60000,
                 "wide_union_types": 65, "wide_union_pairs": 5000, "wide_union_cross_type_equal_pairs": 180,
                 "near_miss_objects": 1300, "near_miss_objects_nested": 400, "tuple_subclass_objects": 1300, "bare_typing_alias_types": 45,
                 "typeddict_family_types": 230, "typeddict_family_objects": 2700, "typeddict_family_assign_lines": 1400, "finite_class_types": 50},
}
BATCH = 200

LITERAL_SRC = re.compile(r"^[\[\(\{\]\)\}0-9a-zA-Z_'\". ,:\-]*$")


def is_literal_display(src: str) -> bool:
    if "(" in src and re.search(r"[A-Za-z_]\(", src):
        return False
    if "lambda" in src:
        return False
    return src not in ("len", "ident")


def top_related(o, t: Ty) -> bool:
    k = t.kind
    if k in ("List", "Seq", "Iter", "Coll"):
        return isinstance(o, (list, tuple))
    if k in ("Set", "FrozenSet"):
        return isinstance(o, (set, frozenset))
    if k in ("Dict", "Map", "TypedDict"):
        return isinstance(o, dict)
    if k in ("Tuple", "VarTuple", "MixTuple"):
        return isinstance(o, tuple)
    if k == "Union":
        return any(top_related(o, a) for a in t.args)
    if k == "TypeOf":
        return isinstance(o, type)
    if k == "Cls":
        return isinstance(o, (t.extra, int, float)) if t.extra in (int, float, complex, bool) else isinstance(o, t.extra)
    if k == "Lit":
        return type(o) in (type(t.extra.v), bool, int, float)
    if k == "NewType":
        return isinstance(o, t.extra[1])
    return True


WIDE = 10  # flattened members


def cross_type_equal(o, t: Ty) -> bool:
    """t is a union with a literal member that is ==-equal to o (same hash) but of another type."""
    if t.kind != "Union":
        return False
    for a in t.args:
        if a.kind == "Lit" and type(a.extra.v) is not type(o):
            try:
                if a.extra.v == o and hash(a.extra.v) == hash(o):
                    return True
            except Exception:  # noqa: BLE001
                pass
    return False


def leaf_desc(t: Ty) -> str:
    if t.kind == "Union":
        return "Union:wide" if len(t.args) >= WIDE else "Union"
    if t.kind == "Cls":
        return f"Cls:{t.extra.__name__}"
    if t.kind == "Lit":
        return f"Lit:{type(t.extra.v).__name__}"
    if t.kind == "NewType":
        return f"NewType:{t.extra[1].__name__}"
    return t.kind


def _has_cross_type_equal_elements(o) -> bool:
    """Two elements that compare equal although they are not the same literal (value AND type, recursively)."""
    es = list(o)
    for i in range(len(es)):
        for j in range(i + 1, len(es)):
            try:
                if es[i] == es[j] and ty.lit_equal(es[i], es[j]) is False:
                    return True
            except Exception:  # noqa: BLE001
                pass
    return False


def blame(o, t: Ty, accepts, style: int = 0, spelling_only: bool = False) -> str:
    """Descend to the smallest (sub-object, sub-term) where the real verdict and membership still part."""
    top = t

    def disagrees(oo, tt):
        m = ty.member(oo, tt)
        if m is None:
            return False
        try:
            return accepts(oo, tt) != m
        except Exception:
            return False

    for _ in range(6):
        k = t.kind
        nxt = None
        if k == "Union":
            for a in t.args:
                if disagrees(o, a):
                    nxt = (o, a)
                    break
        elif k in ("List", "Set", "FrozenSet", "VarTuple", "Seq", "Iter", "Coll") and isinstance(o, (list, tuple, set, frozenset)):
            for e in o:
                if disagrees(e, t.args[0]):
                    nxt = (e, t.args[0])
                    break
        elif k in ("Dict", "Map") and isinstance(o, dict):
            for kk, vv in o.items():
                if disagrees(kk, t.args[0]):
                    nxt = (kk, t.args[0])
                    break
                if disagrees(vv, t.args[1]):
                    nxt = (vv, t.args[1])
                    break
        elif k == "Tuple" and isinstance(o, tuple) and len(o) == len(t.args):
            for e, a in zip(o, t.args):
                if disagrees(e, a):
                    nxt = (e, a)
                    break
        elif k == "TypedDict" and isinstance(o, dict):
            for name, (ft, _req) in t.args[0]:
                if name in o and disagrees(o[name], ft):
                    nxt = (o[name], ft)
                    break
        if nxt is None:
            break
        o, t = nxt
    extra = ""
    if isinstance(o, frozenset) and t.kind in ("FrozenSet", "Coll", "Iter"):
        return "element-typed-container<-frozenset"
    if spelling_only:
        # the other spellings of the same term are judged correctly: whatever else the term contains is not the cause
        return f"{leaf_desc(t)}<-{'tuple' if isinstance(o, tuple) else type(o).__name__}|bare-typing-alias-spelling-only"
    if isinstance(o, tuple) and type(o) is not tuple and t.kind in ("VarTuple", "Seq", "Iter", "Coll"):
        return "element-typed-container<-tuple-subclass-instance"
    if isinstance(o, (list, tuple)) and t.kind in ("List", "VarTuple", "Seq", "Iter", "Coll") and _has_cross_type_equal_elements(o):
        # elements that are == but not the same literal are merged before they are compared with the element type
        return "element-typed-container<-elements-equal-across-types"
    if t.kind != "MixTuple" and "MixTuple" in ty.kinds(top) and (
        isinstance(o, tuple) or t.kind not in ("Cls", "Lit", "NoneT", "NewType", "TypedDict")
    ):
        # the term contains a PEP 646 unpacked tuple: every route mis-parses or mis-matches those (one mechanism)
        return "MixTuple<-tuple"
    if t.kind == "MixTuple" and isinstance(o, tuple):
        return "MixTuple<-tuple"
    if t.kind == "TypedDict" and isinstance(o, dict) and any(not isinstance(k, str) for k in o) and ty.member(
        {k: v for k, v in o.items() if isinstance(k, str)}, t
    ) is True:
        # a key that is not a str is the only thing that keeps the dict out of the TypedDict
        return "TypedDict<-dict/non-str-key"
    if is_family_typeddict(t) and isinstance(o, dict):
        return f"TypedDict:inherited<-dict/{family_key_blame(o, t, accepts)}"
    if t.kind == "TypedDict" and isinstance(o, dict):
        declared = {n for n, _ in t.args[0]}
        extra = "/extra-keys" if set(o) - declared else "/declared-keys"
    if t.kind == "Union" and cross_type_equal(o, t):
        # no single member disagrees, and the object collides (==, hash) with a member of another type
        return f"{leaf_desc(t)}<-cross-type-equal-literal"
    odesc = "tuple-subclass-instance" if isinstance(o, tuple) and type(o) is not tuple else type(o).__name__
    return f"{leaf_desc(t)}<-{odesc}{extra}"


def family_key_blame(o: dict, t: Ty, accepts) -> str:
    """Which key of a family TypedDict the disagreement hangs on (an omitted key whose addition, or a present key whose
    removal, brings verdict and membership together again), described by HOW the class came to have that key."""
    total, how = prelude.TDI_SPEC[t.extra]
    good = {int: 1, str: "x", float: 1.5, bool: True}

    def agree(oo) -> bool:
        m = ty.member(oo, t)
        try:
            return m is not None and accepts(oo, t) == m
        except Exception:  # noqa: BLE001
            return False

    def describe(name: str, state: str) -> str:
        qual, declared_in = how[name]
        where = "own" if declared_in == t.extra else "inherited"
        return (f"{state}-key:{qual}:{where}(declaring-class-total={prelude.TDI_SPEC[declared_in][0]})"
                f"/class-total={total}/required-keys={'none' if not any(r for _n, (_t, r) in t.args[0]) else 'some'}")

    omitted = [(name, ft) for name, (ft, _req) in t.args[0] if name not in o]
    for name, ft in omitted:
        if agree({**o, name: good.get(ft.extra, 1)}):
            return describe(name, "omitted")
    if len(omitted) > 1 and agree({**o, **{name: good.get(ft.extra, 1) for name, ft in omitted}}):
        return describe(omitted[0][0], "omitted")  # several omitted keys matter together: name the first
    for name, (_ft, _req) in t.args[0]:
        if name in o and agree({k: v for k, v in o.items() if k != name}):
            return describe(name, "present")
    return "undeclared-keys" if set(o) - set(how) else "declared-keys"


def runtime_accepts(o, t: Ty, style: int = 0) -> bool:
    from pyanalyze import runtime

    return runtime.is_assignable(o, ty.evaluate(t, style))


def types_for(ctx) -> list:
    ts = tygen.depth1() + tygen.depth2()
    n3 = ctx.pick(600, 12000)
    rng = ctx.rng.__class__(f"C03-types/{ctx.seed}")
    seen = {ty.render(t) for t in ts}
    for _ in range(n3):
        t = tygen.random_ty(rng, 3)
        r = ty.render(t)
        if r not in seen:
            seen.add(r)
            ts.append(t)
    wrng = ctx.rng.__class__(f"C03-wide/{ctx.seed}")
    for t in tygen.wide_unions(wrng, ctx.pick(90, 3000)):
        r = ty.render(t)
        if r not in seen:
            seen.add(r)
            ts.append(t)
    # TypedDict inheritance family: all roots, one-level subclasses and two-base classes; two-level ones sampled (quick)
    frng = ctx.rng.__class__(f"C03-tdi/{ctx.seed}")
    ts.extend(tygen.typeddict_family(frng, ctx.pick(48, None)))
    # finite classes (bool / Enum / IntEnum / Flag / IntFlag) and the unions of their literals
    for t in [ty.Cls(c) for c in tygen.FINITE_CLASSES] + [u for _d, u in tygen.finite_literal_unions()]:
        r = ty.render(t)
        if r not in seen:
            seen.add(r)
            ts.append(t)
    return ts


def is_family_typeddict(t: Ty) -> bool:
    return t.kind == "TypedDict" and isinstance(t.extra, str) and t.extra.startswith("TDI_")


def mentions_finite_class(t: Ty) -> bool:
    if t.kind == "Cls":
        return t.extra in tygen.FINITE_CLASSES
    if t.kind == "Lit":
        return type(t.extra.v) in tygen.FINITE_CLASSES
    return t.kind == "Union" and any(mentions_finite_class(a) for a in t.args)


_DICT_ITEMS = [it for it in universe.U if isinstance(it.obj, dict)]
_FEW_NON_DICTS = [universe.U_BY_SRC[s_] for s_ in ("1", "'a'", "None", "[]", "(1, 'a')", "{'a'}", "dict")
                  if s_ in universe.U_BY_SRC]


def literal_member_items(t: Ty) -> list:
    """Every literal written in a union, as an object to try (the universe only holds a few of them)."""
    out = []
    if t.kind == "Union":
        for a in t.args:
            if a.kind == "Lit":
                try:
                    out.append(universe.Item(ty.lit_source(a.extra.v), a.extra.v))
                except ValueError:
                    pass
    return out


def check_runtime_pairs(ctx, t: Ty, items) -> list:
    """Returns the list of (item, member) with decided membership, for reuse by the assignment route."""
    from pyanalyze import runtime

    decided = []
    try:
        rts = [ty.evaluate(t, 0), ty.evaluate(t, 1)]
        if ty.render(t, 2) != ty.render(t, 1):  # mentions an un-parameterised generic class: typing alias spelling too
            rts.append(ty.evaluate(t, 2))
            ctx.count("bare_typing_alias_types")
    except Exception as e:  # noqa: BLE001
        ctx.count("types_not_evaluable")
        return decided
    for it in items:
        m = ty.member(it.obj, t)
        ctx.count("evaluations")
        if m is None:
            ctx.count("membership_unknown")
            continue
        ctx.count("runtime_pairs")
        ctx.count("member_true" if m else "member_false")
        if t.kind == "Union" and len(t.args) >= WIDE:
            ctx.count("wide_union_pairs")
            if cross_type_equal(it.obj, t):
                ctx.count("wide_union_cross_type_equal_pairs")
                ctx.histo("wide_cross_type_equal", f"{type(it.obj).__name__}:{'member' if m else 'nonmember'}")
        decided.append((it, m))
        rel = top_related(it.obj, t)
        if rel:
            ctx.nontrivial((ty.render(t), it.src, "runtime"))
            ctx.histo("top_constructor_both_verdicts", f"{t.kind}:{'member' if m else 'nonmember'}")
        for style, rt in enumerate(rts):
            try:
                a = runtime.is_assignable(it.obj, rt)
                err = runtime.get_assignability_error(it.obj, rt)
            except Exception as e:  # noqa: BLE001
                ctx.violation(
                    f"runtime|raises|{type(e).__name__}|{t.kind}",
                    f"is_assignable({it.src}, {ty.render(t, style)}) raised {e!r}",
                    {"route": "runtime", "type": ty.render(t, style), "obj": it.src},
                )
                continue
            if (err is None) != a:
                ctx.violation(
                    f"runtime|error-inconsistent|{t.kind}",
                    f"is_assignable({it.src}, {ty.render(t, style)}) = {a} but get_assignability_error = {err!r}",
                    {"route": "runtime", "type": ty.render(t, style), "obj": it.src},
                )
            if a != m:
                direction = "accepts-nonmember" if a else "rejects-member"
                only2 = style == 2 and runtime.is_assignable(it.obj, rts[1]) == m
                where = blame(it.obj, t, lambda oo, tt: runtime_accepts(oo, tt, style), style, only2)
                ctx.violation(
                    f"runtime|{direction}|{where}",
                    f"is_assignable({it.src}, {ty.render(t, style)}) = {a}, but member = {m}",
                    {"route": "runtime", "type": ty.render(t, style), "obj": it.src},
                )
    return decided


def check_assign_batch(ctx, batch) -> None:
    """batch: list of (Ty, style, Item, member)."""
    family = sorted({t.extra for t, _s, _it, _m in batch if is_family_typeddict(t)})  # not star-exported by the prelude
    lines = ["from vp.prelude import *" + (f"; from vp.prelude import {', '.join(family)}" if family else ""),
             "import typing", "def holder():"]
    for i, (t, style, it, m) in enumerate(batch):
        lines.append(f"    x{i}: {ty.render(t, style)} = {it.src}")
    source = "\n".join(lines) + "\n"
    res = harness.run(source, overrides={"unused_variable": False, "unused_assignment": False})
    if res.exception is not None:
        ctx.violation("assign|exception", f"check raised {res.exception!r}", {"route": "assign-src", "source": source})
        return
    by_line = res.by_line()
    for i, (t, style, it, m) in enumerate(batch):
        ds = by_line.get(4 + i, [])
        diag = [d for d in ds if d.code == "incompatible_assignment"]
        other = [d for d in ds if d.code != "incompatible_assignment"]
        ctx.count("evaluations")
        ctx.count("assign_lines")
        if other:
            ctx.histo("assign_other_codes", other[0].code)
            if any(d.code in ("internal_error", "invalid_annotation", "undefined_name") for d in other):
                ctx.count("assign_lines_unjudged")
                continue
        ctx.nontrivial((ty.render(t, style), it.src, "assign"))
        rejected = bool(diag)
        if rejected == m:
            direction = "accepts-nonmember" if not rejected else "rejects-member"
            only2 = False
            if style == 2:
                ctx.count("assign_lines_bare_typing_alias")
                try:
                    only2 = runtime_accepts(it.obj, t, 1) == m and runtime_accepts(it.obj, t, 2) != m
                except Exception:  # noqa: BLE001
                    pass
            where = blame(it.obj, t, lambda oo, tt: runtime_accepts(oo, tt, style), style, only2)
            ctx.violation(
                f"assign|{direction}|{where if where else leaf_desc(t)}",
                f"`x: {ty.render(t, style)} = {it.src}` is {'diagnosed' if rejected else 'accepted'} "
                f"({[d.short() for d in diag][:1]}), but member = {m}",
                {"route": "assign", "type": ty.render(t, style), "obj": it.src},
            )


def has_kind(t: Ty, kind: str) -> bool:
    return kind in ty.kinds(t)


def shard(ctx) -> None:
    ts = types_for(ctx)
    ctx.count("types_total", len(ts) if ctx.shard == 0 else 0)
    assign_work = []
    for idx, t in enumerate(ts):
        if not ctx.mine(idx):
            continue
        inh = universe.inhabitants(t, ctx.rng, 8)
        seen = set()
        items = []
        if t.kind == "Union" and len(t.args) >= WIDE:
            ctx.count("wide_union_types")
            ctx.histo("wide_union_shape", f"n={len(t.args)}:{'+'.join(sorted({a.kind for a in t.args}))}")
        pool = universe.U
        if is_family_typeddict(t):
            # dicts built around the class's own keys (each key omitted / alone / wrongly typed ...), the universe's
            # dicts and a few non-dicts
            ctx.count("typeddict_family_types")
            total, how = prelude.TDI_SPEC[t.extra]
            ctx.histo("typeddict_family_shape", f"class-total={total}|bases-total={sorted({prelude.TDI_SPEC[c][0] for _q, c in how.values() if c != t.extra})}|"
                                                f"required={'none' if not any(r for _n, (_t, r) in t.args[0]) else 'some'}")
            fam = [universe.Item(src, obj) for src, obj in tygen.typeddict_family_dicts(t)]
            ctx.count("typeddict_family_objects", len(fam))
            pool = fam + _DICT_ITEMS + _FEW_NON_DICTS
        elif mentions_finite_class(t) and not (t.kind == "Union" and len(t.args) >= 9):
            ctx.count("finite_class_types")
            pool = universe.U + universe.UF
        if t.kind == "Union" and len(t.args) >= 9:
            # wide unions: all scalars, every object related to some member's top constructor, a few others
            n_scalar = len(universe.SCALAR_SRCS)
            rest = [it for it in universe.U[n_scalar:] if not top_related(it.obj, t)]
            pool = universe.U[:n_scalar] + [it for it in universe.U[n_scalar:] if top_related(it.obj, t)] + ctx.rng.sample(rest, min(6, len(rest)))
        near = []
        if t.kind in ("List", "Set", "FrozenSet", "VarTuple", "Seq", "Iter", "Coll", "Dict", "Map", "Tuple", "Union"):
            near = [b for _m, b in universe.near_miss_pairs(t, ctx.rng, 4)]
        extra = [it for it in universe.UX if top_related(it.obj, t) and t.kind not in ("List", "Cls", "Lit")]
        for it in [*pool, *inh, *literal_member_items(t), *near, *extra]:
            if it.src not in seen:
                seen.add(it.src)
                items.append(it)
                if it in near:
                    ctx.count("near_miss_objects")
                    if any(isinstance(e, (list, tuple, set, frozenset, dict)) for e in (it.obj.values() if isinstance(it.obj, dict) else it.obj if isinstance(it.obj, (list, tuple, set, frozenset)) else ())):
                        ctx.count("near_miss_objects_nested")
                elif it in extra:
                    ctx.count("tuple_subclass_objects")
        decided = check_runtime_pairs(ctx, t, items)
        if has_kind(t, "NewType"):
            continue
        lits = [(it, m) for it, m in decided if is_literal_display(it.src)]
        pos = [x for x in lits if x[1]]
        neg = [x for x in lits if not x[1] and top_related(x[0].obj, t)]
        neg_other = [x for x in lits if not x[1] and not top_related(x[0].obj, t)]
        if t.kind == "Union":
            # objects colliding (==, hash) with a differently-typed literal member first (stable otherwise)
            pos.sort(key=lambda x: not cross_type_equal(x[0].obj, t))
            neg.sort(key=lambda x: not cross_type_equal(x[0].obj, t))
        if t.kind == "Union" and len(t.args) >= 9:
            pick = pos[:3] + neg[:3] + ctx.rng.sample(neg_other, min(1, len(neg_other)))  # many such types: fewer lines each
        elif is_family_typeddict(t):
            # many such types: a few lines each, the dicts built around the class's keys first (they lead the pool)
            pick = pos[:2] + ctx.rng.sample(pos[2:], min(2, len(pos[2:]))) + neg[:1] + ctx.rng.sample(neg[1:], min(2, len(neg[1:])))
            ctx.count("typeddict_family_assign_lines", len(pick))
        else:
            near_srcs = {it.src for it in near}
            neg_near = [x for x in neg if x[0].src in near_srcs][:2]  # nested near-misses come last in `neg`: reserve slots
            pick = pos[:6] + [x for x in neg if x not in neg_near][: 8 - len(neg_near)] + neg_near + ctx.rng.sample(neg_other, min(2, len(neg_other)))
        for it, m in pick:
            assign_work.append((t, ctx.rng.randrange(3 if ty.render(t, 2) != ty.render(t, 1) else 2), it, m))
        if len(ctx.samples) < 3 and decided:
            ctx.sample({"type": ty.render(t), "objects": [it.src for it, _ in decided[:6]], "member": [m for _, m in decided[:6]]})
    for i in range(0, len(assign_work), BATCH):
        check_assign_batch(ctx, assign_work[i : i + BATCH])


def _parse_ty(src: str) -> Ty:
    """Replay helper: recover the Ty from its rendering by searching the enumerations."""
    raise NotImplementedError


def replay(witness):
    from vp.core import Ctx
    from pyanalyze import runtime

    ctx = Ctx(ID, "quick", 0, 0, 1)
    ns = dict(ty.eval_ns())
    obj = eval(witness["obj"], ns)
    t = _find_ty(witness["type"])
    it = universe.Item(witness["obj"], obj)
    if t is None:
        return None
    if witness["route"] == "runtime":
        check_runtime_pairs(ctx, t, [it])
    else:
        m = ty.member(obj, t)
        if m is None:
            return None
        style = 0
        for st in (1, 2):
            if ty.render(t, st) == witness["type"] and ty.render(t, st - 1) != witness["type"]:
                style = st
        check_assign_batch(ctx, [(t, style, it, m)])
    for key, lst in ctx.violations.items():
        return key, lst[0]["what"]
    return None


def _find_ty(rendered: str):
    """Rebuild a Ty from its rendering with a tiny recursive-descent parser over the render() grammar."""
    from vp import prelude

    src = rendered
    node = ast.parse(src, mode="eval").body
    return _ty_from_ast(node)


def _ty_from_ast(node) -> Ty:
    from vp import prelude

    names = {
        "int": int, "bool": bool, "float": float, "complex": complex, "str": str, "bytes": bytes, "list": list,
        "dict": dict, "set": set, "frozenset": frozenset, "tuple": tuple, "type": type, "bytearray": bytearray,
        "List": list, "Dict": dict, "Set": set, "FrozenSet": frozenset, "Tuple": tuple, "Type": type,
    }
    if isinstance(node, ast.Constant) and node.value is None:
        return ty.NONE
    if isinstance(node, ast.Name):
        n = node.id
        if n == "Any":
            return ty.ANY
        if n == "object":
            return ty.OBJECT
        if n in names:
            return ty.Cls(names[n])
        if n in ("TD1", "TD2", "TD3"):
            return [s for s in tygen.SPECIAL if s.kind == "TypedDict" and s.extra == n][0]
        if n.startswith("TDI_"):
            return ty.typeddict_from_class(getattr(prelude, n))
        if n in ("NT", "NS"):
            return [s for s in tygen.SPECIAL if s.kind == "NewType" and s.extra[0] == n][0]
        return ty.Cls(getattr(prelude, n))
    if isinstance(node, ast.Attribute):
        return ty.NEVER  # typing.NoReturn
    if isinstance(node, ast.Subscript):
        head = node.value.id if isinstance(node.value, ast.Name) else None
        sl = node.slice
        elts = list(sl.elts) if isinstance(sl, ast.Tuple) else [sl]
        if head == "Literal":
            v = eval(compile(ast.Expression(sl), "<lit>", "eval"), dict(ty.eval_ns()))
            if isinstance(sl, ast.Tuple):  # merged spelling Literal[a, b, ...]
                return ty.UnionOf([ty.NONE if x is None else ty.Lit(x) for x in v], merged=True)
            return ty.Lit(v)
        if head == "Optional":
            return ty.Union(_ty_from_ast(elts[0]), ty.NONE)
        if head == "Union":
            parts = [_ty_from_ast(e) for e in elts]
            return ty.UnionOf(parts, merged=any(p.kind == "Union" and p.extra == "merged" for p in parts))
        simple = {"list": ty.List, "List": ty.List, "set": ty.Set, "Set": ty.Set, "frozenset": ty.FrozenSet,
                  "FrozenSet": ty.FrozenSet, "Sequence": ty.Seq, "Iterable": ty.Iter, "Collection": ty.Coll,
                  "type": ty.TypeOf, "Type": ty.TypeOf}
        if head in simple:
            return simple[head](_ty_from_ast(elts[0]))
        if head in ("dict", "Dict"):
            return ty.Dict(_ty_from_ast(elts[0]), _ty_from_ast(elts[1]))
        if head == "Mapping":
            return ty.Map(_ty_from_ast(elts[0]), _ty_from_ast(elts[1]))
        if head in ("tuple", "Tuple"):
            for i, e in enumerate(elts):
                if isinstance(e, ast.Subscript) and isinstance(e.value, ast.Name) and e.value.id == "Unpack":
                    star_t = _ty_from_ast(e.slice.slice.elts[0])
                    return ty.MixTuple([_ty_from_ast(x) for x in elts[:i]], star_t, [_ty_from_ast(x) for x in elts[i + 1:]])
            if len(elts) == 1 and isinstance(elts[0], ast.Tuple) and not elts[0].elts:
                return ty.Tuple()
            if isinstance(sl, ast.Tuple) and not sl.elts:
                return ty.Tuple()
            if len(elts) == 2 and isinstance(elts[1], ast.Constant) and elts[1].value is Ellipsis:
                return ty.VarTuple(_ty_from_ast(elts[0]))
            star_idx = [i for i, e in enumerate(elts) if isinstance(e, ast.Starred)]
            if star_idx:
                i = star_idx[0]
                inner = elts[i].value  # tuple[X, ...]
                star_t = _ty_from_ast(inner.slice.elts[0])
                return ty.MixTuple([_ty_from_ast(e) for e in elts[:i]], star_t, [_ty_from_ast(e) for e in elts[i + 1:]])
            return ty.Tuple(*[_ty_from_ast(e) for e in elts])
        if head == "Callable":
            return ty.CallableT()
        if head is not None and getattr(prelude, head, None) in ty.GEN_VIEWS:
            return ty.Gen(getattr(prelude, head), *[_ty_from_ast(e) for e in elts])
    raise ValueError(ast.dump(node))
