"""C04 — type-to-type assignability is reflexive and sound for membership.

Monitor: real Value.can_assign verdicts (through a real Checker context) for pairs of Any-free static types are
judged (a) against the membership oracle over the universe U (soundness), (b) against each other (algebraic laws).
"""
from __future__ import annotations

import itertools

from vp import harness, ty, tygen, universe
from vp.ty import Ty

ID = "C04"
LEVEL = "exploration"
RULE = (
    "case = ordered pair (A, B) of Any-free static types; all depth<=1 x depth<=2 pairs plus a sharded sample of "
    "depth-2 x depth-2 pairs (thorough: all) and random depth-3 pairs; Values built through "
    "type_from_runtime(evaluate(T)) in both spellings and by direct construction (KnownValue of every universe "
    "object, SequenceValue/DictIncompleteValue/TypedDictValue/SubclassValue from literals); plus law instances over "
    "random triples. Non-trivial = accepted pair with A != B structurally and >=1 universe object inhabiting B, or a "
    "law instance with union arity >= 2; distinct by (render A, render B, law)."
)
ASSUMPTIONS = [
    "vp.ty.member over the fixed universe U (about 100 objects) is the membership oracle; counterexamples needing "
    "objects outside U are out of reach",
    "documented leniencies excluded from the soundness implication only: L1 bare generic G == G[Any] (pairs whose B "
    "mentions a bare list/dict/set/frozenset/tuple/type class); L2 fixed-length tuple accepts variadic tuple of "
    "compatible element type (membership relaxed accordingly when B mentions a variadic tuple); L3 mock objects "
    "(not in the vocabulary)",
    "NewType: plain supertype instances are members at run time, so pairs whose A mentions a NewType are not judged for soundness",
]
FLOORS = {
    "quick": {"distinct_nontrivial": 20000, "pairs": 200000, "accepted_pairs": 15000, "law_instances": 20000, "e2e_lines": 1000},
    "thorough": {"distinct_nontrivial": 100000, "pairs": 600000, "law_instances": 100000},
}
BARE_GENERICS = (list, dict, set, frozenset, tuple, type)


class Term:
    __slots__ = ("t", "value", "text", "memb", "nonmemb", "memb_l2", "kinds", "bare", "idx")


def build_terms(ctx):
    from pyanalyze.annotations import type_from_runtime

    terms = []
    ts = tygen.depth1() + tygen.depth2()
    for i, t in enumerate(ts):
        try:
            rt = ty.evaluate(t, i % 2)
            v = type_from_runtime(rt)
        except Exception as e:  # noqa: BLE001
            ctx.count("terms_not_buildable")
            continue
        terms.append(make_term(t, v, ty.render(t, i % 2)))
    return terms


def make_term(t: Ty, v, text: str) -> Term:
    tm = Term()
    tm.t, tm.value, tm.text = t, v, text
    memb = nonmemb = memb_l2 = 0
    for j, it in enumerate(universe.U):
        m = ty.member(it.obj, t)
        if m is True:
            memb |= 1 << j
        elif m is False:
            nonmemb |= 1 << j
    ty.LENIENT_FIXED_TUPLES = True
    try:
        nonmemb_l2 = 0
        for j, it in enumerate(universe.U):
            if ty.member(it.obj, t) is False:
                nonmemb_l2 |= 1 << j
    finally:
        ty.LENIENT_FIXED_TUPLES = False
    tm.memb, tm.nonmemb, tm.memb_l2 = memb, nonmemb, nonmemb_l2
    tm.kinds = ty.kinds(t)
    tm.bare = _has_bare(t)
    return tm


def _has_bare(t: Ty) -> bool:
    if t.kind == "Cls" and t.extra in BARE_GENERICS:
        return True
    for a in t.args:
        if isinstance(a, Ty) and _has_bare(a):
            return True
        if isinstance(a, tuple):
            for b in a:
                if isinstance(b, Ty) and _has_bare(b):
                    return True
                if isinstance(b, tuple):
                    for c in b:
                        if isinstance(c, Ty) and _has_bare(c):
                            return True
    return False


def direct_terms(ctx):
    """Values constructed directly rather than through annotations."""
    from pyanalyze.value import (
        DictIncompleteValue, KnownValue, KVPair, SequenceValue, SubclassValue, TypedDictEntry, TypedDictValue, TypedValue,
    )
    from vp import prelude

    out = []
    for it in universe.U:
        if it.src in ("len", "ident", "(lambda: 0)"):
            continue
        out.append(make_term(ty.Lit(it.obj), KnownValue(it.obj), f"KnownValue({it.src})"))
    I, S, F = TypedValue(int), TypedValue(str), TypedValue(float)
    out.append(make_term(ty.SeqPat(list, [(False, ty.Cls(int)), (True, ty.Cls(str))]), SequenceValue(list, [(False, I), (True, S)]), "SequenceValue(list,[int,*str])"))
    out.append(make_term(ty.SeqPat(tuple, [(False, ty.Cls(int)), (False, ty.Cls(str))]), SequenceValue(tuple, [(False, I), (False, S)]), "SequenceValue(tuple,[int,str])"))
    out.append(make_term(ty.SeqPat(tuple, [(True, ty.Cls(int))]), SequenceValue(tuple, [(True, I)]), "SequenceValue(tuple,[*int])"))
    out.append(make_term(ty.SeqPat(set, [(False, ty.Cls(int))]), SequenceValue(set, [(False, I)]), "SequenceValue(set,[int])"))
    out.append(make_term(
        ty.DictPat([(ty.Lit("a"), ty.Cls(int), False, True)]),
        DictIncompleteValue(dict, [KVPair(KnownValue("a"), I)]), "DictIncompleteValue({'a': int})"))
    out.append(make_term(
        ty.DictPat([(ty.Lit("a"), ty.Cls(int), False, True), (ty.Lit("b"), ty.Cls(str), False, False)]),
        DictIncompleteValue(dict, [KVPair(KnownValue("a"), I), KVPair(KnownValue("b"), S, is_required=False)]), "DictIncompleteValue({'a': int, 'b'?: str})"))
    out.append(make_term(
        ty.TypedDictT("<td>", {"a": (ty.Cls(int), True)}), TypedDictValue({"a": TypedDictEntry(I)}), "TypedDictValue({a: int})"))
    out.append(make_term(
        ty.TypedDictT("<td>", {"a": (ty.Cls(float), True), "b": (ty.Cls(str), False)}),
        TypedDictValue({"a": TypedDictEntry(F), "b": TypedDictEntry(S, required=False)}), "TypedDictValue({a: float, b?: str})"))
    # every (required, readonly) combination of one key, for two value types
    for vt, vty, vname in ((I, ty.Cls(int), "int"), (F, ty.Cls(float), "float")):
        for required in (True, False):
            for readonly in (True, False):
                out.append(make_term(
                    ty.TypedDictT("<td>", {"k": (vty, required)}),
                    TypedDictValue({"k": TypedDictEntry(vt, required=required, readonly=readonly)}),
                    f"TypedDictValue({{k: {'' if required else 'NotRequired '}{'ReadOnly ' if readonly else ''}{vname}}})"))
    out.append(make_term(ty.TypeOf(ty.Cls(prelude.A)), SubclassValue(TypedValue(prelude.A)), "SubclassValue(A)"))
    out.append(make_term(ty.TypeOf(ty.Cls(int)), SubclassValue(TypedValue(int)), "SubclassValue(int)"))
    return out


def accepts(a, b, checker) -> bool:
    from pyanalyze.value import CanAssignError

    return not isinstance(a.can_assign(b, checker), CanAssignError)


def first_bit_item(mask: int):
    j = (mask & -mask).bit_length() - 1
    return universe.U[j]


def pair_key_desc(tm: Term) -> str:
    t = tm.t
    if t.kind == "Cls":
        return f"Cls:{t.extra.__name__}"
    if t.kind == "Lit":
        return f"Lit:{type(t.extra.v).__name__}"
    if t.kind in ("List", "Set", "FrozenSet", "Seq", "Iter", "Coll", "VarTuple", "TypeOf") and t.args[0].kind in ("Cls", "Lit"):
        return f"{t.kind}[{pair_key_desc_t(t.args[0])}]"
    return t.kind


def pair_key_desc_t(t: Ty) -> str:
    if t.kind == "Cls":
        return f"Cls:{t.extra.__name__}"
    if t.kind == "Lit":
        return f"Lit:{type(t.extra.v).__name__}"
    return t.kind


INFERRED_ONLY_AS_TARGET = ("DictPat",)


def target_ok(A: Term) -> bool:
    """Values that only ever arise as inferred expression types are judged on the right-hand side only."""
    if A.t.kind in INFERRED_ONLY_AS_TARGET:
        return False
    if A.t.kind == "SeqPat" and (A.t.extra is not tuple or any(m for m, _ in A.t.args[0])):
        return False
    return True


def soundness_mechanism(A: Term, B: Term, u) -> str:
    import enum

    if isinstance(u.obj, frozenset) and B.t.kind == "Lit" and A.t.kind in ("FrozenSet", "Coll", "Iter"):
        return "frozenset-literal-elements-unchecked"
    if isinstance(u.obj, enum.Enum) and A.t.kind in ("Iter", "Coll", "Seq") and not isinstance(u.obj, (str, bytes, tuple)):
        return "enum-instance-treated-as-iterable"
    if "TypedDict" in B.kinds and A.t.kind in ("Dict", "Map") and isinstance(u.obj, dict):
        return "typeddict-accepted-by-dict-or-mapping-with-value-type"
    if A.t.kind in ("Tuple", "SeqPat", "MixTuple") and B.t.kind == "VarTuple":
        return "fixed-tuple<-variadic|element-type-not-accepted-by-every-position"
    if A.t.kind == "TypedDict" and B.t.kind in ("Dict", "Map") and isinstance(u.obj, dict):
        return "typeddict-accepts-plain-dict-of-str-keys"
    if A.t.kind == "TypedDict" and isinstance(u.obj, dict) and any(not isinstance(k, str) for k in u.obj):
        return "typeddict-accepts-dict-literal-with-non-str-key"
    if A.t.kind == "Lit" and B.t.kind == "Lit" and isinstance(u.obj, (list, tuple, dict, set, frozenset)):
        return "literal-container-equality-crosses-bool-int"
    return f"{A.t.kind}<-{B.t.kind}"


def judge_pair(ctx, A: Term, B: Term, checker, record=True):
    """Soundness + exclude-Any monotonicity for one ordered pair. Returns accepted?"""
    try:
        acc = accepts(A.value, B.value, checker)
    except Exception as e:  # noqa: BLE001
        ctx.violation(f"raises|{type(e).__name__}|{A.t.kind}|{B.t.kind}", f"{A.text}.can_assign({B.text}) raised {e!r}",
                      {"law": "soundness", "A": A.text, "B": B.text})
        return None
    ctx.count("evaluations")
    ctx.count("pairs")
    if acc:
        ctx.count("accepted_pairs")
        excused = None
        if not target_ok(A):
            excused = "inferred-only-target"
        elif B.bare:
            excused = "L1-bare-generic"
        elif "NewType" in A.kinds:
            excused = "newtype-target"
        if excused:
            ctx.histo("excused", excused)
        else:
            lenient = bool(B.kinds & {"VarTuple", "MixTuple"}) or any(k == "SeqPat" for k in B.kinds)
            bad = B.memb & (A.memb_l2 if lenient else A.nonmemb)
            if lenient and (B.memb & A.nonmemb) and not bad:
                ctx.histo("excused", "L2-fixed-accepts-variadic")
            if B.memb and A.text != B.text:
                ctx.nontrivial((A.text, B.text, "soundness"))
                ctx.histo("accepted_by_kind", f"{A.t.kind}<-{B.t.kind}")
            if bad:
                u = first_bit_item(bad)
                ctx.violation(
                    f"soundness|{soundness_mechanism(A, B, u)}",
                    f"{A.text} accepts {B.text}, but {u.src} belongs to the latter and not to the former",
                    {"law": "soundness", "A": A.text, "B": B.text, "object": u.src},
                )
    else:
        # exclude-Any mode must never turn a rejection into an acceptance
        with checker.set_exclude_any():
            try:
                acc2 = accepts(A.value, B.value, checker)
            except Exception:  # noqa: BLE001
                acc2 = False
        ctx.count("exclude_any_rechecks")
        if acc2:
            ctx.violation(
                f"exclude-any-accepts|{A.t.kind}<-{B.t.kind}",
                f"{A.text} rejects {B.text} normally but accepts it under set_exclude_any()",
                {"law": "exclude-any", "A": A.text, "B": B.text},
            )
    return acc


def fixed_laws(ctx, T: Term, checker) -> None:
    from pyanalyze.value import NO_RETURN_VALUE, AnySource, AnyValue, TypedValue

    ctx.count("law_instances", 5)
    if not accepts(T.value, T.value, checker):
        ctx.violation(f"reflexivity|{pair_key_desc(T)}", f"{T.text} does not accept itself", {"law": "reflexivity", "A": T.text})
    if not accepts(T.value, NO_RETURN_VALUE, checker):
        ctx.violation(f"never-accepted|{pair_key_desc(T)}", f"{T.text} rejects Never", {"law": "never", "A": T.text})
    if not accepts(TypedValue(object), T.value, checker):
        ctx.violation(f"object-accepts|{pair_key_desc(T)}", f"object rejects {T.text}", {"law": "object", "A": T.text})
    anyv = AnyValue(AnySource.explicit)
    if not accepts(T.value, anyv, checker):
        ctx.violation(f"any-rhs|{pair_key_desc(T)}", f"{T.text} rejects Any", {"law": "any-rhs", "A": T.text})
    if not accepts(anyv, T.value, checker):
        ctx.violation(f"any-lhs|{pair_key_desc(T)}", f"Any rejects {T.text}", {"law": "any-lhs", "A": T.text})


def union_laws(ctx, A: Term, B1: Term, B2: Term, checker, raw: bool) -> None:
    from pyanalyze.value import MultiValuedValue, unite_values

    def mk(x, y):
        if raw and not isinstance(x, MultiValuedValue) and not isinstance(y, MultiValuedValue) and x != y:
            return MultiValuedValue([x, y])
        return unite_values(x, y)

    ctx.count("evaluations")
    ctx.count("law_instances", 2)
    u = mk(B1.value, B2.value)
    whole = accepts(A.value, u, checker)
    parts = accepts(A.value, B1.value, checker) and accepts(A.value, B2.value, checker)
    ctx.nontrivial((A.text, B1.text, B2.text, "union-rhs", raw))
    if whole != parts:
        ctx.violation(
            f"union-rhs|{'accepted-but-member-rejected' if whole else 'rejected-but-members-accepted'}|{pair_key_desc(A)}",
            f"{A.text} <- ({B1.text} | {B2.text}) is {'accepted' if whole else 'rejected'} but memberwise gives {'accept' if parts else 'reject'}",
            {"law": "union-rhs", "A": A.text, "B1": B1.text, "B2": B2.text, "raw": raw},
        )
    # union on the left accepts whatever one of its members accepts
    ua = mk(B1.value, B2.value)
    if (accepts(B1.value, A.value, checker) or accepts(B2.value, A.value, checker)) and not accepts(ua, A.value, checker):
        ctx.violation(
            f"union-lhs|rejected-but-member-accepts|{pair_key_desc(A)}",
            f"({B1.text} | {B2.text}) rejects {A.text} although one member accepts it",
            {"law": "union-lhs", "A": A.text, "B1": B1.text, "B2": B2.text, "raw": raw},
        )


def e2e_batch(ctx, batch, checker) -> None:
    """`def f(b: B): y: A = b` diagnosed  <=>  A rejects B through the API."""
    lines = ["from vp.prelude import *", "import typing"]
    line_of = {}
    for i, (A, B, acc) in enumerate(batch):
        lines.append(f"def f{i}(b: {B.text}) -> None:")
        lines.append(f"    y: {A.text} = b")
        line_of[i] = len(lines)
    source = "\n".join(lines) + "\n"
    res = harness.run(source, overrides={"unused_variable": False, "unused_assignment": False})
    if res.exception is not None:
        ctx.violation("e2e|exception", f"check raised {res.exception!r}", {"law": "e2e-src", "source": source})
        return
    by_line = res.by_line()
    for i, (A, B, acc) in enumerate(batch):
        ds = by_line.get(line_of[i], [])
        if any(d.code not in ("incompatible_assignment",) for d in ds) or by_line.get(line_of[i] - 1):
            ctx.count("e2e_unjudged")
            continue
        ctx.count("evaluations")
        ctx.count("e2e_lines")
        diagnosed = any(d.code == "incompatible_assignment" for d in ds)
        if diagnosed == acc:
            ctx.violation(
                f"e2e-differs|{'api-accepts-checker-rejects' if acc else 'api-rejects-checker-accepts'}|{A.t.kind}<-{B.t.kind}",
                f"`y: {A.text} = b` with b: {B.text} is {'diagnosed' if diagnosed else 'accepted'} by the checker but the API says {'accept' if acc else 'reject'}",
                {"law": "e2e", "A": A.text, "B": B.text},
            )


def annotation_expressible(tm: Term) -> bool:
    return not tm.text.startswith(("KnownValue(", "SequenceValue(", "DictIncompleteValue(", "TypedDictValue(", "SubclassValue("))


def shard(ctx) -> None:
    from pyanalyze.checker import Checker

    checker = Checker()
    terms = build_terms(ctx)
    direct = direct_terms(ctx)
    allterms = terms + direct
    n1 = len(tygen.depth1())
    small = terms[:n1] + direct
    rng = ctx.rng
    if ctx.shard == 0:
        ctx.count("terms_total", len(allterms))
    # fixed laws for every term
    for i, T in enumerate(allterms):
        if ctx.mine(i):
            fixed_laws(ctx, T, checker)
    # (1) small x all and all x small: exhaustive
    idx = 0
    e2e = []
    for A in allterms:
        for B in small:
            idx += 1
            if ctx.mine(idx):
                acc = judge_pair(ctx, A, B, checker)
                if acc is not None and annotation_expressible(A) and annotation_expressible(B) and rng.random() < 0.01:
                    e2e.append((A, B, acc))
    for A in small:
        for B in terms[n1:]:
            idx += 1
            if ctx.mine(idx):
                acc = judge_pair(ctx, A, B, checker)
                if acc is not None and annotation_expressible(A) and annotation_expressible(B) and rng.random() < 0.01:
                    e2e.append((A, B, acc))
    # (2) depth2 x depth2: sample (quick) / all (thorough); bias to related top constructors
    big = terms[n1:]
    if ctx.tier == "thorough":
        for A in big:
            for B in big:
                idx += 1
                if ctx.mine(idx):
                    judge_pair(ctx, A, B, checker)
    else:
        by_kind = {}
        for tm in big:
            by_kind.setdefault(tm.t.kind, []).append(tm)
        for _ in range(ctx.pick(20000, 0)):
            A = rng.choice(big)
            B = rng.choice(by_kind[A.t.kind]) if rng.random() < 0.6 else rng.choice(big)
            acc = judge_pair(ctx, A, B, checker)
            if acc is not None and rng.random() < 0.02:
                e2e.append((A, B, acc))
    # (3) union laws over random triples
    for _ in range(ctx.pick(3000, 20000)):
        A, B1, B2 = rng.choice(allterms), rng.choice(allterms), rng.choice(allterms)
        try:
            union_laws(ctx, A, B1, B2, checker, raw=rng.random() < 0.5)
        except Exception as e:  # noqa: BLE001
            ctx.violation(f"raises|{type(e).__name__}|union-law", f"union law on {A.text}, {B1.text}, {B2.text} raised {e!r}",
                          {"law": "union-rhs", "A": A.text, "B1": B1.text, "B2": B2.text, "raw": False})
    for i in range(0, len(e2e), 150):
        e2e_batch(ctx, e2e[i : i + 150], checker)
    if len(ctx.samples) < 3:
        ctx.sample({"A": allterms[7].text, "B": allterms[40].text, "accepted": accepts(allterms[7].value, allterms[40].value, checker)})


_TERM_CACHE = {}


def _term_by_text(text: str):
    from vp.core import Ctx

    if not _TERM_CACHE:
        ctx = Ctx(ID, "quick", 0, 0, 1)
        for tm in build_terms(ctx) + direct_terms(ctx):
            _TERM_CACHE[tm.text] = tm
    return _TERM_CACHE.get(text)


def replay(witness):
    from pyanalyze.checker import Checker
    from vp.core import Ctx

    ctx = Ctx(ID, "quick", 0, 0, 1)
    checker = Checker()
    law = witness["law"]
    A = _term_by_text(witness["A"])
    if A is None:
        return None
    if law in ("soundness", "exclude-any"):
        B = _term_by_text(witness["B"])
        if B is None:
            return None
        judge_pair(ctx, A, B, checker)
    elif law in ("reflexivity", "never", "object", "any-rhs", "any-lhs"):
        fixed_laws(ctx, A, checker)
    elif law in ("union-rhs", "union-lhs"):
        B1, B2 = _term_by_text(witness["B1"]), _term_by_text(witness["B2"])
        if B1 is None or B2 is None:
            return None
        union_laws(ctx, A, B1, B2, checker, raw=witness.get("raw", False))
    elif law == "e2e":
        B = _term_by_text(witness["B"])
        if B is None:
            return None
        e2e_batch(ctx, [(A, B, accepts(A.value, B.value, checker))], checker)
    for key, lst in ctx.violations.items():
        return key, lst[0]["what"]
    return None
