"""C04 — type-to-type assignability is reflexive and sound for membership.

Monitor: real Value.can_assign verdicts (through a real Checker context) for pairs of Any-free static types are
judged (a) against the membership oracle over the universe U (soundness), (b) against each other (algebraic laws).
"""
from __future__ import annotations

import itertools

from vp import harness, ty, tygen, universe
from vp.ty import Ty

ID = "C04"
LEVEL = "exploration"
RULE = (
    "case = ordered pair (A, B) of Any-free static types; all depth<=1 x depth<=2 pairs plus a sharded sample of "
    "depth-2 x depth-2 pairs (thorough: all) and random depth-3 pairs; Values built through "
    "type_from_runtime(evaluate(T)) in both spellings and by direct construction (KnownValue of every universe "
    "object, SequenceValue/DictIncompleteValue/TypedDictValue/SubclassValue from literals); plus law instances over "
    "random triples; plus (W) WIDE unions (tygen.wide_unions: 3/9/10/11/14 flattened members, hashable literal members "
    "of int/str/mixed families with optional ==-equal cross-type groups, optionally one class or "
    "parametrised/structural member such as tuple[int, ...], list[int], dict[str, int], a TypedDict; member-wise and "
    "merged Literal[...] spellings; plus directly built MultiValuedValues with an unhashable literal member) crossed in "
    "both directions with every depth<=1 term and every KnownValue of a universe object, with the union laws "
    "instantiated member by member; plus (G) user-defined generic classes of the prelude (a 2-parameter base; "
    "subclasses passing their own parameters to the base in the same / swapped / shifted position, re-using the "
    "base's TypeVar objects or fresh ones, a twice-swapping chain, a duplicated parameter, a parameter nested in the "
    "base argument, subclasses of Dict/List) specialised over {int, str, float, bool}: all G x G pairs and G x "
    "depth<=1 pairs, judged against instances of those classes (universe.UG; o in G[X..] iff isinstance(o, G) and "
    "the attributes declared with each parameter are in the corresponding argument); plus (F) finite classes (bool, Enum, "
    "IntEnum, Flag, IntFlag) vs. unions of their literals (tygen.finite_literal_unions: all named members member-wise / "
    "merged / reversed, all but one, all plus None / another literal / str, Flag: plus zero, plus every value up to all "
    "bits): all F x F pairs and F x depth<=1/direct terms in both directions, the universe holding the flag instances that "
    "iterating the class does not yield (zero, composites, an IntFlag value with an undeclared bit); plus (D2) further "
    "direct values (KnownValue of every flag instance and of 8 reference functions, dict displays whose key is optional, "
    "closed and extra-keys-typed TypedDicts with 1-2 declared keys required / optional / read-only) crossed with each "
    "other, the depth<=1/direct terms and F; plus (K) CALLABLE types with an executable membership: signatures with <=2 "
    "named parameters a / b (positional-only / positional-or-keyword / keyword-only, with or without default), optional "
    "*args and **kw, every annotation int or str (quick: expected signatures annotated str in at most one place and "
    "named a-first; thorough: all 1737); each expected signature E x every signature G ONE EDIT away (drop / add a "
    "parameter, flip an annotation, toggle a default, change a kind, rename), plus itself, plus a seeded sample of "
    "two-edit and arbitrary pairs; expected type = Protocol with __call__ of signature E or the CallableValue of E's "
    "signature, provided = KnownValue of G's reference function or the Protocol of G (quick: one of the three routes per "
    "pair, fixed by G and rotating with the seed; thorough: all three); accepted pairs are judged by RUNNING all 405 pool calls (0-3 positionals, 0-3 keywords from "
    "a / b / a foreign name, values 1 / 's') that E's reference function executes (binds, every bound argument an "
    "instance of its annotation) on G's reference function; 8 callable protocol types also cross the depth<=1/direct "
    "terms as ordinary terms. Non-trivial = accepted pair with A != B structurally and >=1 universe object inhabiting B, or a "
    "law instance with union arity >= 2, or an accepted callable pair E != G where E permits >=1 pool call; distinct by (render A, render B, law)."
)
ASSUMPTIONS = [
    "vp.ty.member over the fixed universe U (about 100 objects, plus 3 namedtuple instances, plus about 160 instances "
    "of the user-defined generic classes for pairs that involve one) is the membership oracle; counterexamples needing "
    "objects outside it are out of reach",
    "documented leniencies excluded from the soundness implication only: L1 bare generic G == G[Any] (pairs whose B "
    "mentions a bare list/dict/set/frozenset/tuple/type class); L2 fixed-length tuple accepts variadic tuple of "
    "compatible element type (membership relaxed accordingly when B mentions a variadic tuple); L3 mock objects "
    "(not in the vocabulary)",
    "NewType: plain supertype instances are members at run time, so pairs whose A mentions a NewType are not judged for soundness",
    "user-defined generic classes: membership of an instance in G[X1..Xn] is decided by vp.ty.GEN_VIEWS (attributes "
    "declared with each own type parameter); the classes' constructors fill base-class attributes as their headers declare",
    "callable types: a function is NOT a member of the callable type of signature E when some call of the fixed pool runs "
    "on E's reference function (CPython binds it, the generated body finds every argument inside its annotation) and "
    "raises on that function; nothing is concluded from the absence of such a call; the reference function of G is a "
    "member of every form of the type built from G (its KnownValue, the Protocol with that __call__, the CallableValue)",
    "KnownValue(function) as a TARGET is read as the callable type of the function's signature (pyanalyze documents "
    "Literal[function] as equivalent to a Callable type), as a source as the type whose one known member is the function",
    "flag enumerations: CPython's isinstance decides membership of zero / composite / undeclared-bit values in the class; "
    "a literal contains an enum object iff same class and same _value_",
]
FLOORS = {
    "quick": {"distinct_nontrivial": 20000, "pairs": 200000, "accepted_pairs": 15000, "law_instances": 20000, "e2e_lines": 1000,
              "wide_union_terms": 50, "wide_pairs": 16000, "wide_accepts_container_literal_checks": 3000, "generic_pairs": 15000, "generic_accepted_cross_class": 190,
              "finite_pairs": 10000, "finite_literal_union_vs_class": 150, "direct2_pairs": 3900, "callable_pairs": 5000, "callable_accepted": 1500,
              "callable_calls_compared": 11000, "callable_term_pairs": 1300},
    "thorough": {"distinct_nontrivial": 100000, "pairs": 600000, "law_instances": 100000,
                 "wide_union_terms": 50, "wide_pairs": 16000, "wide_accepts_container_literal_checks": 3000, "generic_pairs": 15000, "generic_accepted_cross_class": 190,
                 "finite_pairs": 10000, "finite_literal_union_vs_class": 150, "direct2_pairs": 3900, "callable_pairs": 45000, "callable_accepted": 10000,
                 "callable_calls_compared": 90000, "callable_term_pairs": 1300},
}
BARE_GENERICS = (list, dict, set, frozenset, tuple, type, *ty.GEN_VIEWS)
EAGER = universe.U + universe.UX + universe.UF + universe.UC  # universe objects + namedtuple instances + flag-enum instances (zero / composite values too) + reference functions of callable signatures: masks computed for every term
POOL = EAGER + universe.UG  # bit j of a Term's masks is POOL[j]; the UG part is filled lazily (with_generic_objects)
NU = len(EAGER)
WIDE = 10


class Term:
    __slots__ = ("t", "value", "text", "memb", "nonmemb", "memb_l2", "kinds", "bare", "idx", "_g")


def build_terms(ctx):
    from pyanalyze.annotations import type_from_runtime

    terms = []
    ts = tygen.depth1() + tygen.depth2()
    for i, t in enumerate(ts):
        try:
            rt = ty.evaluate(t, i % 2)
            v = type_from_runtime(rt)
        except Exception as e:  # noqa: BLE001
            ctx.count("terms_not_buildable")
            continue
        terms.append(make_term(t, v, ty.render(t, i % 2)))
    return terms


def make_term(t: Ty, v, text: str) -> Term:
    tm = Term()
    tm.t, tm.value, tm.text = t, v, text
    memb = nonmemb = memb_l2 = 0
    tm._g = False
    for j, it in enumerate(EAGER):
        m = ty.member(it.obj, t)
        if m is True:
            memb |= 1 << j
        elif m is False:
            nonmemb |= 1 << j
    tm.kinds = ty.kinds(t)
    if tm.kinds & {"Tuple", "MixTuple", "SeqPat", "TypedDict"}:
        ty.LENIENT_FIXED_TUPLES = True
        try:
            nonmemb_l2 = 0
            for j, it in enumerate(EAGER):
                if ty.member(it.obj, t) is False:
                    nonmemb_l2 |= 1 << j
        finally:
            ty.LENIENT_FIXED_TUPLES = False
    else:
        nonmemb_l2 = nonmemb  # the leniency only changes membership in fixed-length tuple terms
    tm.memb, tm.nonmemb, tm.memb_l2 = memb, nonmemb, nonmemb_l2
    tm.bare = _has_bare(t)
    return tm


def with_generic_objects(tm: Term) -> Term:
    """Extend the masks to the instances of user-defined generic classes (universe.UG). Only pairs with a Gen term
    on either side are judged against them (the L2 tuple leniency does not concern these objects)."""
    if not tm._g:
        tm._g = True
        for j, it in enumerate(universe.UG):
            m = ty.member(it.obj, tm.t)
            if m is True:
                tm.memb |= 1 << (NU + j)
            elif m is False:
                tm.nonmemb |= 1 << (NU + j)
                tm.memb_l2 |= 1 << (NU + j)
    return tm


def _has_bare(t: Ty) -> bool:
    if t.kind == "Cls" and t.extra in BARE_GENERICS:
        return True
    for a in t.args:
        if isinstance(a, Ty) and _has_bare(a):
            return True
        if isinstance(a, tuple):
            for b in a:
                if isinstance(b, Ty) and _has_bare(b):
                    return True
                if isinstance(b, tuple):
                    for c in b:
                        if isinstance(c, Ty) and _has_bare(c):
                            return True
    return False


def direct_terms(ctx):
    """Values constructed directly rather than through annotations."""
    from pyanalyze.value import (
        DictIncompleteValue, KnownValue, KVPair, SequenceValue, SubclassValue, TypedDictEntry, TypedDictValue, TypedValue,
    )
    from vp import prelude

    out = []
    for it in universe.U + universe.UX:
        if it.src in ("len", "ident", "(lambda: 0)"):
            continue
        out.append(make_term(ty.Lit(it.obj), KnownValue(it.obj), f"KnownValue({it.src})"))
    I, S, F = TypedValue(int), TypedValue(str), TypedValue(float)
    out.append(make_term(ty.SeqPat(list, [(False, ty.Cls(int)), (True, ty.Cls(str))]), SequenceValue(list, [(False, I), (True, S)]), "SequenceValue(list,[int,*str])"))
    out.append(make_term(ty.SeqPat(tuple, [(False, ty.Cls(int)), (False, ty.Cls(str))]), SequenceValue(tuple, [(False, I), (False, S)]), "SequenceValue(tuple,[int,str])"))
    out.append(make_term(ty.SeqPat(tuple, [(True, ty.Cls(int))]), SequenceValue(tuple, [(True, I)]), "SequenceValue(tuple,[*int])"))
    out.append(make_term(ty.SeqPat(set, [(False, ty.Cls(int))]), SequenceValue(set, [(False, I)]), "SequenceValue(set,[int])"))
    out.append(make_term(
        ty.DictPat([(ty.Lit("a"), ty.Cls(int), False, True)]),
        DictIncompleteValue(dict, [KVPair(KnownValue("a"), I)]), "DictIncompleteValue({'a': int})"))
    out.append(make_term(
        ty.DictPat([(ty.Lit("a"), ty.Cls(int), False, True), (ty.Lit("b"), ty.Cls(str), False, False)]),
        DictIncompleteValue(dict, [KVPair(KnownValue("a"), I), KVPair(KnownValue("b"), S, is_required=False)]), "DictIncompleteValue({'a': int, 'b'?: str})"))
    out.append(make_term(
        ty.TypedDictT("<td>", {"a": (ty.Cls(int), True)}), TypedDictValue({"a": TypedDictEntry(I)}), "TypedDictValue({a: int})"))
    out.append(make_term(
        ty.TypedDictT("<td>", {"a": (ty.Cls(float), True), "b": (ty.Cls(str), False)}),
        TypedDictValue({"a": TypedDictEntry(F), "b": TypedDictEntry(S, required=False)}), "TypedDictValue({a: float, b?: str})"))
    # every (required, readonly) combination of one key, for two value types
    for vt, vty, vname in ((I, ty.Cls(int), "int"), (F, ty.Cls(float), "float")):
        for required in (True, False):
            for readonly in (True, False):
                out.append(make_term(
                    ty.TypedDictT("<td>", {"k": (vty, required)}),
                    TypedDictValue({"k": TypedDictEntry(vt, required=required, readonly=readonly)}),
                    f"TypedDictValue({{k: {'' if required else 'NotRequired '}{'ReadOnly ' if readonly else ''}{vname}}})"))
    out.append(make_term(ty.TypeOf(ty.Cls(prelude.A)), SubclassValue(TypedValue(prelude.A)), "SubclassValue(A)"))
    out.append(make_term(ty.TypeOf(ty.Cls(int)), SubclassValue(TypedValue(int)), "SubclassValue(int)"))
    return out


def direct_terms2(ctx):
    """Further directly constructed values, crossed with the depth<=1 / direct terms and each other only: KnownValue of
    every flag-enum instance and reference function, dict displays with optional keys, closed / extra-keys-typed TypedDicts."""
    from pyanalyze.value import DictIncompleteValue, KnownValue, KVPair, TypedDictEntry, TypedDictValue, TypedValue

    out = []
    for it in universe.UF:
        out.append(make_term(ty.Lit(it.obj), KnownValue(it.obj), f"KnownValue({it.src})"))
    for it in universe.UC:
        # pyanalyze documents Literal[function] as "equivalent to a Callable type" (KnownValue.can_assign): as a target
        # it stands for the callable type of the function's signature; as a source its one known member is the function
        out.append(make_term(ty.CallSig(ty._CS_PARAMS_OF[it.obj]), KnownValue(it.obj), f"KnownValue({it.src})"))
    I, S = TypedValue(int), TypedValue(str)
    # a dict display whose only key is optional (`{**maybe}` / conditional keys), alone and next to a required key
    out.append(make_term(
        ty.DictPat([(ty.Lit("a"), ty.Cls(int), False, False)]),
        DictIncompleteValue(dict, [KVPair(KnownValue("a"), I, is_required=False)]), "DictIncompleteValue({'a'?: int})"))
    out.append(make_term(
        ty.DictPat([(ty.Lit("k"), ty.Cls(int), False, False), (ty.Lit("a"), ty.Cls(int), False, True)]),
        DictIncompleteValue(dict, [KVPair(KnownValue("k"), I, is_required=False), KVPair(KnownValue("a"), I)]),
        "DictIncompleteValue({'k'?: int, 'a': int})"))
    # closed TypedDicts (no undeclared key) and TypedDicts whose undeclared keys have a declared value type
    from pyanalyze.value import NO_RETURN_VALUE

    for extra_v, extra_t, extra_txt in ((NO_RETURN_VALUE, True, "closed"), (I, ty.Cls(int), "extra=int"), (S, ty.Cls(str), "extra=str")):
        for fields_v, fields_t, fields_txt in (
            ({"a": TypedDictEntry(I)}, {"a": (ty.Cls(int), True)}, "a: int"),
            ({"a": TypedDictEntry(I), "b": TypedDictEntry(S)}, {"a": (ty.Cls(int), True), "b": (ty.Cls(str), True)}, "a: int, b: str"),
            ({"a": TypedDictEntry(I), "b": TypedDictEntry(S, required=False)}, {"a": (ty.Cls(int), True), "b": (ty.Cls(str), False)}, "a: int, b?: str"),
            ({"a": TypedDictEntry(I), "k": TypedDictEntry(I, required=False, readonly=True)}, {"a": (ty.Cls(int), True), "k": (ty.Cls(int), False)}, "a: int, k?: ReadOnly int"),
        ):
            out.append(make_term(ty.TypedDictT("<td>", fields_t, closed=extra_t), TypedDictValue(fields_v, extra_keys=extra_v),
                                 f"TypedDictValue({{{fields_txt}}}, {extra_txt})"))
    out.append(make_term(ty.TypedDictT("<td>", {"a": (ty.Cls(int), True), "b": (ty.Cls(str), True)}),
                         TypedDictValue({"a": TypedDictEntry(I), "b": TypedDictEntry(S)}), "TypedDictValue({a: int, b: str})"))
    return out


def accepts(a, b, checker) -> bool:
    from pyanalyze.value import CanAssignError

    return not isinstance(a.can_assign(b, checker), CanAssignError)


def first_bit_item(mask: int):
    j = (mask & -mask).bit_length() - 1
    return POOL[j]


def pair_key_desc(tm: Term) -> str:
    t = tm.t
    if t.kind == "Union" and len(t.args) >= WIDE:
        return "Union:wide"
    if t.kind == "Gen":
        return f"Gen:{gen_role(t.extra)}"
    if t.kind == "Cls":
        return f"Cls:{t.extra.__name__}"
    if t.kind == "Lit":
        return f"Lit:{type(t.extra.v).__name__}"
    if t.kind in ("List", "Set", "FrozenSet", "Seq", "Iter", "Coll", "VarTuple", "TypeOf") and t.args[0].kind in ("Cls", "Lit"):
        return f"{t.kind}[{pair_key_desc_t(t.args[0])}]"
    return t.kind


def pair_key_desc_t(t: Ty) -> str:
    if t.kind == "Cls":
        return f"Cls:{t.extra.__name__}"
    if t.kind == "Lit":
        return f"Lit:{type(t.extra.v).__name__}"
    return t.kind


def gen_role(cls) -> str:
    """How the class hands its own type parameters to its generic base (structural, not the class name)."""
    from vp import prelude as P

    return {
        P.GPair: "base", P.GBox: "base", P.GSame: "same-position", P.GList: "same-position",
        P.GFlip: "permuted-same-typevars", P.GFlipSub: "permuted-same-typevars", P.GShift: "permuted-same-typevars",
        P.GIntFirst: "permuted-same-typevars", P.GRevDict: "permuted-same-typevars",
        P.GFlipFresh: "permuted-fresh-typevars", P.GShiftFresh: "permuted-fresh-typevars",
        P.GDup: "duplicated", P.GListBox: "nested",
    }.get(cls, "other")


INFERRED_ONLY_AS_TARGET = ("DictPat",)


def target_ok(A: Term) -> bool:
    """Values that only ever arise as inferred expression types are judged on the right-hand side only."""
    if A.t.kind in INFERRED_ONLY_AS_TARGET:
        return False
    if A.t.kind == "SeqPat" and (A.t.extra is not tuple or any(m for m, _ in A.t.args[0])):
        return False
    return True


def _member_terms(tm: Term) -> list:
    """A union term's members as terms: pyanalyze's own flattened member values, paired with the written member
    terms when they line up one to one (otherwise with a structural reading of the value). Only used to attribute
    an already established violation to the smallest pair that shows it."""
    vals = getattr(tm.value, "vals", None)
    if tm.t.kind != "Union" or not vals:
        return []
    if len(vals) == len(tm.t.args):
        tys = list(tm.t.args)
    else:
        tys = [ty.from_value(v) for v in vals]
    out = []
    for t, v in zip(tys, vals):
        m = Term()
        m.t, m.value, m.text, m.kinds, m.bare, m._g = t, v, str(v), ty.kinds(t), _has_bare(t), True
        m.memb = m.nonmemb = m.memb_l2 = 0
        out.append(m)
    return out


def narrow_to_members(A: Term, B: Term, u, checker):
    """(A accepts B, u in B, u not in A) -> the member of B that holds u and the member of A that accepts it without
    holding u, when such members exist; a defect of the union handling itself stays at the union."""
    for _ in range(3):
        changed = False
        for b in _member_terms(B):
            if ty.member(u.obj, b.t) is True:
                try:
                    if accepts(A.value, b.value, checker):
                        B, changed = b, True
                        break
                except Exception:  # noqa: BLE001
                    pass
        for a in _member_terms(A):
            if ty.member(u.obj, a.t) is False:
                try:
                    if accepts(a.value, B.value, checker):
                        A, changed = a, True
                        break
                except Exception:  # noqa: BLE001
                    pass
        if not changed:
            break
    return A, B


def _dict_like(t: Ty) -> bool:
    return t.kind in ("Dict", "Map") or (t.kind == "Gen" and issubclass(t.extra, dict))


def soundness_mechanism(A: Term, B: Term, u) -> str:
    import enum

    if isinstance(u.obj, frozenset) and B.t.kind == "Lit" and A.t.kind in ("FrozenSet", "Coll", "Iter"):
        return "frozenset-literal-elements-unchecked"
    if isinstance(u.obj, tuple) and type(u.obj) is not tuple and B.t.kind == "Lit" and A.t.kind in ("VarTuple", "Seq", "Iter", "Coll"):
        return "tuple-subclass-literal-elements-unchecked"
    if isinstance(u.obj, enum.Enum) and A.t.kind in ("Iter", "Coll", "Seq") and not isinstance(u.obj, (str, bytes, tuple)):
        return "enum-instance-treated-as-iterable"
    if "TypedDict" in B.kinds and A.t.kind in ("Dict", "Map") and isinstance(u.obj, dict):
        return "typeddict-accepted-by-dict-or-mapping-with-value-type"
    if A.t.kind in ("Tuple", "SeqPat", "MixTuple") and B.t.kind == "VarTuple":
        return "fixed-tuple<-variadic|element-type-not-accepted-by-every-position"
    if A.t.kind == "TypedDict" and _dict_like(B.t) and isinstance(u.obj, dict):
        return "typeddict-accepts-plain-dict-of-str-keys"
    if A.t.kind == "TypedDict" and isinstance(u.obj, dict) and any(not isinstance(k, str) for k in u.obj):
        return "typeddict-accepts-dict-literal-with-non-str-key"
    if A.t.kind == "TypedDict" and B.t.kind == "DictPat" and isinstance(u.obj, dict) and any(
        req and name not in u.obj for name, (_ft, req) in A.t.args[0]
    ):
        return "typeddict-required-key<-dict-display-where-the-key-is-optional"
    if A.t.kind == "TypedDict" and B.t.kind == "TypedDict" and A.t.args[1] and isinstance(u.obj, dict):
        declared_a = {n for n, _ in A.t.args[0]}
        if any(n not in declared_a for n, _ in B.t.args[0] if n in u.obj):
            return "typeddict:closed-or-extra-keys-typed<-typeddict-declaring-further-keys"
        return f"typeddict:{'closed' if A.t.args[1] is True else 'extra-keys-typed'}<-typeddict:{'open' if not B.t.args[1] else 'closed' if B.t.args[1] is True else 'extra-keys-typed'}"
    if A.t.kind == "Union" and B.t.kind == "Cls" and B.t.extra in tygen.FINITE_CLASSES and any(
        a.kind == "Lit" and type(a.extra.v) is B.t.extra for a in A.t.args
    ):
        named = tygen.finite_named_members(B.t.extra)
        covered = all(any(a.kind == "Lit" and ty.lit_equal(m, a.extra.v) is True for a in A.t.args) for m in named)
        return f"literal-union<-class:{tygen.finite_class_kind(B.t.extra)}:{'all-named-members-listed' if covered else 'some-named-member-not-listed'}"
    if A.t.kind == "CallSig" or B.t.kind == "CallSig":
        form = lambda tm: ("Literal-function" if tm.text.startswith("KnownValue(") else "callback-protocol") if tm.t.kind == "CallSig" else tm.t.kind  # noqa: E731
        return f"{form(A)}<-{form(B)}"
    if A.t.kind == "Lit" and B.t.kind == "Lit" and isinstance(u.obj, (list, tuple, dict, set, frozenset)):
        return "literal-container-equality-crosses-bool-int"
    if A.t.kind == "Union" and len(A.t.args) >= WIDE:
        if B.t.kind == "Lit":
            same_origin = any(_origin_class(a) is type(u.obj) for a in A.t.args)
            shape = "container" if isinstance(u.obj, (list, tuple, dict, set, frozenset)) else "scalar"
            return f"Union:wide<-Lit:{shape}{':member-with-same-origin-class' if same_origin else ''}"
        return f"Union:wide<-{B.t.kind}"
    if A.t.kind == "Gen" and B.t.kind == "Gen":
        # what matters is how B's class hands its parameters to its bases, and whether a base had to be consulted
        return f"Gen:{'same-class' if A.t.extra is B.t.extra else 'via-base'}<-{pair_key_desc(B)}"
    if A.t.kind == "Gen" or B.t.kind == "Gen":
        da = pair_key_desc(A) if A.t.kind == "Gen" else A.t.kind
        db = pair_key_desc(B) if B.t.kind == "Gen" else B.t.kind
        return f"{da}<-{db}"
    return f"{A.t.kind}<-{B.t.kind}"


def _origin_class(t: Ty):
    return {"List": list, "Set": set, "FrozenSet": frozenset, "Dict": dict, "TypedDict": dict, "Tuple": tuple,
            "VarTuple": tuple, "MixTuple": tuple}.get(t.kind)


def judge_pair(ctx, A: Term, B: Term, checker, record=True):
    """Soundness + exclude-Any monotonicity for one ordered pair. Returns accepted?"""
    try:
        acc = accepts(A.value, B.value, checker)
    except Exception as e:  # noqa: BLE001
        ctx.violation(f"raises|{type(e).__name__}|{A.t.kind}|{B.t.kind}", f"{A.text}.can_assign({B.text}) raised {e!r}",
                      {"law": "soundness", "A": A.text, "B": B.text})
        return None
    ctx.count("evaluations")
    ctx.count("pairs")
    if acc:
        ctx.count("accepted_pairs")
        if "Gen" in A.kinds or "Gen" in B.kinds:
            with_generic_objects(A)
            with_generic_objects(B)
        excused = None
        if not target_ok(A):
            excused = "inferred-only-target"
        elif B.bare:
            excused = "L1-bare-generic"
        elif "NewType" in A.kinds:
            excused = "newtype-target"
        if excused:
            ctx.histo("excused", excused)
        else:
            lenient = bool(B.kinds & {"VarTuple", "MixTuple"}) or any(k == "SeqPat" for k in B.kinds)
            bad = B.memb & (A.memb_l2 if lenient else A.nonmemb)
            if lenient and (B.memb & A.nonmemb) and not bad:
                ctx.histo("excused", "L2-fixed-accepts-variadic")
            if B.memb and A.text != B.text:
                ctx.nontrivial((A.text, B.text, "soundness"))
                ctx.histo("accepted_by_kind", f"{A.t.kind}<-{B.t.kind}")
            if bad:
                u = first_bit_item(bad)
                A1, B1 = narrow_to_members(A, B, u, checker)
                ctx.violation(
                    f"soundness|{soundness_mechanism(A1, B1, u)}",
                    f"{A.text} accepts {B.text}, but {u.src} belongs to the latter and not to the former",
                    {"law": "soundness", "A": A.text, "B": B.text, "object": u.src},
                )
    else:
        # exclude-Any mode must never turn a rejection into an acceptance
        with checker.set_exclude_any():
            try:
                acc2 = accepts(A.value, B.value, checker)
            except Exception:  # noqa: BLE001
                acc2 = False
        ctx.count("exclude_any_rechecks")
        if acc2:
            ctx.violation(
                f"exclude-any-accepts|{A.t.kind}<-{B.t.kind}",
                f"{A.text} rejects {B.text} normally but accepts it under set_exclude_any()",
                {"law": "exclude-any", "A": A.text, "B": B.text},
            )
    return acc


def fixed_laws(ctx, T: Term, checker) -> None:
    from pyanalyze.value import NO_RETURN_VALUE, AnySource, AnyValue, TypedValue

    ctx.count("law_instances", 5)
    if not accepts(T.value, T.value, checker):
        ctx.violation(f"reflexivity|{pair_key_desc(T)}", f"{T.text} does not accept itself", {"law": "reflexivity", "A": T.text})
    if not accepts(T.value, NO_RETURN_VALUE, checker):
        ctx.violation(f"never-accepted|{pair_key_desc(T)}", f"{T.text} rejects Never", {"law": "never", "A": T.text})
    if not accepts(TypedValue(object), T.value, checker):
        ctx.violation(f"object-accepts|{pair_key_desc(T)}", f"object rejects {T.text}", {"law": "object", "A": T.text})
    anyv = AnyValue(AnySource.explicit)
    if not accepts(T.value, anyv, checker):
        ctx.violation(f"any-rhs|{pair_key_desc(T)}", f"{T.text} rejects Any", {"law": "any-rhs", "A": T.text})
    if not accepts(anyv, T.value, checker):
        ctx.violation(f"any-lhs|{pair_key_desc(T)}", f"Any rejects {T.text}", {"law": "any-lhs", "A": T.text})


def union_laws(ctx, A: Term, B1: Term, B2: Term, checker, raw: bool) -> None:
    from pyanalyze.value import MultiValuedValue, unite_values

    def mk(x, y):
        if raw and not isinstance(x, MultiValuedValue) and not isinstance(y, MultiValuedValue) and x != y:
            return MultiValuedValue([x, y])
        return unite_values(x, y)

    ctx.count("evaluations")
    ctx.count("law_instances", 2)
    u = mk(B1.value, B2.value)
    whole = accepts(A.value, u, checker)
    parts = accepts(A.value, B1.value, checker) and accepts(A.value, B2.value, checker)
    ctx.nontrivial((A.text, B1.text, B2.text, "union-rhs", raw))
    if whole != parts:
        ctx.violation(
            f"union-rhs|{'accepted-but-member-rejected' if whole else 'rejected-but-members-accepted'}|{pair_key_desc(A)}",
            f"{A.text} <- ({B1.text} | {B2.text}) is {'accepted' if whole else 'rejected'} but memberwise gives {'accept' if parts else 'reject'}",
            {"law": "union-rhs", "A": A.text, "B1": B1.text, "B2": B2.text, "raw": raw},
        )
    # union on the left accepts whatever one of its members accepts
    ua = mk(B1.value, B2.value)
    if (accepts(B1.value, A.value, checker) or accepts(B2.value, A.value, checker)) and not accepts(ua, A.value, checker):
        ctx.violation(
            f"union-lhs|rejected-but-member-accepts|{pair_key_desc(A)}",
            f"({B1.text} | {B2.text}) rejects {A.text} although one member accepts it",
            {"law": "union-lhs", "A": A.text, "B1": B1.text, "B2": B2.text, "raw": raw},
        )


def wide_terms(ctx) -> list:
    from pyanalyze.annotations import type_from_runtime
    from pyanalyze.value import KnownValue, MultiValuedValue, TypedValue

    out = []
    wrng = ctx.rng.__class__(f"C04-wide/{ctx.seed}")
    for i, t in enumerate(tygen.wide_unions(wrng, ctx.pick(40, 1500))):
        try:
            v = type_from_runtime(ty.evaluate(t, i % 2))
        except Exception:  # noqa: BLE001
            ctx.count("terms_not_buildable")
            continue
        out.append(make_term(t, v, ty.render(t, i % 2)))
    # built directly: a literal member that is not hashable (no annotation can spell it)
    for n in (9, 10, 13):
        lits = [1, True, *range(3, n)]
        for tail, tail_t, tail_txt in (
            (KnownValue([1]), ty.Lit([1]), "KnownValue([1])"),
            (KnownValue({"a": 1}), ty.Lit({"a": 1}), "KnownValue({'a': 1})"),
        ):
            for extra_v, extra_t, extra_txt in ((None, None, ""), (TypedValue(str), ty.Cls(str), ", str")):
                members_t = [ty.Lit(x) for x in lits] + [tail_t] + ([extra_t] if extra_t is not None else [])
                members_v = [KnownValue(x) for x in lits] + [tail] + ([extra_v] if extra_v is not None else [])
                out.append(make_term(ty.UnionOf(members_t), MultiValuedValue(members_v),
                                     f"MultiValuedValue({len(members_v)} members: 1, True, 3.., {tail_txt}{extra_txt})"))
    return out


def generic_terms(ctx) -> list:
    from pyanalyze.annotations import type_from_runtime

    out = []
    for i, t in enumerate(tygen.generic_terms()):
        try:
            v = type_from_runtime(ty.evaluate(t, i % 2))
        except Exception:  # noqa: BLE001
            ctx.count("terms_not_buildable")
            continue
        out.append(make_term(t, v, ty.render(t, i % 2)))
    return out


def finite_terms(ctx) -> list:
    """(F) classes with finitely many NAMED instances and the unions of their literals."""
    from pyanalyze.annotations import type_from_runtime

    out = []
    cases = [(f"class:{tygen.finite_class_kind(c)}", ty.Cls(c)) for c in tygen.FINITE_CLASSES] + tygen.finite_literal_unions()
    for i, (desc, t) in enumerate(cases):
        try:
            v = type_from_runtime(ty.evaluate(t, i % 2))
        except Exception:  # noqa: BLE001
            ctx.count("terms_not_buildable")
            continue
        tm = make_term(t, v, ty.render(t, i % 2))
        out.append((desc, tm))
    return out


# ---------------------------------------------------------------------------
# (K) callable types with an executable membership (vp.ty.CallSig)

CALLABLE_ROUTES = ("protocol<-function", "protocol<-protocol", "signature<-function")
_CS_VALUES: dict = {}


def callable_value(ps, form: int, checker):
    """form 0: TypedValue of the Protocol class with this __call__; 1: KnownValue of the reference function;
    2: CallableValue of the signature pyanalyze itself computes for that function. Built on first use."""
    from pyanalyze.annotations import type_from_runtime
    from pyanalyze.value import CallableValue, KnownValue

    slot = _CS_VALUES.get(ps)
    if slot is None:
        slot = _CS_VALUES[ps] = [None, None, None]
    if slot[form] is None:
        if form == 0:
            slot[0] = type_from_runtime(ty.callsig_protocol(ps))
        elif form == 1:
            slot[1] = KnownValue(ty.callsig_function(ps))
        else:
            sig = checker.signature_from_value(callable_value(ps, 1, checker))
            slot[2] = CallableValue(sig) if sig is not None else False
    return slot[form]


def _cs_label(p) -> str:
    return {ty.VA: "*", ty.VK: "**"}.get(p[1], p[1] + ("=" if p[2] else ""))


def _cs_routes(ps, call) -> dict:
    """argument id (("p", i) | ("k", name)) -> the parameter that receives it (the call is known to bind)."""
    pos_params = [p for p in ps if p[1] in (ty.PO, ty.PK)]
    va = [p for p in ps if p[1] == ty.VA]
    vk = [p for p in ps if p[1] == ty.VK]
    by_kw = {p[0]: p for p in ps if p[1] in (ty.PK, ty.KO)}
    out = {}
    for i in range(len(call[0])):
        out[("p", i)] = pos_params[i] if i < len(pos_params) else va[0]
    for k in call[1]:
        out[("k", k)] = by_kw.get(k) or vk[0]
    return out


def callable_failure(E, G, call) -> str:
    """Mechanism class of one counterexample: the call runs on E's reference function and fails on G's."""
    import re

    pos, kw = call
    try:
        ty.callsig_function(G)(*pos, **kw)
    except ty.CallSigBad:
        re_, rg = _cs_routes(E, call), _cs_routes(G, call)
        for arg, pg in rg.items():
            val = pos[arg[1]] if arg[0] == "p" else kw[arg[1]]
            if type(val).__name__ != pg[3]:
                return (f"bound-arg-outside-annotation|expected:{_cs_label(re_[arg])}|provided:{_cs_label(pg)}|"
                        f"{'by-keyword' if arg[0] == 'k' else 'by-position'}")
        return "bound-arg-outside-annotation|unlocated"
    except TypeError as e:
        m = str(e)
        for pat, name in (("multiple values", "multiple-values"), ("unexpected keyword", "unexpected-keyword"),
                          ("missing", "missing-argument"), ("positional argument", "too-many-positional"),
                          ("positional-only arguments passed as keyword", "positional-only-passed-as-keyword")):
            if pat in m:
                return f"provided-raises|py:{name}"
        m = re.sub(r"^[\w.<>]+\(\) ", "", m)
        m = re.sub(r"'[^']*'", "'N'", m)
        return "provided-raises|py:other:" + re.sub(r"\d+", "#", m)[:60]
    return "none"


def judge_callable(ctx, E, G, route: int, checker, recheck_exclude_any: bool = True):
    """E, G: signatures (parameter tuples). Soundness of `A(E) accepts B(G)` judged by executing, on G's reference
    function (a member of every form of B), every pool call that E permits."""
    a = callable_value(E, 2 if route == 2 else 0, checker)
    b = callable_value(G, 0 if route == 1 else 1, checker)
    w = {"law": "callable", "E": [list(p) for p in E], "G": [list(p) for p in G], "route": route}
    desc = f"({ty.callsig_params_text(E)}) [{CALLABLE_ROUTES[route].split('<-')[0]}] <- ({ty.callsig_params_text(G)}) [{CALLABLE_ROUTES[route].split('<-')[1]}]"
    if a is False:
        ctx.count("callable_signature_unavailable")
        return None
    try:
        acc = accepts(a, b, checker)
    except Exception as e:  # noqa: BLE001
        ctx.violation(f"raises|{type(e).__name__}|callable|{CALLABLE_ROUTES[route]}", f"{desc}: can_assign raised {e!r}", w)
        return None
    ctx.count("evaluations")
    ctx.count("pairs")
    ctx.count("callable_pairs")
    if E == G and not acc:
        ctx.violation(f"reflexivity|callable|{CALLABLE_ROUTES[route]}", f"{desc}: a callable type rejects its own signature", w)
    if not acc:
        if recheck_exclude_any:
            with checker.set_exclude_any():
                try:
                    acc2 = accepts(a, b, checker)
                except Exception:  # noqa: BLE001
                    acc2 = False
            ctx.count("exclude_any_rechecks")
            if acc2:
                ctx.violation(f"exclude-any-accepts|callable|{CALLABLE_ROUTES[route]}", f"{desc} rejected normally but accepted under set_exclude_any()", w)
        return acc
    ctx.count("accepted_pairs")
    ctx.count("callable_accepted")
    permitted = ty.callsig_mask(E)
    ctx.histo("callable_accepted_by_edit", f"{'+'.join(_cs_label(p) for p in E) or 'none'} <- {'+'.join(_cs_label(p) for p in G) or 'none'}"[:80])
    if permitted and E != G:
        ctx.nontrivial((ty.callsig_params_text(E), ty.callsig_params_text(G), "callable", route))
    bad = permitted & ~ty.callsig_mask(G)
    ctx.count("callable_calls_compared", bin(permitted).count("1"))
    if bad:
        calls = ty.callsig_calls()
        seen = set()
        j = 0
        while bad:
            if bad & 1:
                cls = callable_failure(E, G, calls[j])
                if cls not in seen:
                    seen.add(cls)
                    pos, kw = calls[j]
                    shown = ", ".join([repr(x) for x in pos] + [f"{k}={v!r}" for k, v in kw.items()])
                    ctx.violation(
                        f"callable|accepted-but-{cls}",
                        f"{desc} is accepted, but the call f({shown}) is valid for the expected signature and fails on the "
                        f"provided function ({cls})", w)
            bad >>= 1
            j += 1
    return acc


def callable_section(ctx, checker, idx: int) -> int:
    """All (E, one-edit neighbour G) pairs (quick: E with the canonical naming only), the route rotating with the
    pair; plus a seeded sample of two-edit neighbours and of arbitrary pairs."""
    space = tygen.callsig_space(both_namings=ctx.tier == "thorough")
    if ctx.tier != "thorough":
        # int and str are unrelated, so an expected signature annotated int throughout or str in exactly one place
        # already puts every single parameter in both relations to its (one-edit) counterpart
        space = [E for E in space if sum(1 for p in E if p[3] != "int") <= 1]
    # signatures of one shape (kinds in order) go to the same shard: most one-edit neighbours (annotation, default,
    # name) are then shared between the pairs of a shard and built once
    order = sorted(range(len(space)), key=lambda i: (tuple(p[1] for p in space[i]), i))
    lo, hi = ctx.shard * len(order) // ctx.nshards, (ctx.shard + 1) * len(order) // ctx.nshards
    serial = {G: n for n, G in enumerate(tygen.callsig_space(True))}
    for i in order[lo:hi]:
        E = space[i]
        judge_callable(ctx, E, E, i % 3, checker)
        for j, G in enumerate(tygen.callsig_edits(E)):
            # quick: one route per pair, fixed by the provided signature (each is then built in one form only) and
            # rotating with the seed
            routes = range(3) if ctx.tier == "thorough" else ((serial[G] + ctx.seed) % 3,)
            for r in routes:
                judge_callable(ctx, E, G, r, checker, recheck_exclude_any=(i + j) % 4 == 0)
    rng = ctx.rng
    everything = list(serial)
    for n in range(ctx.pick(250, 6000) // ctx.nshards + 1):
        E = rng.choice(everything)
        if n % 4 == 0:
            G = rng.choice(everything)
            how = "arbitrary"
        else:
            G = rng.choice(tygen.callsig_edits(E))
            G = rng.choice(tygen.callsig_edits(G))
            how = "two-edits"
        acc = judge_callable(ctx, E, G, rng.randrange(3), checker)
        ctx.histo("callable_sampled", f"{how}:{'accepted' if acc else 'rejected'}")
    return idx


def callable_terms(ctx, checker) -> list:
    """A few callable protocol types as ordinary terms (crossed with the depth<=1 terms and every KnownValue)."""
    out = []
    for it in universe.UC:
        ps = ty._CS_PARAMS_OF[it.obj]
        t = ty.CallSig(ps)
        out.append(make_term(t, callable_value(ps, 0, checker), ty.render(t)))
    return out


def wide_member_laws(ctx, W: Term, X: Term, w_accepts_x, checker) -> None:
    """The two union laws with the union's members taken one at a time (W.value.vals are pyanalyze's own flattened
    members): W accepts whatever one member accepts; W is accepted by X exactly when each member is."""
    vals = W.value.vals
    ctx.count("law_instances", 2)
    if w_accepts_x is False:
        for m in vals:
            if accepts(m, X.value, checker):
                x_desc = pair_key_desc(X)
                if X.t.kind == "Lit" and _cross_type_equal(X.t.extra.v, W.t):
                    x_desc = "Lit:cross-type-equal-to-another-member"
                ctx.violation(
                    f"union-lhs|rejected-but-member-accepts|{pair_key_desc(W)}<-{x_desc}",
                    f"{W.text} rejects {X.text} although its member {m} accepts it",
                    {"law": "wide-laws", "A": W.text, "B": X.text},
                )
                break
    whole = accepts(X.value, W.value, checker)
    parts = all(accepts(X.value, m, checker) for m in vals)
    if whole != parts:
        ctx.violation(
            f"union-rhs|{'accepted-but-member-rejected' if whole else 'rejected-but-members-accepted'}|{pair_key_desc(X)}<-Union:{'wide' if len(vals) >= WIDE else 'narrow'}",
            f"{X.text} <- {W.text} is {'accepted' if whole else 'rejected'} but memberwise gives {'accept' if parts else 'reject'}",
            {"law": "wide-laws", "A": W.text, "B": X.text},
        )


def _cross_type_equal(o, t: Ty) -> bool:
    for a in t.args:
        if isinstance(a, Ty) and a.kind == "Lit" and type(a.extra.v) is not type(o):
            try:
                if a.extra.v == o and hash(a.extra.v) == hash(o):
                    return True
            except Exception:  # noqa: BLE001
                pass
    return False


def e2e_batch(ctx, batch, checker) -> None:
    """`def f(b: B): y: A = b` diagnosed  <=>  A rejects B through the API."""
    lines = ["from vp.prelude import *", "import typing"]
    line_of = {}
    for i, (A, B, acc) in enumerate(batch):
        lines.append(f"def f{i}(b: {B.text}) -> None:")
        lines.append(f"    y: {A.text} = b")
        line_of[i] = len(lines)
    source = "\n".join(lines) + "\n"
    res = harness.run(source, overrides={"unused_variable": False, "unused_assignment": False})
    if res.exception is not None:
        ctx.violation("e2e|exception", f"check raised {res.exception!r}", {"law": "e2e-src", "source": source})
        return
    by_line = res.by_line()
    for i, (A, B, acc) in enumerate(batch):
        ds = by_line.get(line_of[i], [])
        if any(d.code not in ("incompatible_assignment",) for d in ds) or by_line.get(line_of[i] - 1):
            ctx.count("e2e_unjudged")
            continue
        ctx.count("evaluations")
        ctx.count("e2e_lines")
        diagnosed = any(d.code == "incompatible_assignment" for d in ds)
        if diagnosed == acc:
            ctx.violation(
                f"e2e-differs|{'api-accepts-checker-rejects' if acc else 'api-rejects-checker-accepts'}|{A.t.kind}<-{B.t.kind}",
                f"`y: {A.text} = b` with b: {B.text} is {'diagnosed' if diagnosed else 'accepted'} by the checker but the API says {'accept' if acc else 'reject'}",
                {"law": "e2e", "A": A.text, "B": B.text},
            )


def annotation_expressible(tm: Term) -> bool:
    return not tm.text.startswith(("KnownValue(", "MultiValuedValue(", "SequenceValue(", "DictIncompleteValue(", "TypedDictValue(", "SubclassValue(", "CallbackProtocol["))


def shard(ctx) -> None:
    from pyanalyze.checker import Checker

    checker = Checker()
    terms = build_terms(ctx)
    direct = direct_terms(ctx)
    allterms = terms + direct
    n1 = len(tygen.depth1())
    small = terms[:n1] + direct
    rng = ctx.rng
    if ctx.shard == 0:
        ctx.count("terms_total", len(allterms))
    # fixed laws for every term
    for i, T in enumerate(allterms):
        if ctx.mine(i):
            fixed_laws(ctx, T, checker)
    # (1) small x all and all x small: exhaustive
    idx = 0
    e2e = []
    for A in allterms:
        for B in small:
            idx += 1
            if ctx.mine(idx):
                acc = judge_pair(ctx, A, B, checker)
                if acc is not None and annotation_expressible(A) and annotation_expressible(B) and rng.random() < 0.01:
                    e2e.append((A, B, acc))
    for A in small:
        for B in terms[n1:]:
            idx += 1
            if ctx.mine(idx):
                acc = judge_pair(ctx, A, B, checker)
                if acc is not None and annotation_expressible(A) and annotation_expressible(B) and rng.random() < 0.01:
                    e2e.append((A, B, acc))
    # (2) depth2 x depth2: sample (quick) / all (thorough); bias to related top constructors
    big = terms[n1:]
    if ctx.tier == "thorough":
        for A in big:
            for B in big:
                idx += 1
                if ctx.mine(idx):
                    judge_pair(ctx, A, B, checker)
    else:
        by_kind = {}
        for tm in big:
            by_kind.setdefault(tm.t.kind, []).append(tm)
        for _ in range(ctx.pick(20000, 0)):
            A = rng.choice(big)
            B = rng.choice(by_kind[A.t.kind]) if rng.random() < 0.6 else rng.choice(big)
            acc = judge_pair(ctx, A, B, checker)
            if acc is not None and rng.random() < 0.02:
                e2e.append((A, B, acc))
    # (W) wide unions x (depth<=1 terms + every KnownValue), both directions, laws member by member
    wide = wide_terms(ctx)
    if ctx.shard == 0:
        ctx.count("wide_union_terms", sum(1 for W in wide if len(W.value.vals) >= WIDE))
    for W in wide:
        is_wide = len(W.value.vals) >= WIDE
        for X in small:
            idx += 1
            if not ctx.mine(idx):
                continue
            acc = judge_pair(ctx, W, X, checker)
            judge_pair(ctx, X, W, checker)
            ctx.count("wide_pairs", 2 if is_wide else 0)
            if is_wide and X.t.kind == "Lit" and isinstance(X.t.extra.v, (list, tuple, dict, set, frozenset)):
                ctx.count("wide_accepts_container_literal_checks")
                ctx.histo("wide_vs_container_literal", f"{type(X.t.extra.v).__name__}:{'accepted' if acc else 'rejected'}")
            try:
                wide_member_laws(ctx, W, X, acc, checker)
            except Exception as e:  # noqa: BLE001
                ctx.violation(f"raises|{type(e).__name__}|wide-union-law|{pair_key_desc(X)}", f"union laws on {W.text} / {X.text} raised {e!r}",
                              {"law": "wide-laws", "A": W.text, "B": X.text})
            if acc is not None and annotation_expressible(X) and annotation_expressible(W) and rng.random() < 0.004:
                e2e.append((W, X, acc))
    # (G) user-defined generic classes: all G x G, and G x depth<=1 in both directions
    gens = generic_terms(ctx)
    d1 = terms[:n1]
    for A in gens:
        for B in gens + d1:
            idx += 1
            if not ctx.mine(idx):
                continue
            acc = judge_pair(ctx, A, B, checker)
            ctx.count("generic_pairs")
            if acc and B.t.kind == "Gen" and A.t.extra is not B.t.extra and B.memb:
                ctx.count("generic_accepted_cross_class")
                ctx.histo("generic_accepted", f"{pair_key_desc(A)}<-{pair_key_desc(B)}")
            if acc is not None and rng.random() < 0.01:
                e2e.append((A, B, acc))
        for B in d1:
            idx += 1
            if ctx.mine(idx):
                judge_pair(ctx, B, A, checker)
                ctx.count("generic_pairs")
    for i, T in enumerate(gens + wide):
        if ctx.mine(i):
            fixed_laws(ctx, T, checker)
    # (F) finite classes x unions of their literals: all F x F pairs, F x depth<=1/direct terms in both directions
    fin = finite_terms(ctx)
    fterms = [tm for _d, tm in fin]
    direct2 = direct_terms2(ctx)
    for A in direct2:
        for B in direct2 + small + fterms:
            idx += 1
            if ctx.mine(idx):
                judge_pair(ctx, A, B, checker)
                if B not in direct2:
                    judge_pair(ctx, B, A, checker)
                ctx.count("direct2_pairs")
    small = small + direct2
    for desc, A in fin:
        for B in fterms + small:
            idx += 1
            if not ctx.mine(idx):
                continue
            acc = judge_pair(ctx, A, B, checker)
            ctx.count("finite_pairs")
            if B.t.kind == "Cls" and B.t.extra in tygen.FINITE_CLASSES and A.t.kind == "Union":
                ctx.count("finite_literal_union_vs_class")
                same = desc.split(":")[0] == tygen.finite_class_kind(B.t.extra)
                ctx.histo("finite_union_vs_class", f"{desc}<-{'its own class' if same else 'another finite class'}:{'accepted' if acc else 'rejected'}")
            if acc is not None and annotation_expressible(A) and annotation_expressible(B) and rng.random() < 0.02:
                e2e.append((A, B, acc))
        for B in small:
            idx += 1
            if ctx.mine(idx):
                judge_pair(ctx, B, A, checker)
                ctx.count("finite_pairs")
    # (K) callable types: signature pairs judged by executing calls; a few of them as ordinary terms
    idx = callable_section(ctx, checker, idx)
    kterms = callable_terms(ctx, checker)
    for A in kterms:
        for B in kterms + small:
            idx += 1
            if ctx.mine(idx):
                judge_pair(ctx, A, B, checker)
                judge_pair(ctx, B, A, checker)
                ctx.count("callable_term_pairs", 2)
    for i, T in enumerate(fterms + kterms + direct2):
        if ctx.mine(i):
            fixed_laws(ctx, T, checker)
    # (3) union laws over random triples
    for _ in range(ctx.pick(3000, 20000)):
        A, B1, B2 = rng.choice(allterms), rng.choice(allterms), rng.choice(allterms)
        try:
            union_laws(ctx, A, B1, B2, checker, raw=rng.random() < 0.5)
        except Exception as e:  # noqa: BLE001
            ctx.violation(f"raises|{type(e).__name__}|union-law", f"union law on {A.text}, {B1.text}, {B2.text} raised {e!r}",
                          {"law": "union-rhs", "A": A.text, "B1": B1.text, "B2": B2.text, "raw": False})
    for i in range(0, len(e2e), 150):
        e2e_batch(ctx, e2e[i : i + 150], checker)
    if len(ctx.samples) < 3:
        ctx.sample({"A": allterms[7].text, "B": allterms[40].text, "accepted": accepts(allterms[7].value, allterms[40].value, checker)})


_TERM_CACHE = {}


def _term_by_text(text: str):
    from vp.core import Ctx

    if not _TERM_CACHE:
        ctx = Ctx(ID, "quick", 0, 0, 1)
        from pyanalyze.checker import Checker

        for tm in (build_terms(ctx) + direct_terms(ctx) + generic_terms(ctx) + wide_terms(ctx) + [tm for _d, tm in finite_terms(ctx)] + direct_terms2(ctx)
                   + callable_terms(ctx, Checker())):
            _TERM_CACHE.setdefault(tm.text, tm)
    if text not in _TERM_CACHE and not text.startswith(("KnownValue(", "MultiValuedValue(", "SequenceValue(", "DictIncompleteValue(", "TypedDictValue(", "SubclassValue(", "CallbackProtocol[")):
        # a sampled term (e.g. a wide union of another seed): rebuild it from its annotation text
        from pyanalyze.annotations import type_from_runtime
        from vp.props.c03 import _find_ty

        try:
            t = _find_ty(text)
            _TERM_CACHE[text] = make_term(t, type_from_runtime(eval(text, dict(ty.eval_ns()))), text)
        except Exception:  # noqa: BLE001
            return None
    return _TERM_CACHE.get(text)


def replay(witness):
    from pyanalyze.checker import Checker
    from vp.core import Ctx

    ctx = Ctx(ID, "quick", 0, 0, 1)
    checker = Checker()
    law = witness["law"]
    if law == "callable":
        judge_callable(ctx, tuple(tuple(p) for p in witness["E"]), tuple(tuple(p) for p in witness["G"]), witness["route"], checker)
        for key, lst in ctx.violations.items():
            return key, lst[0]["what"]
        return None
    A = _term_by_text(witness["A"])
    if A is None:
        return None
    if law in ("soundness", "exclude-any"):
        B = _term_by_text(witness["B"])
        if B is None:
            return None
        judge_pair(ctx, A, B, checker)
    elif law in ("reflexivity", "never", "object", "any-rhs", "any-lhs"):
        fixed_laws(ctx, A, checker)
    elif law in ("union-rhs", "union-lhs"):
        B1, B2 = _term_by_text(witness["B1"]), _term_by_text(witness["B2"])
        if B1 is None or B2 is None:
            return None
        union_laws(ctx, A, B1, B2, checker, raw=witness.get("raw", False))
    elif law == "wide-laws":
        B = _term_by_text(witness["B"])
        if B is None:
            return None
        wide_member_laws(ctx, A, B, accepts(A.value, B.value, checker), checker)
    elif law == "e2e":
        B = _term_by_text(witness["B"])
        if B is None:
            return None
        e2e_batch(ctx, [(A, B, accepts(A.value, B.value, checker))], checker)
    for key, lst in ctx.violations.items():
        return key, lst[0]["what"]
    return None
