"""C05 — argument-to-parameter binding agrees with CPython.

Monitor: every generated call is (a) checked by the real pyanalyze, (b) executed by CPython.
Bodies are `pass`, so any TypeError raised by executing the call is a binding error.
"""
from __future__ import annotations

import itertools
import re

from vp import harness
from vp.sigs import Call, Sig, call_shapes, enumerate_sigs, mutate_call, valid_call, VA, VK, PO, PK, KO

ID = "C05"
LEVEL = "exploration"
RULE = (
    "case = (def signature, call shape); signatures enumerated exhaustively up to n parameters over "
    "all kinds/default patterns; call shapes enumerated exhaustively (quick: n<=3; thorough: n<=4) over "
    "0-4 positionals x keyword subsets x *(..) literal x **{..} literal, plus valid-call mutations for larger n; "
    "star-arguments of unknown length are judged against every expansion up to length 4. ORDERED calls: for every "
    "signature (quick: n<=3, thorough: n<=4; n up to 4 / 5: a sample of 24 / 60 orders) every argument ORDER Python's grammar allows "
    "over {positional, *iterable, keyword, **mapping} up to 4 items (159 orders; positional not after keyword/**, "
    "* not after **) is instantiated: *-items as tuple/list literals of 0-2 elements or list[int]/tuple[int, ...] "
    "variables, keyword names from the parameter names + 1 foreign name, **-items as dict literals, total TypedDict "
    "variables, non-total TypedDict variables or a dict[str, int] variable with 0-2 keys from the same pool; per "
    "(signature, order) several random instantiations are executed under CPython first and one binding call plus "
    "one call per sampled CPython error class is kept (so duplicates between any two keyword sources in either "
    "order, positional/keyword clashes, etc. are reached as the ONLY error of a call). Calls whose items are all "
    "statically known are judged exactly, the others against every expansion. Non-trivial = distinct "
    "(signature kinds+defaults string, call-shape class npos/kw-classes/star/dstar | ordered item forms); evidence "
    "lists per-signature both-verdict counts."
)
ASSUMPTIONS = [
    "CPython 3.12 in /venv is the oracle for binding; function bodies are `pass` so every TypeError is a bind error",
    "diagnosed = an incompatible_call or incompatible_argument diagnostic on the call's line",
    "unknown-length star arguments: expansions enumerated up to length 4 / key subsets of parameter names + 1 foreign key",
    "a **-argument typed as a total TypedDict has a statically known key set (judged exactly, executed with a dict "
    "holding exactly those keys); a non-total TypedDict is judged like an unknown star-argument over every subset of "
    "its keys: accepted => some expansion binds; rejected => for no choice of the other star-arguments (all "
    "non-empty) does every key subset bind",
]
FLOORS = {
    "quick": {"distinct_nontrivial": 20000, "calls_compared": 100000, "star_cases": 2000, "both_bind_and_raise": 1,
              "ordered_exact_cases": 19000, "ordered_exact_binds": 4500, "ordered_exact_raise": 12000,
              "ordered_kw_after_dstar": 3500, "ordered_star_not_last_positional": 7000, "ordered_star_cases": 4500},
    "thorough": {"distinct_nontrivial": 100000, "calls_compared": 1000000, "star_cases": 10000,
                 "ordered_exact_cases": 70000, "ordered_exact_binds": 22000, "ordered_exact_raise": 50000,
                 "ordered_kw_after_dstar": 14000, "ordered_star_not_last_positional": 28000, "ordered_star_cases": 29000},
}
EXHAUSTIVE = {"quick": False, "thorough": False}
BIND_CODES = {"incompatible_call", "incompatible_argument"}
BATCH = 300


def py_class(msg: str) -> str:
    for pat, name in [
        (r"multiple values for keyword argument", "dup-keyword"),
        (r"multiple values for argument", "multiple-values"),
        (r"missing \d+ required positional", "missing-positional"),
        (r"missing \d+ required keyword-only", "missing-kwonly"),
        (r"unexpected keyword argument", "unexpected-keyword"),
        (r"positional-only arguments passed as keyword", "posonly-as-keyword"),
        (r"takes .* positional arguments? but", "too-many-positional"),
        (r"takes no arguments|takes 0 positional", "too-many-positional"),
    ]:
        if re.search(pat, msg):
            return name
    return "other"


def pa_class(descs) -> str:
    """pyanalyze's message with names and numbers abstracted away (mechanism, not instance)."""
    if not descs:
        return "none"
    d = descs[0]
    d = re.sub(r"^In call to [^:]*: ", "", d)
    d = re.sub(r"'[^']*'", "'N'", d)
    d = re.sub(r"\bparameter \w+ should", "parameter N should", d)
    d = re.sub(r"\d+", "#", d)
    return d[:80]


def call_features(sig: Sig, c: Call) -> str:
    f = []
    if c.star is not None:
        f.append(f"star{min(c.star, 1)}")
    if c.dstar is not None:
        f.append("dstar" + ("-dup" if set(c.dstar) & set(c.kws) else ""))
    kinds = {p.name: p.kind for p in sig.params}
    kk = sorted({kinds.get(k, "foreign") for k in [*c.kws, *(c.dstar or ())]})
    if kk:
        f.append("kw:" + "+".join(kk))
    if any(p.kind == VA for p in sig.params):
        f.append("*args")
    if any(p.kind == VK for p in sig.params):
        f.append("**kw")
    return ",".join(f)


def check_batch(ctx, batch) -> None:
    """batch: list of (sig, call). One module: defs + a never-called function holding one call per line."""
    sigs = {}
    lines = []
    for sig, c in batch:
        if sig not in sigs:
            sigs[sig] = f"f{len(sigs)}"
            lines.append(sig.render(sigs[sig]))
    lines.append("def caller():")
    call_line = {}
    srcs = []
    for i, (sig, c) in enumerate(batch):
        src = c.render(sigs[sig])
        lines.append("    " + src)
        call_line[i] = len(lines)
        srcs.append(src)
    source = "\n".join(lines) + "\n"
    res = harness.run(source, keep_module=True)
    try:
        if res.exception is not None:
            ctx.violation("harness|exception", f"check raised {res.exception!r}", {"source": source})
            return
        by_line = res.by_line()
        ns = res.module.__dict__
        for i, (sig, c) in enumerate(batch):
            ds = by_line.get(call_line[i], [])
            bind_ds = [d for d in ds if d.code in BIND_CODES]
            other = [d.code for d in ds if d.code not in BIND_CODES]
            for o in other:
                ctx.histo("other_codes_on_call_lines", o)
            try:
                eval(srcs[i], ns)
                raised = None
            except TypeError as e:
                raised = str(e)
            ctx.count("evaluations")
            ctx.count("calls_compared")
            diagnosed = bool(bind_ds)
            ctx.count("both_bind_and_raise" if raised else "binds")
            ctx.nontrivial((sig.shape(), c.shape(), call_features(sig, c)))
            ctx.histo("verdicts", f"py={'raise' if raised else 'ok'},pa={'diag' if diagnosed else 'ok'}")
            if raised:
                ctx.histo("cpython_error_class", py_class(raised))
            if diagnosed != bool(raised):
                direction = "missed" if raised else "spurious"
                key = (
                    f"{direction}|py:{py_class(raised) if raised else 'binds'}|"
                    f"pa:{pa_class([d.description for d in bind_ds])}|{call_features(sig, c)}"
                )
                what = (
                    f"{sig.render('f')} ; call {c.render('f')}: CPython "
                    f"{'raises TypeError: ' + raised if raised else 'binds'}, pyanalyze "
                    f"{'reports ' + bind_ds[0].short() if bind_ds else 'reports nothing'}"
                )
                ctx.violation(key, what, {"kind": "literal", "sig": sig_to_json(sig), "call": call_to_json(c)})
        if len(ctx.samples) < 2:
            sig, c = batch[0]
            ctx.sample({"def": sig.render("f"), "call": c.render("f")})
    finally:
        harness.forget_module(res.module)


def sig_to_json(sig: Sig):
    return [[p.name, p.kind, p.default] for p in sig.params]


def sig_from_json(j) -> Sig:
    from vp.sigs import Param

    return Sig(tuple(Param(n, k, d) for n, k, d in j))


def call_to_json(c: Call):
    return {"npos": c.npos, "kws": list(c.kws), "star": c.star, "dstar": None if c.dstar is None else list(c.dstar)}


def call_from_json(j) -> Call:
    return Call(j["npos"], tuple(j["kws"]), j["star"], None if j["dstar"] is None else tuple(j["dstar"]))


# ---------------------------------------------------------------------------
# star-arguments of unknown length

STAR_FORMS = [
    # (template, star-args used)  {P} = explicit positionals, {K} = explicit keywords
    ("*xs", ("xs",)),
    ("*t", ("t",)),
    ("*xs, *t", ("xs", "t")),
    ("**kw", ("kw",)),
    ("*xs, **kw", ("xs", "kw")),
]


def star_cases(sig: Sig, rng, n: int):
    names = sig.names()
    out = []
    for _ in range(n):
        form, used = rng.choice(STAR_FORMS)
        npos = rng.randrange(0, 3)
        pool = [*names, "zz"]
        kws = tuple(rng.sample(pool, rng.randrange(0, min(2, len(pool)) + 1)))
        out.append((npos, form, used, kws))
    return out


def render_star_call(fname, npos, form, kws) -> str:
    args = [str(i + 1) for i in range(npos)]
    star_parts = [s.strip() for s in form.split(",")]
    args += [s for s in star_parts if s.startswith("*") and not s.startswith("**")]
    args += [f"{k}={20 + i}" for i, k in enumerate(kws)]
    args += [s for s in star_parts if s.startswith("**")]
    return f"{fname}({', '.join(args)})"


def expansions(sig: Sig, used):
    names = sig.names()
    keypool = [*names, "zz"]
    # long enough to fill every positional parameter from one star-argument alone (at least up to length 4)
    maxlen = max(4, sum(1 for p in sig.params if p.kind in (PO, PK)) + 1)
    xs_opts = [tuple(range(100, 100 + n)) for n in range(0, maxlen + 1)] if "xs" in used else [None]
    t_opts = [tuple(range(200, 200 + n)) for n in range(0, maxlen + 1)] if "t" in used else [None]
    if "kw" in used:
        kw_opts = [dict.fromkeys(c, 7) for r in range(0, len(keypool) + 1) for c in itertools.combinations(keypool, r)]
    else:
        kw_opts = [None]
    for xs in xs_opts:
        for t in t_opts:
            for kw in kw_opts:
                yield xs, t, kw


def check_star_batch(ctx, batch) -> None:
    sigs = {}
    lines = []
    for sig, case in batch:
        if sig not in sigs:
            sigs[sig] = f"f{len(sigs)}"
            lines.append(sig.render(sigs[sig]))
    lines.append("def caller(xs: list[int], t: tuple[int, ...], kw: dict[str, int]):")
    call_line = {}
    srcs = []
    for i, (sig, (npos, form, used, kws)) in enumerate(batch):
        src = render_star_call(sigs[sig], npos, form, kws)
        lines.append("    " + src)
        call_line[i] = len(lines)
        srcs.append(src)
    source = "\n".join(lines) + "\n"
    res = harness.run(source, keep_module=True)
    try:
        if res.exception is not None:
            ctx.violation("harness|exception", f"check raised {res.exception!r}", {"source": source})
            return
        by_line = res.by_line()
        ns = res.module.__dict__
        for i, (sig, (npos, form, used, kws)) in enumerate(batch):
            ds = [d for d in by_line.get(call_line[i], []) if d.code in BIND_CODES]
            code = compile(srcs[i], "<call>", "eval")
            any_binds = False
            any_nonempty_binds = False
            n_exp = 0
            err_classes = []  # error class of the first failing (smallest) expansion
            for xs, t, kw in expansions(sig, used):
                n_exp += 1
                env = dict(ns)
                env.update(xs=list(xs) if xs is not None else None, t=t, kw=kw)
                try:
                    eval(code, env)
                    ok = True
                except TypeError as e:
                    ok = False
                    if not err_classes:
                        err_classes.append(py_class(str(e)))
                if ok:
                    any_binds = True
                    if all(v for v in (xs, t, kw) if v is not None):
                        any_nonempty_binds = True
            ctx.count("evaluations")
            ctx.count("star_cases")
            ctx.count("star_expansions_executed", n_exp)
            diagnosed = bool(ds)
            ctx.nontrivial(("star", sig.shape(), npos, form, tuple(sorted(kws))))
            ctx.histo("star_verdicts", f"any={any_binds},nonempty={any_nonempty_binds},pa={'diag' if diagnosed else 'ok'}")
            bad = None
            if not diagnosed and not any_binds:
                bad = "accepted-but-no-expansion-binds"
            elif diagnosed and any_nonempty_binds:
                bad = "rejected-but-nonempty-expansion-binds"
            if bad:
                if diagnosed:
                    key = f"star|{bad}|pa:{pa_class([d.description for d in ds])}"
                else:
                    key = f"star|{bad}|py:{'+'.join(err_classes)}"
                what = f"{sig.render('f')} ; call {render_star_call('f', npos, form, kws)} with xs: list[int], t: tuple[int, ...], kw: dict[str, int]: {bad}; pyanalyze: {[d.short() for d in ds]}"
                ctx.violation(key, what, {"kind": "star", "sig": sig_to_json(sig), "npos": npos, "form": form, "used": list(used), "kws": list(kws)})
    finally:
        harness.forget_module(res.module)


# ---------------------------------------------------------------------------
# ORDERED calls: every order of positional / *iterable / keyword / **mapping items the grammar allows
#
# item forms (JSON-able lists):
#   ["p"]                       explicit positional
#   ["s", "tuple"|"list", n]    *(..) / *[..] literal with n elements
#   ["u", "xs"|"t"]             *xs (list[int]) / *t (tuple[int, ...]) of unknown length
#   ["k", name]                 explicit keyword
#   ["d", "lit"|"td"|"nt", [keys]]   **{..} literal / **total-TypedDict variable / **non-total-TypedDict variable
#   ["dk"]                      **kw (dict[str, int]) with unknown keys


def ordered_patterns(maxlen: int) -> list:
    """Every sequence over P(ositional) S(tar) K(eyword) D(ouble-star) that Python's grammar accepts."""
    out = []
    rank = {"P": 0, "S": 0, "K": 1, "D": 2}

    def rec(seq, phase):
        if seq:
            out.append("".join(seq))
        if len(seq) == maxlen:
            return
        for ch in "PSKD":
            if ch == "P" and phase > 0:  # positional argument follows keyword argument / ** unpacking
                continue
            if ch == "S" and phase > 1:  # iterable unpacking follows ** unpacking
                continue
            rec(seq + [ch], max(phase, rank[ch]))

    rec([], 0)
    return out


def instantiate(pattern: str, names, rng, exact: bool):
    pool = [*names, "zz"]
    used_kw = set()
    unk = set()
    items = []
    for ch in pattern:
        if ch == "P":
            items.append(["p"])
        elif ch == "S":
            r = rng.random()
            if not exact and r < 0.4 and "xs" not in unk:
                unk.add("xs")
                items.append(["u", "xs"])
            elif not exact and r < 0.7 and "t" not in unk:
                unk.add("t")
                items.append(["u", "t"])
            else:
                items.append(["s", rng.choice(["tuple", "tuple", "list"]), rng.choice([0, 1, 1, 2])])
        elif ch == "K":
            cands = [k for k in pool if k not in used_kw]
            if not cands:
                return None
            k = rng.choice(cands)
            used_kw.add(k)
            items.append(["k", k])
        else:
            r = rng.random()
            keys = sorted(rng.sample(pool, min(len(pool), rng.choice([0, 1, 1, 1, 2]))))
            if not exact and r < 0.4 and "kw" not in unk:
                unk.add("kw")
                items.append(["dk"])
            elif not exact and r < 0.65 and keys:
                items.append(["d", "nt", keys])
            elif r < 0.3 or (not exact and r > 0.9):
                items.append(["d", "td", keys])
            else:
                items.append(["d", "lit", keys])
    return items


def is_exact(items) -> bool:
    return not any(it[0] in ("u", "dk") or (it[0] == "d" and it[1] == "nt") for it in items)


def td_var(it) -> str:
    return f"{it[1]}_{'_'.join(it[2])}"


def render_ordered(fname: str, items) -> str:
    args = []
    np = ns_ = nk = nd = 0
    for it in items:
        if it[0] == "p":
            np += 1
            args.append(str(np))
        elif it[0] == "s":
            inner = ", ".join(str(10 + ns_ + i) for i in range(it[2]))
            ns_ += it[2]
            if it[1] == "tuple":
                args.append(f"*({inner}{',' if it[2] == 1 else ''})")
            else:
                args.append(f"*[{inner}]")
        elif it[0] == "u":
            args.append("*" + it[1])
        elif it[0] == "k":
            args.append(f"{it[1]}={20 + nk}")
            nk += 1
        elif it[0] == "dk":
            args.append("**kw")
        elif it[1] == "lit":
            inner = ", ".join(f"{k!r}: {30 + nd + i}" for i, k in enumerate(it[2]))
            nd += len(it[2])
            args.append("**{" + inner + "}")
        else:
            args.append("**" + td_var(it))
    return f"{fname}({', '.join(args)})"


def ordered_env_static(items) -> dict:
    """Runtime values of the total-TypedDict variables (exactly their keys)."""
    return {td_var(it): dict.fromkeys(it[2], 7) for it in items if it[0] == "d" and it[1] == "td"}


def ordered_expansions(sig: Sig, items):
    """(outer, inner) where outer ranges over the unknown-length star variables and inner over the key subsets of
    the non-total TypedDict variables."""
    names = sig.names()
    keypool = [*names, "zz"]
    maxlen = max(4, sum(1 for p in sig.params if p.kind in (PO, PK)) + 1)
    used = {it[1] for it in items if it[0] == "u"}
    outer_vars = []
    outer_opts = []
    for v, base in (("xs", 100), ("t", 200)):
        if v in used:
            outer_vars.append(v)
            vals = [tuple(range(base, base + n)) for n in range(0, maxlen + 1)]
            outer_opts.append([list(x) for x in vals] if v == "xs" else vals)
    if any(it[0] == "dk" for it in items):
        outer_vars.append("kw")
        outer_opts.append([dict.fromkeys(c, 7) for r in range(0, len(keypool) + 1) for c in itertools.combinations(keypool, r)])
    inner_vars = []
    inner_opts = []
    for it in items:
        if it[0] == "d" and it[1] == "nt" and td_var(it) not in inner_vars:
            inner_vars.append(td_var(it))
            inner_opts.append([dict.fromkeys(c, 7) for r in range(0, len(it[2]) + 1) for c in itertools.combinations(it[2], r)])
    return outer_vars, outer_opts, inner_vars, inner_opts


def ordered_features(sig: Sig, items) -> str:
    f = []
    kinds = [it[0] for it in items]
    forms = sorted({("star-lit" if it[0] == "s" else "star-unk") for it in items if it[0] in ("s", "u")}
                   | {("dstar-unk" if it[0] == "dk" else "dstar-" + it[1]) for it in items if it[0] in ("d", "dk")})
    f += forms
    seen_star = seen_kw = seen_d = False
    flags = set()
    for k in kinds:
        if k == "p" and seen_star:
            flags.add("pos-after-star")
        if k in ("s", "u"):
            if seen_star:
                flags.add("two-stars")
            if seen_kw:
                flags.add("star-after-kw")
            seen_star = True
        if k == "k":
            if seen_d:
                flags.add("kw-after-dstar")
            seen_kw = True
        if k in ("d", "dk"):
            if seen_d:
                flags.add("two-dstars")
            seen_d = True
    f += sorted(flags)
    # duplicates between keyword sources, with the order in which they appear
    seen = {}
    dups = set()
    for it in items:
        if it[0] == "k":
            src, keys = "kw", [it[1]]
        elif it[0] == "d":
            src, keys = "dstar", it[2]
        else:
            continue
        for k in keys:
            if k in seen:
                dups.add(f"dup:{seen[k]}-then-{src}")
            else:
                seen[k] = src
    f += sorted(dups)
    return ",".join(f)


def definite_after_unknown_star_exceed(sig: Sig, items) -> bool:
    if any(p.kind == VA for p in sig.params):
        return False
    capacity = sum(1 for p in sig.params if p.kind in (PO, PK))
    definite = sum(1 if it[0] == "p" else it[2] for it in items if it[0] in ("p", "s"))
    seen_unknown = False
    after = 0
    for it in items:
        if it[0] == "u":
            seen_unknown = True
        elif seen_unknown and it[0] in ("p", "s"):
            after += 1 if it[0] == "p" else it[2]
    return definite > capacity and after > 0


def ordered_shape(items) -> str:
    out = []
    for it in items:
        if it[0] == "p":
            out.append("P")
        elif it[0] == "s":
            out.append(f"S{it[1][0]}{it[2]}")
        elif it[0] == "u":
            out.append("U" + it[1])
        elif it[0] == "k":
            out.append("K")
        elif it[0] == "dk":
            out.append("Dkw")
        else:
            out.append(f"D{it[1]}{len(it[2])}")
    return " ".join(out)


def ordered_cases(sig: Sig, rng, patterns, tries: int, p_star: float):
    """For every order: instantiate `tries` fully-known calls, execute them under CPython, keep one that binds and one
    per sampled error class; plus (with probability p_star) one call with star-arguments of unknown length."""
    names = sig.names()
    ns = {}
    exec(sig.render("f"), ns)
    out = []
    for pat in patterns:
        by_class = {}
        for _ in range(tries):
            items = instantiate(pat, names, rng, True)
            if items is None:
                continue
            env = dict(ns)
            env.update(ordered_env_static(items))
            try:
                eval(render_ordered("f", items), env)
                cls = "binds"
            except TypeError as e:
                cls = py_class(str(e))
            by_class.setdefault(cls, items)
        if "binds" in by_class:
            out.append(by_class.pop("binds"))
        if by_class:
            out.append(by_class[rng.choice(sorted(by_class))])
        if any(ch in "SD" for ch in pat) and rng.random() < p_star:
            for _ in range(4):
                items = instantiate(pat, names, rng, False)
                if items is not None and not is_exact(items):
                    out.append(items)
                    break
    return out


def check_ordered_batch(ctx, batch) -> None:
    """batch: list of (sig, items)."""
    sigs = {}
    tds = {}
    lines = ["from typing_extensions import TypedDict"]
    for sig, items in batch:
        if sig not in sigs:
            sigs[sig] = f"f{len(sigs)}"
            lines.append(sig.render(sigs[sig]))
        for it in items:
            if it[0] == "d" and it[1] in ("td", "nt") and td_var(it) not in tds:
                v = td_var(it)
                fields = ", ".join(f"{k!r}: int" for k in it[2])
                tds[v] = v.upper()
                lines.append(f"{v.upper()} = TypedDict({v.upper()!r}, {{{fields}}}{', total=False' if it[1] == 'nt' else ''})")
    td_params = "".join(f", {v}: {cls}" for v, cls in tds.items())
    lines.append(f"def caller(xs: list[int], t: tuple[int, ...], kw: dict[str, int]{td_params}):")
    call_line = {}
    srcs = []
    for i, (sig, items) in enumerate(batch):
        src = render_ordered(sigs[sig], items)
        lines.append("    " + src)
        call_line[i] = len(lines)
        srcs.append(src)
    source = "\n".join(lines) + "\n"
    res = harness.run(source, keep_module=True)
    try:
        if res.exception is not None:
            ctx.violation("harness|exception", f"check raised {res.exception!r}", {"source": source})
            return
        by_line = res.by_line()
        ns = res.module.__dict__
        for i, (sig, items) in enumerate(batch):
            ds = [d for d in by_line.get(call_line[i], []) if d.code in BIND_CODES]
            diagnosed = bool(ds)
            code = compile(srcs[i], "<call>", "eval")
            feats = ordered_features(sig, items)
            shown = f"{sig.render('f')} ; call {render_ordered('f', items)}"
            wit = {"kind": "ordered", "sig": sig_to_json(sig), "items": items}
            ns.update(ordered_env_static(items))
            ctx.count("evaluations")
            ctx.nontrivial(("ordered", sig.shape(), ordered_shape(items), feats))
            for fl in feats.split(","):
                if fl:
                    ctx.histo("ordered_features", fl)
            if is_exact(items):
                try:
                    eval(code, ns)
                    raised = None
                except TypeError as e:
                    raised = str(e)
                ctx.count("calls_compared")
                ctx.count("ordered_exact_cases")
                ctx.count("ordered_exact_raise" if raised else "ordered_exact_binds")
                if "kw-after-dstar" in feats:
                    ctx.count("ordered_kw_after_dstar")
                if "pos-after-star" in feats or "star-after-kw" in feats:
                    ctx.count("ordered_star_not_last_positional")
                ctx.histo("ordered_verdicts", f"py={'raise' if raised else 'ok'},pa={'diag' if diagnosed else 'ok'}")
                if raised:
                    ctx.histo("ordered_cpython_error_class", py_class(raised))
                if diagnosed != bool(raised):
                    direction = "missed" if raised else "spurious"
                    kfeats = feats
                    if raised and py_class(raised) == "dup-keyword":
                        # only the keyword sources take part in this error: leave the positional side out of the key
                        kfeats = ",".join(f for f in feats.split(",") if f.startswith(("dstar", "dup:", "kw-after", "two-dstars")))
                    key = (
                        f"{direction}|py:{py_class(raised) if raised else 'binds'}|"
                        f"pa:{pa_class([d.description for d in ds])}|ord:{kfeats}"
                    )
                    what = (
                        f"{shown}: CPython {'raises TypeError: ' + raised if raised else 'binds'}, pyanalyze "
                        f"{'reports ' + ds[0].short() if ds else 'reports nothing'}"
                    )
                    ctx.violation(key, what, wit)
                continue
            # star-arguments of unknown length / non-total TypedDicts: judged against every expansion
            outer_vars, outer_opts, inner_vars, inner_opts = ordered_expansions(sig, items)
            any_binds = False
            robust_nonempty_binds = False
            n_exp = 0
            err_classes = []
            for outer in itertools.product(*outer_opts):
                for v, val in zip(outer_vars, outer):
                    ns[v] = val
                all_inner = True
                for inner in itertools.product(*inner_opts):
                    for v, val in zip(inner_vars, inner):
                        ns[v] = val
                    n_exp += 1
                    try:
                        eval(code, ns)
                        any_binds = True
                    except TypeError as e:
                        all_inner = False
                        c = py_class(str(e))
                        if c not in err_classes:
                            err_classes.append(c)
                if all_inner and all(outer):
                    robust_nonempty_binds = True
            ctx.count("star_cases")
            ctx.count("ordered_star_cases")
            ctx.count("star_expansions_executed", n_exp)
            ctx.histo("ordered_star_verdicts", f"any={any_binds},nonempty={robust_nonempty_binds},pa={'diag' if diagnosed else 'ok'}")
            bad = None
            if not diagnosed and not any_binds:
                bad = "accepted-but-no-expansion-binds"
            elif diagnosed and robust_nonempty_binds:
                bad = "rejected-but-nonempty-expansion-binds"
            if bad:
                if diagnosed:
                    key = f"star|{bad}|pa:{pa_class([d.description for d in ds])}"
                elif definite_after_unknown_star_exceed(sig, items):
                    # one mechanism whatever else the call contains: the explicit positionals / literal-star elements
                    # alone already exceed what the signature takes, and some of them follow an unknown-length *arg
                    key = f"star|{bad}|definite-positionals-after-unknown-star-exceed-capacity"
                else:
                    key = f"star|{bad}|py:{'+'.join(sorted(err_classes))}|ord:{feats}"
                what = (f"{shown} with xs: list[int], t: tuple[int, ...], kw: dict[str, int], td_*/nt_*: total/non-total "
                        f"TypedDicts: {bad}; pyanalyze: {[d.short() for d in ds]}")
                ctx.violation(key, what, wit)
        if len(ctx.samples) < 4:
            sig, items = batch[len(batch) // 2]
            ctx.sample({"def": sig.render("f"), "ordered_call": render_ordered("f", items)})
    finally:
        harness.forget_module(res.module)


def shard(ctx) -> None:
    rng = ctx.rng
    exhaustive_n = ctx.pick(3, 4)
    sample_n = ctx.pick(4, 6)
    per_sig_samples = ctx.pick(60, 250)
    work = []
    idx = 0
    for sig in enumerate_sigs(sample_n):
        n = len(sig.params)
        idx += 1
        if not ctx.mine(idx):
            continue
        names = sig.names()
        if n <= exhaustive_n:
            ctx.count("signatures_exhaustive")
            for c in call_shapes(names, max_pos=4, max_kw=ctx.pick(3, 4), max_star=2, max_dstar=2):
                work.append((sig, c))
        else:
            ctx.count("signatures_sampled")
            seen = set()
            for _ in range(per_sig_samples):
                c = valid_call(sig, rng)
                for _ in range(rng.randrange(0, 3)):
                    c = mutate_call(c, names, rng)
                if c not in seen:
                    seen.add(c)
                    work.append((sig, c))
        if len(work) >= 20000:
            _flush(ctx, work)
            work = []
    _flush(ctx, work)
    # unknown-length star arguments
    star_work = []
    idx = 0
    per = ctx.pick(14, 40)
    for sig in enumerate_sigs(ctx.pick(4, 5)):
        idx += 1
        if not ctx.mine(idx):
            continue
        for case in star_cases(sig, rng, per):
            star_work.append((sig, case))
    for i in range(0, len(star_work), BATCH):
        check_star_batch(ctx, star_work[i : i + BATCH])
    # every argument order the grammar allows
    patterns = ordered_patterns(4)
    ordered_work = []
    idx = 0
    for sig in enumerate_sigs(ctx.pick(4, 5)):
        idx += 1
        if not ctx.mine(idx):
            continue
        if len(sig.params) <= exhaustive_n:
            pats = patterns
        else:
            pats = rng.sample(patterns, ctx.pick(24, 60))
        for items in ordered_cases(sig, rng, pats, ctx.pick(6, 10), ctx.pick(0.35, 0.6)):
            ordered_work.append((sig, items))
    for i in range(0, len(ordered_work), BATCH):
        check_ordered_batch(ctx, ordered_work[i : i + BATCH])


def _flush(ctx, work) -> None:
    for i in range(0, len(work), BATCH):
        check_batch(ctx, work[i : i + BATCH])


def replay(witness):
    from vp.core import Ctx

    ctx = Ctx(ID, "quick", 0, 0, 1)
    sig = sig_from_json(witness["sig"])
    if witness.get("kind") == "ordered":
        check_ordered_batch(ctx, [(sig, witness["items"])])
    elif witness.get("kind") == "star":
        check_star_batch(ctx, [(sig, (witness["npos"], witness["form"], tuple(witness["used"]), tuple(witness["kws"])))])
    else:
        check_batch(ctx, [(sig, call_from_json(witness["call"]))])
    for key, lst in ctx.violations.items():
        return key, lst[0]["what"]
    return None
