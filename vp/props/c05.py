"""C05 — argument-to-parameter binding agrees with CPython.

Monitor: every generated call is (a) checked by the real pyanalyze, (b) executed by CPython.
Bodies are `pass`, so any TypeError raised by executing the call is a binding error.
"""
from __future__ import annotations

import itertools
import re

from vp import harness
from vp.sigs import Call, Sig, call_shapes, enumerate_sigs, mutate_call, valid_call, VA, VK, PO, PK, KO

ID = "C05"
LEVEL = "exploration"
RULE = (
    "case = (def signature, call shape); signatures enumerated exhaustively up to n parameters over "
    "all kinds/default patterns; call shapes enumerated exhaustively (quick: n<=3; thorough: n<=4) over "
    "0-4 positionals x keyword subsets x *(..) literal x **{..} literal, plus valid-call mutations for larger n; "
    "star-arguments of unknown length are judged against every expansion up to length 4. Non-trivial = distinct "
    "(signature kinds+defaults string, call-shape class npos/kw-classes/star/dstar); evidence lists per-signature "
    "both-verdict counts."
)
ASSUMPTIONS = [
    "CPython 3.12 in /venv is the oracle for binding; function bodies are `pass` so every TypeError is a bind error",
    "diagnosed = an incompatible_call or incompatible_argument diagnostic on the call's line",
    "unknown-length star arguments: expansions enumerated up to length 4 / key subsets of parameter names + 1 foreign key",
]
FLOORS = {
    "quick": {"distinct_nontrivial": 20000, "calls_compared": 100000, "star_cases": 2000, "both_bind_and_raise": 1},
    "thorough": {"distinct_nontrivial": 100000, "calls_compared": 1000000, "star_cases": 10000},
}
EXHAUSTIVE = {"quick": False, "thorough": False}
BIND_CODES = {"incompatible_call", "incompatible_argument"}
BATCH = 300


def py_class(msg: str) -> str:
    for pat, name in [
        (r"multiple values for keyword argument", "dup-keyword"),
        (r"multiple values for argument", "multiple-values"),
        (r"missing \d+ required positional", "missing-positional"),
        (r"missing \d+ required keyword-only", "missing-kwonly"),
        (r"unexpected keyword argument", "unexpected-keyword"),
        (r"positional-only arguments passed as keyword", "posonly-as-keyword"),
        (r"takes .* positional arguments? but", "too-many-positional"),
        (r"takes no arguments|takes 0 positional", "too-many-positional"),
    ]:
        if re.search(pat, msg):
            return name
    return "other"


def pa_class(descs) -> str:
    """pyanalyze's message with names and numbers abstracted away (mechanism, not instance)."""
    if not descs:
        return "none"
    d = descs[0]
    d = re.sub(r"^In call to [^:]*: ", "", d)
    d = re.sub(r"'[^']*'", "'N'", d)
    d = re.sub(r"\bparameter \w+ should", "parameter N should", d)
    d = re.sub(r"\d+", "#", d)
    return d[:80]


def call_features(sig: Sig, c: Call) -> str:
    f = []
    if c.star is not None:
        f.append(f"star{min(c.star, 1)}")
    if c.dstar is not None:
        f.append("dstar" + ("-dup" if set(c.dstar) & set(c.kws) else ""))
    kinds = {p.name: p.kind for p in sig.params}
    kk = sorted({kinds.get(k, "foreign") for k in [*c.kws, *(c.dstar or ())]})
    if kk:
        f.append("kw:" + "+".join(kk))
    if any(p.kind == VA for p in sig.params):
        f.append("*args")
    if any(p.kind == VK for p in sig.params):
        f.append("**kw")
    return ",".join(f)


def check_batch(ctx, batch) -> None:
    """batch: list of (sig, call). One module: defs + a never-called function holding one call per line."""
    sigs = {}
    lines = []
    for sig, c in batch:
        if sig not in sigs:
            sigs[sig] = f"f{len(sigs)}"
            lines.append(sig.render(sigs[sig]))
    lines.append("def caller():")
    call_line = {}
    srcs = []
    for i, (sig, c) in enumerate(batch):
        src = c.render(sigs[sig])
        lines.append("    " + src)
        call_line[i] = len(lines)
        srcs.append(src)
    source = "\n".join(lines) + "\n"
    res = harness.run(source, keep_module=True)
    try:
        if res.exception is not None:
            ctx.violation("harness|exception", f"check raised {res.exception!r}", {"source": source})
            return
        by_line = res.by_line()
        ns = res.module.__dict__
        for i, (sig, c) in enumerate(batch):
            ds = by_line.get(call_line[i], [])
            bind_ds = [d for d in ds if d.code in BIND_CODES]
            other = [d.code for d in ds if d.code not in BIND_CODES]
            for o in other:
                ctx.histo("other_codes_on_call_lines", o)
            try:
                eval(srcs[i], ns)
                raised = None
            except TypeError as e:
                raised = str(e)
            ctx.count("evaluations")
            ctx.count("calls_compared")
            diagnosed = bool(bind_ds)
            ctx.count("both_bind_and_raise" if raised else "binds")
            ctx.nontrivial((sig.shape(), c.shape(), call_features(sig, c)))
            ctx.histo("verdicts", f"py={'raise' if raised else 'ok'},pa={'diag' if diagnosed else 'ok'}")
            if raised:
                ctx.histo("cpython_error_class", py_class(raised))
            if diagnosed != bool(raised):
                direction = "missed" if raised else "spurious"
                key = (
                    f"{direction}|py:{py_class(raised) if raised else 'binds'}|"
                    f"pa:{pa_class([d.description for d in bind_ds])}|{call_features(sig, c)}"
                )
                what = (
                    f"{sig.render('f')} ; call {c.render('f')}: CPython "
                    f"{'raises TypeError: ' + raised if raised else 'binds'}, pyanalyze "
                    f"{'reports ' + bind_ds[0].short() if bind_ds else 'reports nothing'}"
                )
                ctx.violation(key, what, {"kind": "literal", "sig": sig_to_json(sig), "call": call_to_json(c)})
        if len(ctx.samples) < 2:
            sig, c = batch[0]
            ctx.sample({"def": sig.render("f"), "call": c.render("f")})
    finally:
        harness.forget_module(res.module)


def sig_to_json(sig: Sig):
    return [[p.name, p.kind, p.default] for p in sig.params]


def sig_from_json(j) -> Sig:
    from vp.sigs import Param

    return Sig(tuple(Param(n, k, d) for n, k, d in j))


def call_to_json(c: Call):
    return {"npos": c.npos, "kws": list(c.kws), "star": c.star, "dstar": None if c.dstar is None else list(c.dstar)}


def call_from_json(j) -> Call:
    return Call(j["npos"], tuple(j["kws"]), j["star"], None if j["dstar"] is None else tuple(j["dstar"]))


# ---------------------------------------------------------------------------
# star-arguments of unknown length

STAR_FORMS = [
    # (template, star-args used)  {P} = explicit positionals, {K} = explicit keywords
    ("*xs", ("xs",)),
    ("*t", ("t",)),
    ("*xs, *t", ("xs", "t")),
    ("**kw", ("kw",)),
    ("*xs, **kw", ("xs", "kw")),
]


def star_cases(sig: Sig, rng, n: int):
    names = sig.names()
    out = []
    for _ in range(n):
        form, used = rng.choice(STAR_FORMS)
        npos = rng.randrange(0, 3)
        pool = [*names, "zz"]
        kws = tuple(rng.sample(pool, rng.randrange(0, min(2, len(pool)) + 1)))
        out.append((npos, form, used, kws))
    return out


def render_star_call(fname, npos, form, kws) -> str:
    args = [str(i + 1) for i in range(npos)]
    star_parts = [s.strip() for s in form.split(",")]
    args += [s for s in star_parts if s.startswith("*") and not s.startswith("**")]
    args += [f"{k}={20 + i}" for i, k in enumerate(kws)]
    args += [s for s in star_parts if s.startswith("**")]
    return f"{fname}({', '.join(args)})"


def expansions(sig: Sig, used):
    names = sig.names()
    keypool = [*names, "zz"]
    # long enough to fill every positional parameter from one star-argument alone (at least up to length 4)
    maxlen = max(4, sum(1 for p in sig.params if p.kind in (PO, PK)) + 1)
    xs_opts = [tuple(range(100, 100 + n)) for n in range(0, maxlen + 1)] if "xs" in used else [None]
    t_opts = [tuple(range(200, 200 + n)) for n in range(0, maxlen + 1)] if "t" in used else [None]
    if "kw" in used:
        kw_opts = [dict.fromkeys(c, 7) for r in range(0, len(keypool) + 1) for c in itertools.combinations(keypool, r)]
    else:
        kw_opts = [None]
    for xs in xs_opts:
        for t in t_opts:
            for kw in kw_opts:
                yield xs, t, kw


def check_star_batch(ctx, batch) -> None:
    sigs = {}
    lines = []
    for sig, case in batch:
        if sig not in sigs:
            sigs[sig] = f"f{len(sigs)}"
            lines.append(sig.render(sigs[sig]))
    lines.append("def caller(xs: list[int], t: tuple[int, ...], kw: dict[str, int]):")
    call_line = {}
    srcs = []
    for i, (sig, (npos, form, used, kws)) in enumerate(batch):
        src = render_star_call(sigs[sig], npos, form, kws)
        lines.append("    " + src)
        call_line[i] = len(lines)
        srcs.append(src)
    source = "\n".join(lines) + "\n"
    res = harness.run(source, keep_module=True)
    try:
        if res.exception is not None:
            ctx.violation("harness|exception", f"check raised {res.exception!r}", {"source": source})
            return
        by_line = res.by_line()
        ns = res.module.__dict__
        for i, (sig, (npos, form, used, kws)) in enumerate(batch):
            ds = [d for d in by_line.get(call_line[i], []) if d.code in BIND_CODES]
            code = compile(srcs[i], "<call>", "eval")
            any_binds = False
            any_nonempty_binds = False
            n_exp = 0
            err_classes = []  # error class of the first failing (smallest) expansion
            for xs, t, kw in expansions(sig, used):
                n_exp += 1
                env = dict(ns)
                env.update(xs=list(xs) if xs is not None else None, t=t, kw=kw)
                try:
                    eval(code, env)
                    ok = True
                except TypeError as e:
                    ok = False
                    if not err_classes:
                        err_classes.append(py_class(str(e)))
                if ok:
                    any_binds = True
                    if all(v for v in (xs, t, kw) if v is not None):
                        any_nonempty_binds = True
            ctx.count("evaluations")
            ctx.count("star_cases")
            ctx.count("star_expansions_executed", n_exp)
            diagnosed = bool(ds)
            ctx.nontrivial(("star", sig.shape(), npos, form, tuple(sorted(kws))))
            ctx.histo("star_verdicts", f"any={any_binds},nonempty={any_nonempty_binds},pa={'diag' if diagnosed else 'ok'}")
            bad = None
            if not diagnosed and not any_binds:
                bad = "accepted-but-no-expansion-binds"
            elif diagnosed and any_nonempty_binds:
                bad = "rejected-but-nonempty-expansion-binds"
            if bad:
                if diagnosed:
                    key = f"star|{bad}|pa:{pa_class([d.description for d in ds])}"
                else:
                    key = f"star|{bad}|py:{'+'.join(err_classes)}"
                what = f"{sig.render('f')} ; call {render_star_call('f', npos, form, kws)} with xs: list[int], t: tuple[int, ...], kw: dict[str, int]: {bad}; pyanalyze: {[d.short() for d in ds]}"
                ctx.violation(key, what, {"kind": "star", "sig": sig_to_json(sig), "npos": npos, "form": form, "used": list(used), "kws": list(kws)})
    finally:
        harness.forget_module(res.module)


def shard(ctx) -> None:
    rng = ctx.rng
    exhaustive_n = ctx.pick(3, 4)
    sample_n = ctx.pick(4, 6)
    per_sig_samples = ctx.pick(60, 250)
    work = []
    idx = 0
    for sig in enumerate_sigs(sample_n):
        n = len(sig.params)
        idx += 1
        if not ctx.mine(idx):
            continue
        names = sig.names()
        if n <= exhaustive_n:
            ctx.count("signatures_exhaustive")
            for c in call_shapes(names, max_pos=4, max_kw=ctx.pick(3, 4), max_star=2, max_dstar=2):
                work.append((sig, c))
        else:
            ctx.count("signatures_sampled")
            seen = set()
            for _ in range(per_sig_samples):
                c = valid_call(sig, rng)
                for _ in range(rng.randrange(0, 3)):
                    c = mutate_call(c, names, rng)
                if c not in seen:
                    seen.add(c)
                    work.append((sig, c))
        if len(work) >= 20000:
            _flush(ctx, work)
            work = []
    _flush(ctx, work)
    # unknown-length star arguments
    star_work = []
    idx = 0
    per = ctx.pick(14, 40)
    for sig in enumerate_sigs(ctx.pick(4, 5)):
        idx += 1
        if not ctx.mine(idx):
            continue
        for case in star_cases(sig, rng, per):
            star_work.append((sig, case))
    for i in range(0, len(star_work), BATCH):
        check_star_batch(ctx, star_work[i : i + BATCH])


def _flush(ctx, work) -> None:
    for i in range(0, len(work), BATCH):
        check_batch(ctx, work[i : i + BATCH])


def replay(witness):
    from vp.core import Ctx

    ctx = Ctx(ID, "quick", 0, 0, 1)
    sig = sig_from_json(witness["sig"])
    if witness.get("kind") == "star":
        check_star_batch(ctx, [(sig, (witness["npos"], witness["form"], tuple(witness["used"]), tuple(witness["kws"])))])
    else:
        check_batch(ctx, [(sig, call_from_json(witness["call"]))])
    for key, lst in ctx.violations.items():
        return key, lst[0]["what"]
    return None
