"""C06 — call checking: arguments against parameter types, result type.

Monitor: generated annotated callables (plain, defaulted, *args/**kwargs-typed, methods, classmethods, staticmethods,
constructors, dataclasses, NamedTuples, TypeVar-generic helpers) are called with literal arguments inside a checked,
never-called function (one call per line, annotate=True). For every call that binds:
  (1) diagnosed (incompatible_argument / incompatible_call on the line)  <=>  some argument is not a member of the
      declared type of the parameter it binds to (membership oracle, all memberships decided);
  (2) the call is then EXECUTED and its result must be a member of the type inferred for the call expression.
"""
from __future__ import annotations

import ast

from vp import harness, prelude, ty, tygen, universe
from vp.ty import Ty

ID = "C06"
LEVEL = "exploration"
RULE = (
    "case = (callable, literal argument tuple); callables: 1-4 annotated parameters drawn from a 30-type vocabulary, "
    "defaults, *args: T, **kwargs: T, instance/class/static methods, __init__ constructors, dataclass, NamedTuple, "
    "generic helpers (T, list[T], dict[K, V], Callable[[T], U], bounded and constrained TypeVars); arguments: members "
    "and near-miss non-members from the universe U (literal displays only), by position and by keyword, defaults "
    "omitted. Non-trivial = all memberships decided; distinct by (callable kind, parameter type constructors, argument "
    "sources); both verdicts counted per callable kind."
)
ASSUMPTIONS = [
    "vp.ty.member is the oracle for argument membership; CPython executes the call for the result clause",
    "calls are generated to bind (binding itself is C05's subject); calls that fail to bind at run time are skipped",
    "for generic callables the argument clause is judged against the parameter type with type variables erased to "
    "their bound / constraints / object; the result clause is judged exactly",
]
FLOORS = {
    "quick": {"distinct_nontrivial": 8000, "calls_judged": 10000, "expect_error": 3000, "expect_clean": 3000, "results_checked": 3000},
    "thorough": {"distinct_nontrivial": 60000, "calls_judged": 80000, "results_checked": 25000},
}
CODES = {"incompatible_argument", "incompatible_call"}
BATCH = 150

I, S, F, BL, NONE = ty.Cls(int), ty.Cls(str), ty.Cls(float), ty.Cls(bool), ty.NONE
A, Bc, C = ty.Cls(prelude.A), ty.Cls(prelude.B), ty.Cls(prelude.C)
PARAM_TYPES = [
    I, BL, F, ty.Cls(complex), S, ty.Cls(bytes), NONE, ty.OBJECT, A, Bc, C, ty.Cls(prelude.Color), ty.Cls(prelude.Num),
    ty.Lit(1), ty.Lit("a"), ty.Lit(True), ty.Union(ty.Lit(1), ty.Lit(2)), ty.Lit(prelude.Color.RED),
    ty.Union(I, NONE), ty.Union(S, NONE), ty.Union(I, S), ty.Union(A, C), ty.Union(F, NONE),
    ty.Tuple(I, S), ty.VarTuple(I), ty.Tuple(), ty.List(I), ty.List(S), ty.List(ty.Union(I, NONE)), ty.Dict(S, I), ty.Set(I),
    ty.Seq(I), ty.Iter(S), ty.Map(S, I), ty.TypeOf(A), ty.TypedDictT("TD1", {"a": (I, True), "b": (S, False)}),
    ty.List(ty.Tuple(I, S)), ty.Dict(S, ty.List(I)),
]


def literal_items(t: Ty, rng, want_member: bool, n: int) -> list:
    from vp.props.c03 import is_literal_display, top_related

    pool = [it for it in universe.U if is_literal_display(it.src)]
    if want_member:
        inh = [it for it in universe.inhabitants(t, rng, 8) if is_literal_display(it.src)]
        return inh[:n] if inh else []
    non = [it for it in pool if ty.member(it.obj, t) is False]
    near = [it for it in non if top_related(it.obj, t)]
    out = rng.sample(near, min(len(near), max(1, n - 1))) + rng.sample(non, min(len(non), 1))
    return out[:n]


class Callable_:
    """One generated callable: source lines defining it + how to call it."""

    def __init__(self, kind, name, def_lines, call_prefix, params, ret_desc, star=None, dstar=None, generic=False):
        self.kind = kind
        self.name = name
        self.def_lines = def_lines
        self.call_prefix = call_prefix  # e.g. "f3" / "K3().m" / "K3.cm" / "K3"
        self.params = params            # list of (pname, Ty erased, has_default, kwonly)
        self.star = star                # Ty of *args elements or None
        self.dstar = dstar              # Ty of **kwargs values or None
        self.generic = generic
        self.ret_desc = ret_desc
        self.bad_defaults = {}      # pname -> Item: default value that is NOT a member of the annotation


def ret_for(rng, params, style):
    """return annotation + expression built from parameters so that the result check bites."""
    names = [p for p, _t in params]
    tys = dict(params)
    r = rng.random()
    if r < 0.35 or not names:
        p = rng.choice(names) if names else None
        if p is None:
            return "None", "None"
        return ty.render(tys[p], style), p
    if r < 0.55 and len(names) >= 2:
        a, b = rng.sample(names, 2)
        return f"tuple[{ty.render(tys[a], style)}, {ty.render(tys[b], style)}]", f"({a}, {b})"
    if r < 0.7:
        p = rng.choice(names)
        return f"list[{ty.render(tys[p], style)}]", f"[{p}]"
    if r < 0.8:
        p = rng.choice(names)
        return f"Optional[{ty.render(tys[p], style)}]", f"({p} if {p} else None)"
    if r < 0.9:
        p = rng.choice(names)
        return f"dict[str, {ty.render(tys[p], style)}]", "{'k': " + p + "}"
    return "None", "None"


def gen_callable(rng, k: int) -> Callable_:
    style = rng.randrange(2)
    kind = rng.choice(["plain", "plain", "plain", "default", "kwonly", "star", "dstar", "method", "classmethod", "staticmethod", "init", "dataclass", "namedtuple", "posonly-dstar", "bad-default"])
    n = rng.randrange(1, 4)
    ptypes = [rng.choice(PARAM_TYPES) for _ in range(n)]
    pnames = [f"p{i}" for i in range(n)]
    params = list(zip(pnames, ptypes))
    ret_ann, ret_expr = ret_for(rng, params, style)
    parts = []
    meta = []
    bad_defaults = {}
    for i, (p, t) in enumerate(params):
        has_default = False
        if kind == "bad-default" and i == n - 1:
            # the idiom `x: int = None`: the default lies outside the annotation; passing it explicitly is an error
            non = [it for it in literal_items(t, rng, False, 6) if it.src in ("None", "0", "''", "'a'", "1", "()", "[]")]
            if non:
                has_default = True
                bad_defaults[p] = non[0]
                parts.append(f"{p}: {ty.render(t, style)} = {non[0].src}")
        if kind in ("default", "kwonly") and i == n - 1 or (kind == "plain" and rng.random() < 0.1 and i == n - 1):
            inh = literal_items(t, rng, True, 3)
            if inh:
                has_default = True
                parts.append(f"{p}: {ty.render(t, style)} = {inh[0].src}")
        if not has_default:
            parts.append(f"{p}: {ty.render(t, style)}")
        meta.append((p, t, has_default, False))
    star = dstar = None
    if kind == "kwonly":
        # make the last parameter keyword-only
        parts.insert(len(parts) - 1, "*")
        p, t, d, _ = meta[-1]
        meta[-1] = (p, t, d, True)
    if kind == "star":
        star = rng.choice(PARAM_TYPES[:20])
        parts.append(f"*args: {ty.render(star, style)}")
    if kind in ("dstar", "posonly-dstar"):
        dstar = rng.choice(PARAM_TYPES[:20])
        if kind == "posonly-dstar":
            parts.append("/")  # every named parameter is positional-only: its name is free to be used as a keyword
        parts.append(f"**kwargs: {ty.render(dstar, style)}")
    sig = ", ".join(parts)
    if kind in ("plain", "default", "kwonly", "star", "dstar", "posonly-dstar", "bad-default"):
        lines = [f"def f{k}({sig}) -> {ret_ann}:", f"    return {ret_expr}"]
        c = Callable_(kind, f"f{k}", lines, f"f{k}", meta, ret_ann, star, dstar)
        c.bad_defaults = bad_defaults
        return c
    if kind == "method":
        lines = [f"class K{k}:", f"    def m(self, {sig}) -> {ret_ann}:", f"        return {ret_expr}"]
        return Callable_(kind, f"K{k}", lines, f"K{k}().m", meta, ret_ann)
    if kind == "classmethod":
        lines = [f"class K{k}:", "    @classmethod", f"    def cm(cls, {sig}) -> {ret_ann}:", f"        return {ret_expr}"]
        return Callable_(kind, f"K{k}", lines, f"K{k}.cm", meta, ret_ann)
    if kind == "staticmethod":
        lines = [f"class K{k}:", "    @staticmethod", f"    def sm({sig}) -> {ret_ann}:", f"        return {ret_expr}"]
        return Callable_(kind, f"K{k}", lines, f"K{k}.sm", meta, ret_ann)
    if kind == "init":
        body = [f"        self.{p} = {p}" for p, _ in params]
        lines = [f"class K{k}:", f"    def __init__(self, {sig}) -> None:"] + body
        return Callable_(kind, f"K{k}", lines, f"K{k}", meta, f"K{k}")
    if kind == "dataclass":
        fields = [f"    {part}" for part in parts if part != "*"]
        lines = ["@dataclasses.dataclass", f"class K{k}:"] + fields
        meta = [(p, t, d, False) for p, t, d, _ in meta]
        return Callable_(kind, f"K{k}", lines, f"K{k}", meta, f"K{k}")
    fields = [f"    {part}" for part in parts if part != "*"]
    lines = [f"class K{k}(typing.NamedTuple):"] + fields
    meta = [(p, t, d, False) for p, t, d, _ in meta]
    return Callable_(kind, f"K{k}", lines, f"K{k}", meta, f"K{k}")


GENERIC_DEFS = '''
import dataclasses
TB = TypeVar("TB", bound=A)
TC = TypeVar("TC", int, str)
U_ = TypeVar("U_")
def g_ident(x: T) -> T:
    return x
def g_first(xs: List[T]) -> T:
    return xs[0]
def g_pair(a: K, b: V) -> Dict[K, V]:
    return {a: b}
def g_opt(x: T) -> Optional[T]:
    return x if x else None
def g_apply(f: Callable[[T], U_], x: T) -> U_:
    return f(x)
def g_bound(x: TB) -> TB:
    return x
def g_constrained(x: TC) -> TC:
    return x
def g_two(a: T, b: T) -> List[T]:
    return [a, b]
def g_wrap(x: T) -> Tuple[T, int]:
    return (x, 1)
def g_keys(d: Dict[K, V]) -> List[K]:
    return list(d)
def to_str(x: int) -> str:
    return str(x)
'''
GENERICS = [
    ("g_ident", [("x", ty.OBJECT)]), ("g_first", [("xs", ty.List(ty.OBJECT))]), ("g_pair", [("a", ty.OBJECT), ("b", ty.OBJECT)]),
    ("g_opt", [("x", ty.OBJECT)]), ("g_bound", [("x", A)]), ("g_constrained", [("x", ty.Union(I, S))]),
    ("g_two", [("a", ty.OBJECT), ("b", ty.OBJECT)]), ("g_wrap", [("x", ty.OBJECT)]), ("g_keys", [("d", ty.Dict(ty.OBJECT, ty.OBJECT))]),
]


def gen_calls(rng, c: Callable_, n: int) -> list:
    """Each call: (source, expected_error True/False/None, description). Calls bind by construction."""
    calls = []
    for _ in range(n):
        want_bad = rng.random() < 0.5
        bad_slot = rng.randrange(len(c.params) + (c.star is not None) + (c.dstar is not None)) if want_bad else -1
        args, kwargs = [], []
        verdicts = []
        srcs = []
        ok = True
        for i, (p, t, has_default, kwonly) in enumerate(c.params):
            if has_default and rng.random() < 0.4 and i != bad_slot:
                continue
            items = literal_items(t, rng, i != bad_slot, 4)
            if not items:
                items = literal_items(t, rng, True, 4)
            if not items:
                ok = False
                break
            it = rng.choice(items)
            if p in c.bad_defaults and rng.random() < 0.5:
                it = c.bad_defaults[p]  # the default value passed explicitly
            verdicts.append(ty.member(it.obj, t))
            srcs.append(it.src)
            by_kw = kwonly or (rng.random() < 0.25 and c.kind not in ("star", "posonly-dstar"))
            if by_kw or kwargs:
                kwargs.append(f"{p}={it.src}")
            else:
                args.append(it.src)
        if not ok:
            continue
        slot = len(c.params)
        if c.star is not None:
            for j in range(rng.randrange(0, 3)):
                items = literal_items(c.star, rng, not (bad_slot == slot and j == 0), 4) or literal_items(c.star, rng, True, 4)
                if items and not kwargs:
                    it = rng.choice(items)
                    verdicts.append(ty.member(it.obj, c.star))
                    args.append(it.src)
                    srcs.append(it.src)
            slot += 1
        if c.dstar is not None:
            names = ["zz", "yy"]
            if c.kind == "posonly-dstar":
                names = [c.params[0][0], "kwargs", "zz"]  # a keyword may reuse a positional-only name / the **name
            for j, kwname in enumerate(rng.sample(names, rng.randrange(0, len(names) + 1))):
                items = literal_items(c.dstar, rng, not (bad_slot == slot and j == 0), 4) or literal_items(c.dstar, rng, True, 4)
                if items:
                    it = rng.choice(items)
                    verdicts.append(ty.member(it.obj, c.dstar))
                    kwargs.append(f"{kwname}={it.src}")
                    srcs.append(it.src)
        src = f"{c.call_prefix}({', '.join(args + kwargs)})"
        if any(v is None for v in verdicts):
            expected = None
        else:
            expected = any(v is False for v in verdicts)
        calls.append((src, expected, (c.kind, tuple(ty_kind(t) for _, t, _, _ in c.params), tuple(srcs))))
    return calls


def ty_kind(t: Ty) -> str:
    if t.kind == "Cls":
        return t.extra.__name__
    if t.kind == "Lit":
        return f"Lit:{type(t.extra.v).__name__}"
    if t.kind == "Union":
        return "Union"
    return t.kind


def gen_generic_calls(rng, n: int) -> list:
    from vp.props.c03 import is_literal_display

    pool = [it for it in universe.U if is_literal_display(it.src) and it.src not in ("len", "ident")]
    calls = []
    for _ in range(n):
        name, params = rng.choice(GENERICS)
        args = []
        verdicts = []
        for p, t in params:
            if rng.random() < 0.75:
                items = [it for it in universe.inhabitants(t, rng, 8) if is_literal_display(it.src)] or pool
            else:
                items = pool
            it = rng.choice(items)
            args.append(it.src)
            verdicts.append(ty.member(it.obj, t))
        expected = None if any(v is None for v in verdicts) else any(v is False for v in verdicts)
        if name in ("g_pair",):
            expected = None  # unhashable keys etc. are judged only through the result clause
        calls.append((f"{name}({', '.join(args)})", expected, ("generic:" + name, tuple(args))))
    for _ in range(n // 6):
        x = rng.choice(["1", "True", "'a'", "None", "1.5"])
        calls.append((f"g_apply(to_str, {x})", None if x in ("True",) else x not in ("1", "True"), ("generic:g_apply", (x,))))
    return calls


def check_batch(ctx, callables, calls) -> None:
    lines = ["from vp.prelude import *", "import typing", GENERIC_DEFS]
    for c in callables:
        lines += c.def_lines
    lines.append("def holder():")
    start = sum(l.count("\n") + 1 for l in lines)
    for src, _e, _d in calls:
        lines.append(f"    {src}")
    source = "\n".join(lines) + "\n"
    tree = ast.parse(source)
    holder = next(n for n in tree.body if isinstance(n, ast.FunctionDef) and n.name == "holder")
    assert len(holder.body) == len(calls)
    res = harness.run(source, tree=tree, annotate=True, keep_module=True, overrides={"missing_return": False})
    try:
        if res.exception is not None:
            ctx.violation("harness|exception", f"check raised {res.exception!r}", {"source": source, "index": 0})
            return
        by_line = res.by_line()
        ns = res.module.__dict__
        for i, (src, expected, desc) in enumerate(calls):
            st = holder.body[i]
            ds = [d for d in by_line.get(st.lineno, []) if d.code in CODES]
            other = [d.code for d in by_line.get(st.lineno, []) if d.code not in CODES]
            ctx.count("evaluations")
            try:
                result = eval(src, ns)
                raised = None
            except TypeError as e:
                raised = e
                result = None
            except Exception as e:  # noqa: BLE001
                raised = e
                result = None
            bind_failed = isinstance(raised, TypeError) and any(s in str(raised) for s in ("positional argument", "keyword argument", "required", "multiple values"))
            if bind_failed:
                ctx.count("calls_not_binding_skipped")
                continue
            if "internal_error" in other:
                ctx.count("internal_error_lines")
                continue
            diagnosed = bool(ds)
            wit = {"source": source, "index": i, "call": src}
            if expected is None:
                ctx.count("membership_unknown")
            else:
                ctx.count("calls_judged")
                ctx.count("expect_error" if expected else "expect_clean")
                ctx.nontrivial(desc)
                ctx.histo("kind_x_verdict", f"{desc[0]}:{'error' if expected else 'clean'}")
                if diagnosed != expected:
                    direction = "missed" if expected else "spurious"
                    key = f"{direction}|{desc[0]}|{classify_args(src, ns, ds)}"
                    what = (f"`{src}`: an argument {'is not' if expected else 'is'} a member of its parameter type, pyanalyze reports "
                            f"{[d.short() for d in ds][:1] if ds else 'nothing'}\n{definition_of(source, src)}")
                    ctx.violation(key, what, wit)
            # (callables whose default lies outside the annotation are ill-typed themselves — pyanalyze reports
            # incompatible_default at the def — so what they return is not judged)
            if raised is None and not diagnosed and desc[0] != "bad-default":
                inferred = getattr(st.value, "inferred_value", None)
                if inferred is not None:
                    t = ty.from_value(inferred)
                    m = ty.member(result, t)
                    ctx.count("results_checked")
                    if m is False:
                        key = f"result-not-in-inferred|{desc[0]}|{type(result).__name__} not in {tdesc(t)}"
                        if _equal_args_of_different_type(st.value, ns):
                            key = "result-not-in-inferred|equal-literal-arguments-of-different-type-merged"
                        ctx.violation(key, f"`{src}` returned {result!r} but pyanalyze inferred {inferred}\n{definition_of(source, src)}", wit)
                    elif m is None:
                        ctx.count("result_membership_unknown")
        if len(ctx.samples) < 3 and calls:
            ctx.sample({"call": calls[0][0], "expected_error": calls[0][1]})
    finally:
        harness.forget_module(res.module)


def _equal_args_of_different_type(call: ast.Call, ns) -> bool:
    """Two arguments compare equal without being the same literal (1 / True, [1] / [True]): pyanalyze merges equal
    KnownValues, so a type variable solved from both keeps only one of them."""
    vals = []
    for a in call.args:
        try:
            vals.append(eval(ast.unparse(a), ns))
        except Exception:  # noqa: BLE001
            return False
    for i in range(len(vals)):
        for j in range(i + 1, len(vals)):
            try:
                if vals[i] == vals[j] and ty.lit_equal(vals[i], vals[j]) is not True:
                    return True
            except Exception:  # noqa: BLE001
                pass
    return False


def tdesc(t: Ty) -> str:
    if t.kind == "Cls":
        return f"Cls:{t.extra.__name__}"
    if t.kind == "Lit":
        return f"Lit:{type(t.extra.v).__name__}"
    return t.kind


def definition_of(source: str, call_src: str) -> str:
    name = call_src.split("(")[0].split(".")[0]
    name = name.rstrip(")")
    tree = ast.parse(source)
    for n in tree.body:
        if isinstance(n, (ast.FunctionDef, ast.ClassDef)) and n.name == name:
            return ast.get_source_segment(source, n) or ""
    return ""


def classify_args(src: str, ns, ds) -> str:
    """Mechanism features of a mis-judged call: message class of the diagnostic, else the pair
    (parameter annotation kind, argument python type) of the first argument that decides the verdict."""
    import re

    if ds:
        d = ds[0].description
        d = re.sub(r"Literal\[.*?\]|'[^']*'|<.*?>", "X", d)
        d = re.sub(r"\d+", "#", d)
        d = re.sub(r"\b[fK]\d+\b|\bp\d\b", "N", d)
        return "msg:" + d[:70]
    return "undiagnosed"


def shard(ctx) -> None:
    rng = ctx.rng
    ncall = ctx.pick(220, 1500)
    per = ctx.pick(6, 8)
    callables = []
    calls = []
    k = 0
    for _ in range(ncall):
        c = gen_callable(rng, k)
        k += 1
        cs = gen_calls(rng, c, per)
        callables.append(c)
        calls.extend(cs)
        if len(calls) >= BATCH:
            check_batch(ctx, callables, calls)
            callables, calls = [], []
    if calls:
        check_batch(ctx, callables, calls)
    gcalls = gen_generic_calls(rng, ctx.pick(500, 4000))
    for i in range(0, len(gcalls), BATCH):
        check_batch(ctx, [], gcalls[i : i + BATCH])


def replay(witness):
    from vp.core import Ctx

    ctx = Ctx(ID, "quick", 0, 0, 1)
    source = witness["source"]
    tree = ast.parse(source)
    holder = next(n for n in tree.body if isinstance(n, ast.FunctionDef) and n.name == "holder")
    # re-run only the recorded call line: rebuild the module with that single call
    call_src = witness.get("call") or ast.get_source_segment(source, holder.body[witness["index"]].value)
    head = source[: source.index("def holder():")]
    # recompute the expectation from scratch is not possible without the generator state; re-check both clauses
    # by running the batch machinery on a one-call module with the verdict derived from membership of each argument.
    return _replay_single(ctx, head, call_src)


def _replay_single(ctx, head: str, call_src: str):
    """Re-judge one call: expectation recomputed from the callee's runtime annotations via typing + the oracle."""
    import inspect
    import typing as _t

    source = head + "def holder():\n    " + call_src + "\n"
    tree = ast.parse(source)
    holder = next(n for n in tree.body if isinstance(n, ast.FunctionDef) and n.name == "holder")
    res = harness.run(source, tree=tree, annotate=True, keep_module=True, overrides={"missing_return": False})
    try:
        ns = res.module.__dict__
        st = holder.body[0]
        ds = [d for d in res.by_line().get(st.lineno, []) if d.code in CODES]
        call = st.value
        try:
            result = eval(call_src, ns)
            raised = None
        except Exception as e:  # noqa: BLE001
            raised, result = e, None
        # expectation: bind with inspect, compare each bound argument with its annotation through the oracle
        from vp.props.c03 import _ty_from_ast

        func = eval(ast.unparse(call.func), ns)
        expected = None
        try:
            sig = inspect.signature(func)
            argvals = [eval(ast.unparse(a), ns) for a in call.args]
            kwvals = {k.arg: eval(ast.unparse(k.value), ns) for k in call.keywords}
            bound = sig.bind(*argvals, **kwvals)
            verdicts = []
            target = func.__init__ if inspect.isclass(func) and "__init__" in vars(func) else func
            src_fn = head
            anns = _annotations_from_source(head, call_src)
            for pname, val in bound.arguments.items():
                p = sig.parameters[pname]
                ann = anns.get(pname)
                if ann is None:
                    continue
                t = _ty_from_ast(ast.parse(ann, mode="eval").body)
                vals = val if p.kind is p.VAR_POSITIONAL else (list(val.values()) if p.kind is p.VAR_KEYWORD else [val])
                for v in vals:
                    verdicts.append(ty.member(v, t))
            if verdicts and all(v is not None for v in verdicts):
                expected = any(v is False for v in verdicts)
        except Exception:  # noqa: BLE001
            expected = None
        kind = "generic:" + call_src.split("(")[0] if call_src.startswith("g_") else _kind_of(head, call_src)
        if expected is not None and not call_src.startswith("g_") and bool(ds) != expected:
            direction = "missed" if expected else "spurious"
            return f"{direction}|{kind}|{classify_args(call_src, ns, ds)}", f"`{call_src}` mis-judged"
        if call_src.startswith("g_") and expected is not None and bool(ds) != expected:
            direction = "missed" if expected else "spurious"
            return f"{direction}|{kind}|{classify_args(call_src, ns, ds)}", f"`{call_src}` mis-judged"
        if raised is None and not ds:
            inferred = getattr(call, "inferred_value", None)
            if inferred is not None:
                t = ty.from_value(inferred)
                if ty.member(result, t) is False:
                    if _equal_args_of_different_type(call, ns):
                        return "result-not-in-inferred|equal-literal-arguments-of-different-type-merged", f"`{call_src}` returned {result!r}, inferred {inferred}"
                    return f"result-not-in-inferred|{kind}|{type(result).__name__} not in {tdesc(t)}", f"`{call_src}` returned {result!r}, inferred {inferred}"
        return None
    finally:
        harness.forget_module(res.module)


def _annotations_from_source(head: str, call_src: str) -> dict:
    name = call_src.split("(")[0]
    tree = ast.parse(head)
    target = None
    base = name.split(".")[0].rstrip(")").rstrip("(")
    for n in tree.body:
        if isinstance(n, ast.FunctionDef) and n.name == base:
            target = n
        elif isinstance(n, ast.ClassDef) and n.name == base:
            meth = {"m": "m", "cm": "cm", "sm": "sm"}.get(name.split(".")[-1], "__init__")
            for b in n.body:
                if isinstance(b, ast.FunctionDef) and b.name == meth:
                    target = b
            if target is None:
                return {b.target.id: ast.unparse(b.annotation) for b in n.body if isinstance(b, ast.AnnAssign)}
    if target is None:
        return {}
    out = {}
    a = target.args
    for arg in [*a.posonlyargs, *a.args, *a.kwonlyargs, a.vararg, a.kwarg]:
        if arg is not None and arg.annotation is not None:
            out[arg.arg] = ast.unparse(arg.annotation)
    return out


def _kind_of(head: str, call_src: str) -> str:
    name = call_src.split("(")[0]
    if name.endswith(".m") or name.endswith(").m"):
        return "method"
    if name.endswith(".cm"):
        return "classmethod"
    if name.endswith(".sm"):
        return "staticmethod"
    base = name
    tree = ast.parse(head)
    for n in tree.body:
        if isinstance(n, ast.ClassDef) and n.name == base:
            if n.decorator_list:
                return "dataclass"
            if n.bases:
                return "namedtuple"
            return "init"
        if isinstance(n, ast.FunctionDef) and n.name == base:
            a = n.args
            if a.vararg:
                return "star"
            if a.kwarg:
                return "dstar"
            if a.kwonlyargs:
                return "kwonly"
            if a.defaults:
                return "default"
            return "plain"
    return "plain"
