"""C06 — call checking: arguments against parameter types, result type.

Monitor: generated annotated callables (plain, defaulted, *args/**kwargs-typed, methods, classmethods, staticmethods,
constructors, dataclasses, NamedTuples, TypeVar-generic helpers, callables sharing one type variable between parameters
only, ParamSpec forwarders, method kinds x definition sites x receiver forms, **{...} arguments, methods of generic
classes reached through binding subclasses) are called with literal arguments inside a checked,
never-called function (one call per line, annotate=True). For every call that binds:
  (1) diagnosed (incompatible_argument / incompatible_call on the line)  <=>  some argument is not a member of the
      declared type of the parameter it binds to (membership oracle, all memberships decided);
  (2) the call is then EXECUTED and its result must be a member of the type inferred for the call expression.
"""
from __future__ import annotations

import ast

from vp import harness, prelude, ty, tygen, universe
from vp.ty import Ty

ID = "C06"
LEVEL = "exploration"
RULE = (
    "case = (callable, literal argument tuple); callables: 1-4 annotated parameters drawn from a 30-type vocabulary, "
    "defaults, *args: T, **kwargs: T, instance/class/static methods, __init__ constructors, dataclass, NamedTuple, "
    "generic helpers (T, list[T], dict[K, V], Callable[[T], U], bounded and constrained TypeVars); arguments: members "
    "and near-miss non-members from the universe U (literal displays only), by position and by keyword, defaults "
    "omitted. Constructors also through a typed __new__ and through a pass-through __new__(cls, *args, **kwargs) in "
    "front of a typed __init__. GENERATED generics (kind generic-gen): 1-3 parameters over one type variable (free T, "
    "bound TN: float, constrained TC: (int, str)) in the forms T / List[T] / Sequence[T] / Optional[T] / Tuple[T, int] / "
    "Dict[str, T] or a plain int/str, 0-2 trailing parameters with defaults (positional or keyword-only), the result "
    "(T, Optional[T], List[T] or Tuple[T, ...]) built from EVERY parameter that mentions the variable, preferring the "
    "defaulted one; calls pass or omit each defaulted parameter, by position or keyword, so the variable is solved from "
    "passed arguments, omitted defaults, or both. STAR calls (kind starcall): 1-3 positional parameters (any suffix "
    "with defaults, optionally positional-only) and optionally *rest, over class-based types (plus Literal types for "
    "callables only called with short star items); the call is 0-n explicit positionals, then one *-item: a tuple / "
    "list display of 0-2 elements, a short str / bytes / range, or (when *rest exists) a str / bytes / range of 1000-2000 "
    "items that pyanalyze does not expand element by element, then sometimes one more positional. SHARED type variable "
    "(kind shared-tv): one variable (free T, bound TN: float, constrained TC: (int, str), AnyStr) on 2-3 parameters through "
    "covariant forms (T / Optional[T] / Sequence[T] / Iterable[T] / Tuple[T, int] / Tuple[T, ...]), optionally one plain "
    "int/str parameter, trailing defaults that say nothing about the variable (None, ()), keyword-only parameters; "
    "containers: function, method, staticmethod, classmethod (through class and instance), __init__; the return "
    "annotation mentions NO type variable (bool / None / int / str; every __init__) in 3 of 4 callables, else it is the "
    "variable; argument tuples are jointly consistent (all from one admissible solution), jointly INCONSISTENT (each "
    "argument fits the variable alone, no single constraint fits all) or contain a plain non-member. ParamSpec forwarders "
    "(kind pspec-forward): the calls generated for plain / defaulted / keyword-only / *args / **kwargs callables routed "
    "through fw(fn_: Callable[P, R], *args: P.args, **kwargs: P.kwargs) returning None / bool (no type variable) or R. "
    "METHOD MATRIX (kind method-matrix): a base class defining a plain method, a classmethod and a staticmethod (1-3 "
    "parameters from the vocabulary, defaults, keyword-only), a child and a grandchild that inherit them, a sibling that "
    "overrides some of them with the same shape and other parameter types; every method is called through the class, an "
    "instance literal, a parameter known only by type (r: R), a type[R] parameter, a module-level instance, self / cls "
    "inside another method / classmethod of the receiver class, and super() inside a method / classmethod of a subclass. "
    "**-ARGUMENT calls (kind dstarcall): a suffix of the arguments travels in **{...}: flat, with a nested **{...}, with "
    "a key written twice in one display, a key repeated across the nesting levels (inner last / outer last) with a value "
    "of the opposite membership, two **-arguments, or **dict(k=v) (all-member calls only). GENERIC CLASS (kind "
    "generic-class): GB(Generic[T]) with __init__(y: T), put(y: T) -> bool, swap(y: T) -> T and classmethods mk(y: T) -> "
    "GB[T], chk(y: T) -> None, reached through a subclass GS(GB[B]), its child, or the alias GB[B] (B from 11 concrete "
    "types), by class object, instance literal, r: GS, t: Type[GS], b: GB[B]. Non-trivial = all "
    "memberships decided; distinct by (callable kind, parameter type constructors, argument sources); both verdicts "
    "counted per callable kind."
)
ASSUMPTIONS = [
    "vp.ty.member is the oracle for argument membership; CPython executes the call for the result clause",
    "calls are generated to bind (binding itself is C05's subject); calls that fail to bind at run time are skipped",
    "for generic callables the argument clause is judged against the parameter type with type variables erased to "
    "their bound / constraints / object; the result clause is judged exactly",
    "generic-gen: a diagnostic is not judged (only the result clause is) when one type variable has several sources "
    "through an invariant container or is a constrained variable with several sources - the statement allows an "
    "'incompatible solution' error there",
    "starcall: the expectation comes from CPython's binder (inspect.signature(callee).bind on the evaluated arguments) "
    "plus the membership oracle on every bound value; defaults left alone are not arguments; callables that receive "
    ">= 1000-item star items use class-based parameter types only, since pyanalyze knows such elements by class only",
    "shared-tv: only covariant forms, so 'some admissible solution (a constraint / the bound / object) makes every argument "
    "a member of the substituted parameter type' is decided by the membership oracle on the substituted types; omitted "
    "defaults are None / () and put no requirement on the variable",
    "pspec-forward: forwarding through Callable[P, R], *args: P.args, **kwargs: P.kwargs is acceptable exactly when the "
    "direct call is",
    "method-matrix / dstarcall: CPython performs the attribute access, evaluates the arguments and binds them "
    "(inspect.signature(...).bind); the annotations are those of the definition CPython found (__qualname__); zero-argument "
    "super() inside a method of R is super(R, self)",
    "generic-class: inside GS(GB[B]) and GB[B] a parameter annotated T has the declared type B",
]
FLOORS = {
    "quick": {"distinct_nontrivial": 8000, "calls_judged": 10000, "expect_error": 3000, "expect_clean": 3000, "results_checked": 3000,
              "generic_gen_results_checked": 1400, "generic_gen_results_with_omitted_default": 330,
              "starcall_judged": 1500, "starcall_long_judged": 330, "starcall_long_expect_error": 240,
              "shared_tv_judged": 1500, "shared_tv_joint_inconsistent_without_variable_in_return": 320,
              "pspec_forward_judged": 560, "pspec_forward_error_without_variable_in_return": 190,
              "matrix_judged": 1550, "matrix_inherited_static_via_instance": 225, "matrix_inside_method": 670,
              "dstarcall_judged": 445, "dstarcall_repeated_key_judged": 150, "generic_class_judged": 480},
    "thorough": {"distinct_nontrivial": 60000, "calls_judged": 80000, "results_checked": 25000,
                 "generic_gen_results_checked": 19000, "generic_gen_results_with_omitted_default": 4900,
                 "starcall_judged": 26000, "starcall_long_judged": 5800, "starcall_long_expect_error": 4300,
                 "shared_tv_judged": 25000, "shared_tv_joint_inconsistent_without_variable_in_return": 5900,
                 "pspec_forward_judged": 5800, "pspec_forward_error_without_variable_in_return": 2000,
                 "matrix_judged": 27000, "matrix_inherited_static_via_instance": 3900, "matrix_inside_method": 10900,
                 "dstarcall_judged": 7500, "dstarcall_repeated_key_judged": 2600, "generic_class_judged": 8000},
}
CODES = {"incompatible_argument", "incompatible_call"}
BATCH = 150

I, S, F, BL, NONE = ty.Cls(int), ty.Cls(str), ty.Cls(float), ty.Cls(bool), ty.NONE
A, Bc, C = ty.Cls(prelude.A), ty.Cls(prelude.B), ty.Cls(prelude.C)
PARAM_TYPES = [
    I, BL, F, ty.Cls(complex), S, ty.Cls(bytes), NONE, ty.OBJECT, A, Bc, C, ty.Cls(prelude.Color), ty.Cls(prelude.Num),
    ty.Lit(1), ty.Lit("a"), ty.Lit(True), ty.Union(ty.Lit(1), ty.Lit(2)), ty.Lit(prelude.Color.RED),
    ty.Union(I, NONE), ty.Union(S, NONE), ty.Union(I, S), ty.Union(A, C), ty.Union(F, NONE),
    ty.Tuple(I, S), ty.VarTuple(I), ty.Tuple(), ty.List(I), ty.List(S), ty.List(ty.Union(I, NONE)), ty.Dict(S, I), ty.Set(I),
    ty.Seq(I), ty.Iter(S), ty.Map(S, I), ty.TypeOf(A), ty.TypedDictT("TD1", {"a": (I, True), "b": (S, False)}),
    ty.List(ty.Tuple(I, S)), ty.Dict(S, ty.List(I)),
]


def literal_items(t: Ty, rng, want_member: bool, n: int) -> list:
    from vp.props.c03 import is_literal_display, top_related

    pool = [it for it in universe.U if is_literal_display(it.src)]
    if want_member:
        inh = [it for it in universe.inhabitants(t, rng, 8) if is_literal_display(it.src)]
        return inh[:n] if inh else []
    non = [it for it in pool if ty.member(it.obj, t) is False]
    near = [it for it in non if top_related(it.obj, t)]
    out = rng.sample(near, min(len(near), max(1, n - 1))) + rng.sample(non, min(len(non), 1))
    return out[:n]


class Callable_:
    """One generated callable: source lines defining it + how to call it."""

    def __init__(self, kind, name, def_lines, call_prefix, params, ret_desc, star=None, dstar=None, generic=False):
        self.kind = kind
        self.name = name
        self.def_lines = def_lines
        self.call_prefix = call_prefix  # e.g. "f3" / "K3().m" / "K3.cm" / "K3"
        self.params = params            # list of (pname, Ty erased, has_default, kwonly)
        self.star = star                # Ty of *args elements or None
        self.dstar = dstar              # Ty of **kwargs values or None
        self.generic = generic
        self.ret_desc = ret_desc
        self.bad_defaults = {}      # pname -> Item: default value that is NOT a member of the annotation


def ret_for(rng, params, style):
    """return annotation + expression built from parameters so that the result check bites."""
    names = [p for p, _t in params]
    tys = dict(params)
    r = rng.random()
    if r < 0.35 or not names:
        p = rng.choice(names) if names else None
        if p is None:
            return "None", "None"
        return ty.render(tys[p], style), p
    if r < 0.55 and len(names) >= 2:
        a, b = rng.sample(names, 2)
        return f"tuple[{ty.render(tys[a], style)}, {ty.render(tys[b], style)}]", f"({a}, {b})"
    if r < 0.7:
        p = rng.choice(names)
        return f"list[{ty.render(tys[p], style)}]", f"[{p}]"
    if r < 0.8:
        p = rng.choice(names)
        return f"Optional[{ty.render(tys[p], style)}]", f"({p} if {p} else None)"
    if r < 0.9:
        p = rng.choice(names)
        return f"dict[str, {ty.render(tys[p], style)}]", "{'k': " + p + "}"
    return "None", "None"


def gen_callable(rng, k: int, kinds=None) -> Callable_:
    style = rng.randrange(2)
    kind = rng.choice(kinds or ["plain", "plain", "plain", "default", "kwonly", "star", "dstar", "method", "classmethod", "staticmethod", "init", "dataclass", "namedtuple", "posonly-dstar", "bad-default", "new", "new+init"])
    n = rng.randrange(1, 4)
    ptypes = [rng.choice(PARAM_TYPES) for _ in range(n)]
    pnames = [f"p{i}" for i in range(n)]
    params = list(zip(pnames, ptypes))
    ret_ann, ret_expr = ret_for(rng, params, style)
    parts = []
    meta = []
    bad_defaults = {}
    for i, (p, t) in enumerate(params):
        has_default = False
        if kind == "bad-default" and i == n - 1:
            # the idiom `x: int = None`: the default lies outside the annotation; passing it explicitly is an error
            non = [it for it in literal_items(t, rng, False, 6) if it.src in ("None", "0", "''", "'a'", "1", "()", "[]")]
            if non:
                has_default = True
                bad_defaults[p] = non[0]
                parts.append(f"{p}: {ty.render(t, style)} = {non[0].src}")
        if kind in ("default", "kwonly") and i == n - 1 or (kind == "plain" and rng.random() < 0.1 and i == n - 1):
            inh = literal_items(t, rng, True, 3)
            if inh:
                has_default = True
                parts.append(f"{p}: {ty.render(t, style)} = {inh[0].src}")
        if not has_default:
            parts.append(f"{p}: {ty.render(t, style)}")
        meta.append((p, t, has_default, False))
    star = dstar = None
    if kind == "kwonly":
        # make the last parameter keyword-only
        parts.insert(len(parts) - 1, "*")
        p, t, d, _ = meta[-1]
        meta[-1] = (p, t, d, True)
    if kind == "star":
        star = rng.choice(PARAM_TYPES[:20])
        parts.append(f"*args: {ty.render(star, style)}")
    if kind in ("dstar", "posonly-dstar"):
        dstar = rng.choice(PARAM_TYPES[:20])
        if kind == "posonly-dstar":
            parts.append("/")  # every named parameter is positional-only: its name is free to be used as a keyword
        parts.append(f"**kwargs: {ty.render(dstar, style)}")
    sig = ", ".join(parts)
    if kind in ("plain", "default", "kwonly", "star", "dstar", "posonly-dstar", "bad-default"):
        lines = [f"def f{k}({sig}) -> {ret_ann}:", f"    return {ret_expr}"]
        c = Callable_(kind, f"f{k}", lines, f"f{k}", meta, ret_ann, star, dstar)
        c.bad_defaults = bad_defaults
        return c
    if kind == "method":
        lines = [f"class K{k}:", f"    def m(self, {sig}) -> {ret_ann}:", f"        return {ret_expr}"]
        return Callable_(kind, f"K{k}", lines, f"K{k}().m", meta, ret_ann)
    if kind == "classmethod":
        lines = [f"class K{k}:", "    @classmethod", f"    def cm(cls, {sig}) -> {ret_ann}:", f"        return {ret_expr}"]
        return Callable_(kind, f"K{k}", lines, f"K{k}.cm", meta, ret_ann)
    if kind == "staticmethod":
        lines = [f"class K{k}:", "    @staticmethod", f"    def sm({sig}) -> {ret_ann}:", f"        return {ret_expr}"]
        return Callable_(kind, f"K{k}", lines, f"K{k}.sm", meta, ret_ann)
    if kind == "init":
        body = [f"        self.{p} = {p}" for p, _ in params]
        lines = [f"class K{k}:", f"    def __init__(self, {sig}) -> None:"] + body
        return Callable_(kind, f"K{k}", lines, f"K{k}", meta, f"K{k}")
    if kind == "new":
        # the constructor signature lives on a typed __new__
        body = [f"        self.{p} = {p}" for p, _ in params]
        lines = [f"class K{k}:", f"    def __new__(cls, {sig}):", "        self = super().__new__(cls)"] + body + ["        return self"]
        return Callable_(kind, f"K{k}", lines, f"K{k}", meta, f"K{k}")
    if kind == "new+init":
        # a pass-through __new__(cls, *args, **kwargs) in front of a typed __init__: CPython hands the same arguments to both
        body = [f"        self.{p} = {p}" for p, _ in params]
        lines = [f"class K{k}:", "    def __new__(cls, *args, **kwargs):", "        return super().__new__(cls)",
                 f"    def __init__(self, {sig}) -> None:"] + body
        return Callable_(kind, f"K{k}", lines, f"K{k}", meta, f"K{k}")
    if kind == "dataclass":
        fields = [f"    {part}" for part in parts if part != "*"]
        lines = ["@dataclasses.dataclass", f"class K{k}:"] + fields
        meta = [(p, t, d, False) for p, t, d, _ in meta]
        return Callable_(kind, f"K{k}", lines, f"K{k}", meta, f"K{k}")
    fields = [f"    {part}" for part in parts if part != "*"]
    lines = [f"class K{k}(typing.NamedTuple):"] + fields
    meta = [(p, t, d, False) for p, t, d, _ in meta]
    return Callable_(kind, f"K{k}", lines, f"K{k}", meta, f"K{k}")


GENERIC_DEFS = '''
import dataclasses
from typing import AnyStr
from typing_extensions import ParamSpec
P_ = ParamSpec("P_")
TB = TypeVar("TB", bound=A)
TC = TypeVar("TC", int, str)
U_ = TypeVar("U_")
TN = TypeVar("TN", bound=float)
def g_ident(x: T) -> T:
    return x
def g_first(xs: List[T]) -> T:
    return xs[0]
def g_pair(a: K, b: V) -> Dict[K, V]:
    return {a: b}
def g_opt(x: T) -> Optional[T]:
    return x if x else None
def g_apply(f: Callable[[T], U_], x: T) -> U_:
    return f(x)
def g_bound(x: TB) -> TB:
    return x
def g_constrained(x: TC) -> TC:
    return x
def g_two(a: T, b: T) -> List[T]:
    return [a, b]
def g_wrap(x: T) -> Tuple[T, int]:
    return (x, 1)
def g_keys(d: Dict[K, V]) -> List[K]:
    return list(d)
def to_str(x: int) -> str:
    return str(x)
def fw_none(fn_: Callable[P_, object], *args: P_.args, **kwargs: P_.kwargs) -> None:
    fn_(*args, **kwargs)
def fw_bool(fn_: Callable[P_, object], *args: P_.args, **kwargs: P_.kwargs) -> bool:
    fn_(*args, **kwargs)
    return True
def fw_ret(fn_: Callable[P_, U_], *args: P_.args, **kwargs: P_.kwargs) -> U_:
    return fn_(*args, **kwargs)
'''
GENERICS = [
    ("g_ident", [("x", ty.OBJECT)]), ("g_first", [("xs", ty.List(ty.OBJECT))]), ("g_pair", [("a", ty.OBJECT), ("b", ty.OBJECT)]),
    ("g_opt", [("x", ty.OBJECT)]), ("g_bound", [("x", A)]), ("g_constrained", [("x", ty.Union(I, S))]),
    ("g_two", [("a", ty.OBJECT), ("b", ty.OBJECT)]), ("g_wrap", [("x", ty.OBJECT)]), ("g_keys", [("d", ty.Dict(ty.OBJECT, ty.OBJECT))]),
]


def gen_calls(rng, c: Callable_, n: int) -> list:
    """Each call: (source, expected_error True/False/None, description). Calls bind by construction."""
    calls = []
    for _ in range(n):
        want_bad = rng.random() < 0.5
        bad_slot = rng.randrange(len(c.params) + (c.star is not None) + (c.dstar is not None)) if want_bad else -1
        args, kwargs = [], []
        verdicts = []
        srcs = []
        ok = True
        for i, (p, t, has_default, kwonly) in enumerate(c.params):
            if has_default and rng.random() < 0.4 and i != bad_slot:
                continue
            items = literal_items(t, rng, i != bad_slot, 4)
            if not items:
                items = literal_items(t, rng, True, 4)
            if not items:
                ok = False
                break
            it = rng.choice(items)
            if p in c.bad_defaults and rng.random() < 0.5:
                it = c.bad_defaults[p]  # the default value passed explicitly
            verdicts.append(ty.member(it.obj, t))
            srcs.append(it.src)
            by_kw = kwonly or (rng.random() < 0.25 and c.kind not in ("star", "posonly-dstar"))
            if by_kw or kwargs:
                kwargs.append(f"{p}={it.src}")
            else:
                args.append(it.src)
        if not ok:
            continue
        slot = len(c.params)
        if c.star is not None:
            for j in range(rng.randrange(0, 3)):
                items = literal_items(c.star, rng, not (bad_slot == slot and j == 0), 4) or literal_items(c.star, rng, True, 4)
                if items and not kwargs:
                    it = rng.choice(items)
                    verdicts.append(ty.member(it.obj, c.star))
                    args.append(it.src)
                    srcs.append(it.src)
            slot += 1
        if c.dstar is not None:
            names = ["zz", "yy"]
            if c.kind == "posonly-dstar":
                names = [c.params[0][0], "kwargs", "zz"]  # a keyword may reuse a positional-only name / the **name
            for j, kwname in enumerate(rng.sample(names, rng.randrange(0, len(names) + 1))):
                items = literal_items(c.dstar, rng, not (bad_slot == slot and j == 0), 4) or literal_items(c.dstar, rng, True, 4)
                if items:
                    it = rng.choice(items)
                    verdicts.append(ty.member(it.obj, c.dstar))
                    kwargs.append(f"{kwname}={it.src}")
                    srcs.append(it.src)
        src = f"{c.call_prefix}({', '.join(args + kwargs)})"
        if any(v is None for v in verdicts):
            expected = None
        else:
            expected = any(v is False for v in verdicts)
        calls.append((src, expected, (c.kind, tuple(ty_kind(t) for _, t, _, _ in c.params), tuple(srcs))))
    return calls


def ty_kind(t: Ty) -> str:
    if t.kind == "Cls":
        return t.extra.__name__
    if t.kind == "Lit":
        return f"Lit:{type(t.extra.v).__name__}"
    if t.kind == "Union":
        return "Union"
    return t.kind


def gen_generic_calls(rng, n: int) -> list:
    from vp.props.c03 import is_literal_display

    pool = [it for it in universe.U if is_literal_display(it.src) and it.src not in ("len", "ident")]
    calls = []
    for _ in range(n):
        name, params = rng.choice(GENERICS)
        args = []
        verdicts = []
        for p, t in params:
            if rng.random() < 0.75:
                items = [it for it in universe.inhabitants(t, rng, 8) if is_literal_display(it.src)] or pool
            else:
                items = pool
            it = rng.choice(items)
            args.append(it.src)
            verdicts.append(ty.member(it.obj, t))
        expected = None if any(v is None for v in verdicts) else any(v is False for v in verdicts)
        if name in ("g_pair",):
            expected = None  # unhashable keys etc. are judged only through the result clause
        calls.append((f"{name}({', '.join(args)})", expected, ("generic:" + name, tuple(args))))
    for _ in range(n // 6):
        x = rng.choice(["1", "True", "'a'", "None", "1.5"])
        calls.append((f"g_apply(to_str, {x})", None if x in ("True",) else x not in ("1", "True"), ("generic:g_apply", (x,))))
    return calls


# ---------------------------------------------------------------------------
# GENERATED TypeVar-generic callables (kind "generic-gen"): the same type variable on several parameters in several
# positions (bare, inside containers), any of them with a default the call may omit; the result is built from ALL
# parameters that mention the variable, so a solution that forgets one source (an omitted default, a keyword-only
# parameter, an element of a container) is seen by the result clause.

TYPEVARS = {"T": ty.OBJECT, "TN": F, "TC": ty.Union(I, S)}  # name -> erasure (object / bound / constraints)
TV_DEFAULTS = {"T": ["'d'", "None", "0.5", "0", "()"], "TN": ["0.5", "0", "True"], "TC": ["'d'", "0"]}
# (annotation template, erasure builder, default builder from an element literal, expression listing the T-values held)
GFORMS = [
    ("{v}", lambda e: e, lambda d: d, "[{p}]"),
    ("List[{v}]", lambda e: ty.List(e), lambda d: f"[{d}]", "list({p})"),
    ("Sequence[{v}]", lambda e: ty.Seq(e), lambda d: f"({d},)", "list({p})"),
    ("Optional[{v}]", lambda e: ty.Union(e, NONE), lambda d: d, "([] if {p} is None else [{p}])"),
    ("Tuple[{v}, int]", lambda e: ty.Tuple(e, I), lambda d: f"({d}, 0)", "[{p}[0]]"),
    ("Dict[str, {v}]", lambda e: ty.Dict(S, e), lambda d: "{'k': " + d + "}", "list({p}.values())"),
]
GFORM_WEIGHTS = [6, 2, 1, 2, 1, 1]


def gen_generic_callable(rng, k: int) -> Callable_:
    v = rng.choice(["T", "T", "T", "TN", "TC"])
    erased = TYPEVARS[v]
    n = rng.randrange(1, 4)
    n_def = rng.choice([0, 1, 1, 1, 2]) if n > 1 else rng.choice([0, 1])
    n_def = min(n_def, n)
    kwonly_from = n - n_def if (n_def and rng.random() < 0.35) else None  # the defaulted parameters are keyword-only
    parts, meta, holders = [], [], []
    bare = []
    for i in range(n):
        p = f"p{i}"
        if rng.random() < 0.85 or i == 0:
            fi = rng.choices(range(len(GFORMS)), GFORM_WEIGHTS)[0]
            if v != "T" and fi in (1, 5) and rng.random() < 0.5:
                fi = 0
            tmpl, era, dflt, held = GFORMS[fi]
            ann, t = tmpl.format(v=v), era(erased)
            holders.append(held.format(p=p))
            if fi == 0:
                bare.append(p)
            d_src = dflt(rng.choice(TV_DEFAULTS[v]))
            if fi == 3 and rng.random() < 0.5:
                d_src = "None"
            mentions = True
        else:
            t = rng.choice([I, S])
            ann = ty.render(t, 0)
            d_src = "0" if t is I else "''"
            mentions = False
        has_default = i >= n - n_def
        if kwonly_from is not None and i == kwonly_from:
            parts.append("*")
        parts.append(f"{p}: {ann} = {d_src}" if has_default else f"{p}: {ann}")
        meta.append((p, t, has_default, kwonly_from is not None and i >= kwonly_from, mentions))
    r = rng.random()
    if bare and r < 0.45:
        # the LAST bare parameter: the defaulted one when there is one
        ret_ann, ret_expr = v, (bare[-1] if rng.random() < 0.7 else rng.choice(bare))
    elif bare and r < 0.55:
        ret_ann, ret_expr = f"Optional[{v}]", bare[-1]
    elif r < 0.8:
        ret_ann, ret_expr = f"List[{v}]", "[" + ", ".join("*" + h for h in holders) + "]"
    else:
        ret_ann, ret_expr = f"Tuple[{v}, ...]", "tuple([" + ", ".join("*" + h for h in holders) + "])"
    lines = [f"def gg{k}({', '.join(parts)}) -> {ret_ann}:", f"    return {ret_expr}"]
    c = Callable_("generic-gen", f"gg{k}", lines, f"gg{k}", [(p, t, d, ko) for p, t, d, ko, _m in meta], ret_ann, generic=True)
    c.mentions = {p: m for p, _t, _d, _ko, m in meta}
    c.typevar = v
    c.invariant = any(("List[" in part or "Dict[" in part) for part in parts)
    c.multi = any(("List[" in part or "Dict[" in part or "Sequence[" in part) for part in parts)  # one argument, several sources
    return c


def gen_generic_gen_calls(rng, c: Callable_, n: int) -> list:
    calls = []
    for _ in range(n):
        bad_slot = rng.randrange(len(c.params)) if rng.random() < 0.25 else -1
        args, kwargs, verdicts, srcs = [], [], [], []
        omitted_default_mentions = 0
        passed_mentions = 0
        skipped = False
        for i, (p, t, has_default, kwonly) in enumerate(c.params):
            if has_default and rng.random() < 0.6 and i != bad_slot:
                omitted_default_mentions += c.mentions[p]
                skipped = True  # everything after an omitted parameter has to be passed by keyword
                continue
            items = literal_items(t, rng, i != bad_slot, 4) or literal_items(t, rng, True, 4)
            if not items:
                break
            it = rng.choice(items)
            verdicts.append(ty.member(it.obj, t))
            srcs.append(it.src)
            passed_mentions += c.mentions[p]
            if kwonly or kwargs or skipped or rng.random() < 0.2:
                kwargs.append(f"{p}={it.src}")
            else:
                args.append(it.src)
        else:
            if any(x is None for x in verdicts):
                expected = None
            elif any(x is False for x in verdicts):
                expected = True
            elif (passed_mentions + omitted_default_mentions >= 2 and (c.invariant or c.typevar == "TC")) or (c.typevar == "TC" and c.multi):
                # several sources for one variable through an invariant container / a constrained variable: an
                # "incompatible solution" error is allowed by the statement; only the result clause judges
                expected = None
            else:
                expected = False
            feat = f"{c.typevar}:passed{min(passed_mentions, 2)}+omitted-default{min(omitted_default_mentions, 2)}"
            calls.append((f"{c.call_prefix}({', '.join(args + kwargs)})", expected,
                          ("generic-gen", c.ret_desc, tuple(ty_kind(t) for _, t, _, _ in c.params), tuple(srcs), feat)))
    return calls


# ---------------------------------------------------------------------------
# calls with a *-argument (kind "starcall"): positional parameters (required / with defaults / positional-only) and
# optionally *rest are filled from explicit positionals plus a star item that pyanalyze expands element by element
# (tuple / list display, short str / bytes / range) or summarises (str / bytes / range with >= 1000 items).

SCALARS = [I, S, ty.Cls(bytes), F, BL, ty.OBJECT, ty.Union(I, NONE), ty.Union(I, S), ty.Union(S, NONE)]
SCALARS_LIT = [ty.Lit(1), ty.Lit("a"), ty.Union(ty.Lit(0), ty.Lit(1))]
LONG_STARS = [("range", "range(1000)"), ("range", "range(2000)"), ("str", "('x' * 1500)"), ("str", "('ab' * 600)"),
              ("bytes", "(b'x' * 1200)"), ("range", "range(5, 1500)")]
SHORT_STARS = [("str", "'a'"), ("str", "'ab'"), ("bytes", "b'a'"), ("bytes", "b'ab'"), ("range", "range(1)"),
               ("range", "range(2)"), ("range", "range(3)"), ("tuple", "()"), ("list", "[]"), ("str", "''")]


def gen_star_callable(rng, k: int) -> Callable_:
    style = rng.randrange(2)
    n = rng.randrange(1, 4)
    lit_ok = rng.random() < 0.25
    vocab = SCALARS + (SCALARS_LIT if lit_ok else [])
    ptypes = [rng.choice(vocab) for _ in range(n)]
    n_def = rng.choice([0, 1, 1, 2, 3])
    n_def = min(n_def, n)
    params = [(f"p{i}", t) for i, t in enumerate(ptypes)]
    ret_ann, ret_expr = ret_for(rng, params, style)
    parts, meta = [], []
    for i, (p, t) in enumerate(params):
        has_default = False
        if i >= n - n_def:
            inh = literal_items(t, rng, True, 3)
            if inh:
                has_default = True
                parts.append(f"{p}: {ty.render(t, style)} = {inh[0].src}")
        if not has_default:
            if any(m[2] for m in meta):  # a required parameter cannot follow a defaulted one
                inh = literal_items(t, rng, True, 3)
                has_default = True
                parts.append(f"{p}: {ty.render(t, style)} = {inh[0].src if inh else 'None'}")
            else:
                parts.append(f"{p}: {ty.render(t, style)}")
        meta.append((p, t, has_default, False))
    if rng.random() < 0.3:
        parts.append("/")
    star = None
    if rng.random() < 0.7:
        star = rng.choice(vocab)
        parts.append(f"*rest: {ty.render(star, style)}")
    lines = [f"def fs{k}({', '.join(parts)}) -> {ret_ann}:", f"    return {ret_expr}"]
    c = Callable_("starcall", f"fs{k}", lines, f"fs{k}", meta, ret_ann, star)
    c.long_ok = not any(t.kind == "Lit" or (t.kind == "Union" and any(a.kind == "Lit" for a in t.args)) for t in [*ptypes, *([star] if star else [])])
    return c


def gen_star_calls(rng, c: Callable_, n: int) -> list:
    calls = []
    ptypes = {p: t for p, t, _d, _k in c.params}
    if c.star is not None:
        ptypes["rest"] = c.star
    slots = [t for _p, t, _d, _k in c.params]
    for _ in range(n):
        want_bad = rng.random() < 0.4
        npre = rng.randrange(0, len(slots) + 1)
        args, srcs = [], []

        def slot_type(j):
            return slots[j] if j < len(slots) else c.star

        def pick_for(j, bad):
            t = slot_type(j)
            if t is None:
                return None
            items = literal_items(t, rng, not bad, 4) or literal_items(t, rng, True, 4)
            return rng.choice(items) if items else None

        bad_at = rng.randrange(0, len(slots) + 2) if want_bad else -1
        ok = True
        for j in range(npre):
            it = pick_for(j, j == bad_at)
            if it is None:
                ok = False
                break
            args.append(it.src)
            srcs.append(it.src)
        if not ok:
            continue
        r = rng.random()
        if c.star is not None and c.long_ok and r < 0.3:
            form, src = rng.choice(LONG_STARS)
            star_src, size = f"*{src}", "long"
        elif r < 0.55:
            form, src = rng.choice(SHORT_STARS)
            star_src, size = f"*{src}", "short"
        else:
            m = rng.randrange(0, 3)
            elems = []
            for j in range(npre, npre + m):
                it = pick_for(j, j == bad_at)
                if it is None:
                    break
                elems.append(it.src)
            form = rng.choice(["tuple", "list"])
            inner = ", ".join(elems)
            star_src = f"*({inner}{',' if len(elems) == 1 else ''})" if form == "tuple" else f"*[{inner}]"
            size = "short"
        args.append(star_src)
        srcs.append(star_src)
        if rng.random() < 0.2:
            it = rng.choice(literal_items(rng.choice(SCALARS), rng, True, 4))
            args.append(it.src)
            srcs.append(it.src)
        src = f"{c.call_prefix}({', '.join(args)})"
        calls.append((src, BindOracle(c.name, ptypes), ("starcall", tuple(ty_kind(t) for t in slots), tuple(srcs), f"star-{size}-{form}")))
    return calls


def _class_based(t: Ty) -> bool:
    """membership in t depends on the class of the value only"""
    if t.kind in ("Cls", "Object", "NoneT"):
        return True
    return t.kind == "Union" and all(_class_based(a) for a in t.args)


class BindOracle:
    """Expectation decided at check time by CPython's own binder: the call's arguments are evaluated, bound with
    inspect.signature(callee).bind, and every bound argument value is tested for membership in the declared type of the
    parameter it landed in (defaults that the call leaves alone are not arguments)."""

    def __init__(self, fname: str, ptypes: dict):
        self.fname = fname
        self.ptypes = ptypes

    def __call__(self, src: str, ns):
        """-> (expected True/False/None, feature string) or ("nobind", "")"""
        import inspect

        func = ns[self.fname]
        inner = src[len(self.fname) + 1 : -1]
        try:
            a, k = eval(f"(lambda *a, **k: (a, k))({inner})", ns)
            sig = inspect.signature(func)
            bound = sig.bind(*a, **k)
        except TypeError:
            return "nobind", ""
        verdicts = []
        bad = set()
        for pname, val in bound.arguments.items():
            p = sig.parameters[pname]
            t = self.ptypes.get(pname)
            if t is None:
                continue
            vals = val if p.kind is p.VAR_POSITIONAL else (list(val.values()) if p.kind is p.VAR_KEYWORD else [val])
            seen = set()
            role = "rest" if p.kind is p.VAR_POSITIONAL else ("defaulted" if p.default is not p.empty else "required")
            by_class = _class_based(t)
            for x in vals:
                try:
                    hk = type(x) if by_class else (type(x), x)
                    if hk in seen:
                        continue
                    seen.add(hk)
                except TypeError:
                    pass
                m = ty.member(x, t)
                verdicts.append(m)
                if m is False:
                    bad.add(role)
        if any(m is None for m in verdicts):
            return None, ""
        return any(m is False for m in verdicts), "bad:" + "+".join(sorted(bad))

    def to_json(self):
        return {"fname": self.fname, "ptypes": {p: ty.render(t, 0) for p, t in self.ptypes.items()}}

    @staticmethod
    def from_json(j):
        from vp.props.c03 import _ty_from_ast

        return BindOracle(j["fname"], {p: _ty_from_ast(ast.parse(a, mode="eval").body) for p, a in j["ptypes"].items()})


# ---------------------------------------------------------------------------
# kind "shared-tv": ONE type variable on two or more parameters, through covariant forms only, in every container
# (function, keyword-only parameter, method, staticmethod, classmethod, __init__); the return annotation usually
# mentions NO type variable (bool / None / int / str; every __init__), so nothing but the solver relates the arguments.
# The expectation is the statement's: a diagnostic iff NO admissible value of the variable (one of its constraints; its
# bound; object) makes every argument a member of the substituted parameter type.

SHARED_TVS = {"T": [ty.OBJECT], "TN": [F], "TC": [I, S], "AnyStr": [S, ty.Cls(bytes)]}  # admissible solutions (covariant use)
SHARED_ERASED = {"T": ty.OBJECT, "TN": F, "TC": ty.Union(I, S), "AnyStr": ty.Union(S, ty.Cls(bytes))}
SFORMS = [
    ("{v}", lambda e: e, None),
    ("Optional[{v}]", lambda e: ty.Union(e, NONE), "None"),
    ("Sequence[{v}]", ty.Seq, "()"),
    ("Tuple[{v}, int]", lambda e: ty.Tuple(e, I), None),
    ("Tuple[{v}, ...]", ty.VarTuple, "()"),
    ("Iterable[{v}]", ty.Iter, "()"),
]
SFORM_WEIGHTS = [9, 2, 2, 1, 1, 1]
PLAIN_RETS = [("bool", "True"), ("None", "None"), ("int", "0"), ("str", "'r'")]
SHARED_CONTAINERS = ["plain", "plain", "kwonly", "method", "staticmethod", "classmethod", "init", "init"]


def gen_shared_callable(rng, k: int) -> Callable_:
    v = rng.choice(["TC", "TC", "TC", "AnyStr", "AnyStr", "T", "TN"])
    container = rng.choice(SHARED_CONTAINERS)
    n = rng.choice([2, 2, 3])
    mention = [True] * n
    if n == 3 and rng.random() < 0.4:
        mention[rng.randrange(3)] = False
    forms, plain, anns, dflts = [], [], [], []
    for i in range(n):
        if mention[i]:
            fi = rng.choices(range(len(SFORMS)), SFORM_WEIGHTS)[0]
            forms.append(fi)
            plain.append(None)
            anns.append(SFORMS[fi][0].format(v=v))
            dflts.append(SFORMS[fi][2])  # a default that says nothing about the variable, or None
        else:
            t = rng.choice([I, S, ty.Union(I, NONE)])
            forms.append(None)
            plain.append(t)
            anns.append(ty.render(t, 0))
            dflts.append(literal_items(t, rng, True, 1)[0].src)
    # defaults only on a trailing run of parameters that have one
    n_def = 0
    if rng.random() < 0.4:
        while n_def < n - 1 and dflts[n - 1 - n_def] is not None and rng.random() < 0.7:
            n_def += 1
    kw_from = n - 1 if container == "kwonly" else (n - n_def if n_def and rng.random() < 0.3 else None)
    parts, meta = [], []
    for i in range(n):
        has_default = i >= n - n_def
        if kw_from is not None and i == kw_from:
            parts.append("*")
        parts.append(f"p{i}: {anns[i]}" + (f" = {dflts[i]}" if has_default else ""))
        erased = plain[i] if forms[i] is None else SFORMS[forms[i]][1](SHARED_ERASED[v])
        meta.append((f"p{i}", erased, has_default, kw_from is not None and i >= kw_from))
    bare = [f"p{i}" for i in range(n) if forms[i] == 0]
    ret_var = bool(bare) and container != "init" and rng.random() < 0.25
    ret_ann, ret_expr = (v, rng.choice(bare)) if ret_var else rng.choice(PLAIN_RETS)
    sig = ", ".join(parts)
    if container in ("plain", "kwonly"):
        name, prefixes = f"sv{k}", [f"sv{k}"]
        lines = [f"def sv{k}({sig}) -> {ret_ann}:", f"    return {ret_expr}"]
    else:
        name = f"KS{k}"
        if container == "method":
            lines = [f"class {name}:", f"    def m(self, {sig}) -> {ret_ann}:", f"        return {ret_expr}"]
            prefixes = [f"{name}().m"]
        elif container == "staticmethod":
            lines = [f"class {name}:", "    @staticmethod", f"    def sm({sig}) -> {ret_ann}:", f"        return {ret_expr}"]
            prefixes = [f"{name}.sm", f"{name}().sm"]
        elif container == "classmethod":
            lines = [f"class {name}:", "    @classmethod", f"    def cm(cls, {sig}) -> {ret_ann}:", f"        return {ret_expr}"]
            prefixes = [f"{name}.cm", f"{name}().cm"]
        else:
            body = [f"        self.p{i} = p{i}" for i in range(n)]
            lines = [f"class {name}:", f"    def __init__(self, {sig}) -> None:"] + body
            prefixes = [name]
            ret_ann = name
    c = Callable_("shared-tv", name, lines, prefixes[0], meta, ret_ann, generic=True)
    c.prefixes, c.typevar, c.forms, c.plain, c.container, c.ret_var = prefixes, v, forms, plain, container, ret_var
    return c


def shared_expectation(c: Callable_, passed: list):
    """passed: [(parameter index, object)] -> (expected error True/False/None, class of the argument tuple)"""
    plain_ok = ty.and3([ty.member(o, c.plain[i]) for i, o in passed if c.forms[i] is None])
    mentions = [(i, o) for i, o in passed if c.forms[i] is not None]
    joint_ok = ty.or3([ty.and3([ty.member(o, SFORMS[c.forms[i]][1](sol)) for i, o in mentions]) for sol in SHARED_TVS[c.typevar]])
    ok = ty.and3([plain_ok, joint_ok])
    if ok is None:
        return None, "unknown"
    if ok:
        return False, "consistent"
    each = ty.and3([ty.member(o, c.params[i][1]) for i, o in passed])
    return True, ("joint-inconsistent" if each else "nonmember")


def gen_shared_calls(rng, c: Callable_, n: int) -> list:
    calls = []
    sols = SHARED_TVS[c.typevar]
    mention_idx = [i for i in range(len(c.params)) if c.forms[i] is not None]
    for _ in range(n):
        s0 = rng.choice(sols)
        mode = rng.choices(["consistent", "joint", "nonmember"], [5, 5 if len(sols) > 1 else 0, 2])[0]
        odd = rng.choice(mention_idx) if mode == "joint" else (rng.randrange(len(c.params)) if mode == "nonmember" else -1)
        args, kwargs, srcs, passed = [], [], [], []
        skipped = False
        for i, (p, erased, has_default, kwonly) in enumerate(c.params):
            if has_default and i != odd and rng.random() < 0.5:
                skipped = True
                continue
            if c.forms[i] is None:
                items = literal_items(c.plain[i], rng, i != odd, 4)
            elif i == odd and mode == "joint":
                form = SFORMS[c.forms[i]][1]
                s1 = rng.choice([x for x in sols if x is not s0])
                items = [it for it in literal_items(form(s1), rng, True, 8) if ty.member(it.obj, form(s0)) is False]
            elif i == odd:
                items = literal_items(erased, rng, False, 4)
            else:
                items = literal_items(SFORMS[c.forms[i]][1](s0), rng, True, 6)
            if not items:
                break
            it = rng.choice(items)
            passed.append((i, it.obj))
            srcs.append(it.src)
            if kwonly or kwargs or skipped or rng.random() < 0.2:
                kwargs.append(f"{p}={it.src}")
            else:
                args.append(it.src)
        else:
            expected, cls = shared_expectation(c, passed)
            feat = f"{c.typevar}:{c.container}:ret-{'var' if c.ret_var else 'novar'}:{cls}"
            calls.append((f"{rng.choice(c.prefixes)}({', '.join(args + kwargs)})", expected,
                          ("shared-tv", c.ret_desc if c.container != "init" else "init", tuple(SFORMS[f][0] if f is not None else ty_kind(c.plain[i]) for i, f in enumerate(c.forms)), tuple(srcs), feat)))
    return calls


# ---------------------------------------------------------------------------
# kind "pspec-forward": the calls generated for a plain callable, routed through a ParamSpec forwarder
# fw(fn_: Callable[P, R], *args: P.args, **kwargs: P.kwargs) whose return annotation is None / bool (no type variable)
# or R. The forwarded arguments are acceptable exactly when the direct call's are.

FORWARDERS = [("fw_none", "novar"), ("fw_bool", "novar"), ("fw_ret", "var")]
FORWARDABLE = ("plain", "default", "kwonly", "star", "dstar")


def forwarded_calls(rng, c: Callable_, cs: list) -> list:
    out = []
    for src, expected, desc in cs:
        fw, retk = rng.choice(FORWARDERS)
        inner = src[len(c.call_prefix) + 1 : -1]
        verdict = "unknown" if expected is None else ("error" if expected else "clean")
        out.append((f"{fw}({c.name}{', ' + inner if inner else ''})", expected,
                    ("pspec-forward", fw, desc[0], desc[1], desc[2], f"{desc[0]}:ret-{retk}:{verdict}")))
    return out


# ---------------------------------------------------------------------------
# kind "dstarcall": some arguments travel in a **-argument that is a dict display: flat, with a nested **{...}, with a
# key written twice (in one display, across the nesting levels, across two **-arguments is a binding error and is left
# out), or dict(k=v). CPython evaluates the display (the LAST occurrence of a key wins) and binds (BindOracle).

# one mechanism: a key written again at another nesting level of a **{...} display - the FIRST occurrence is bound
# (CPython: the last), so the wrong value is checked and the result type follows the wrong value
DSTAR_NESTED_REPEAT_KEY = "misjudged|dstarcall|key-repeated-across-a-nested-**-of-a-dict-display-first-occurrence-wins"
DSTAR_FORMS = ["flat", "flat", "nested", "repeat", "nested-repeat-inner-last", "nested-repeat-outer-last", "two-dstars", "dict-call"]


def gen_dstar_callable(rng, k: int) -> Callable_:
    c = gen_callable(rng, k, kinds=["plain", "plain", "default", "kwonly", "dstar"])
    c.orig_kind, c.kind = c.kind, "dstarcall"
    return c


def gen_dstar_calls(rng, c: Callable_, n: int) -> list:
    calls = []
    ptypes = {p: t for p, t, _d, _k in c.params}
    if c.dstar is not None:
        ptypes["kwargs"] = c.dstar
    for _ in range(n):
        slots = [(p, t, kwonly) for p, t, has_default, kwonly in c.params if not (has_default and rng.random() < 0.3)]
        if c.dstar is not None and rng.random() < 0.7:
            slots.append(("zz", c.dstar, True))
        if not slots:
            continue
        bad = rng.randrange(len(slots)) if rng.random() < 0.4 else -1
        chosen = []
        for j, (p, t, kwonly) in enumerate(slots):
            items = literal_items(t, rng, j != bad, 4) or literal_items(t, rng, True, 4)
            if not items:
                break
            chosen.append(rng.choice(items))
        else:
            # a prefix goes by position, the rest by keyword; at least the last one through the dict display
            npos = 0
            while npos < len(slots) - 1 and not slots[npos][2] and rng.random() < 0.4:
                npos += 1
            rest = list(range(npos, len(slots)))
            nkw = rng.randrange(0, len(rest)) if rng.random() < 0.4 else 0
            explicit, through = rest[:nkw], rest[nkw:]
            form = rng.choice(DSTAR_FORMS)
            if form == "dict-call" and bad != -1:
                form = "flat"  # what dict(k=v) holds is not statically known to pyanalyze: only all-member calls (no diagnostic allowed)
            pairs = [(repr(slots[j][0]), chosen[j].src) for j in through]
            jr = through[-1]
            other = None
            if "repeat" in form:
                # the same key once more with a value of the opposite membership: which occurrence wins decides
                p, t, _ko = slots[jr]
                opp = literal_items(t, rng, ty.member(chosen[jr].obj, t) is False, 4)
                if opp:
                    other = rng.choice(opp).src
                else:
                    form = "flat"
            def disp(ps):
                return "{" + ", ".join(f"{k_}: {v_}" for k_, v_ in ps) + "}"
            key_r = repr(slots[jr][0])
            if form == "flat":
                star = "**" + disp(pairs)
            elif form == "nested":
                cut = rng.randrange(0, len(pairs))
                star = "**{" + ", ".join([f"{k_}: {v_}" for k_, v_ in pairs[:cut]] + ["**" + disp(pairs[cut:])]) + "}"
            elif form == "repeat":
                star = "**" + disp([(key_r, other)] + pairs)
            elif form == "nested-repeat-inner-last":
                star = "**{" + ", ".join([f"{k_}: {v_}" for k_, v_ in [(key_r, other)] + pairs[:-1]] + ["**" + disp(pairs[-1:])]) + "}"
            elif form == "nested-repeat-outer-last":
                star = "**{" + ", ".join(["**" + disp([(key_r, other)])] + [f"{k_}: {v_}" for k_, v_ in pairs]) + "}"
            elif form == "two-dstars":
                cut = rng.randrange(0, len(pairs))
                star = ", ".join("**" + disp(ps) for ps in (pairs[:cut], pairs[cut:]))
            else:
                star = "**dict(" + ", ".join(f"{slots[j][0]}={chosen[j].src}" for j in through) + ")"
            args = [chosen[j].src for j in range(npos)] + [f"{slots[j][0]}={chosen[j].src}" for j in explicit] + [star]
            srcs = tuple(ch.src for ch in chosen) + ((other,) if other else ())
            calls.append((f"{c.call_prefix}({', '.join(args)})", BindOracle(c.name, ptypes),
                          ("dstarcall", tuple(ty_kind(t) for _p, t, _d, _k in c.params), srcs, f"dstar-{form}")))
    return calls


# ---------------------------------------------------------------------------
# kind "method-matrix": method kind (plain / classmethod / staticmethod) x definition site (the receiver's own class /
# inherited from the base / from the grandparent / overridden with other parameter types / inherited next to overrides)
# x receiver form (the class, an instance literal, an instance known only by type (parameter), type[R] parameter, a
# module-level instance, self / cls inside another method of the receiver class, super() in a method / classmethod).
# CPython decides what the attribute access produces and how the arguments bind (MethodOracle).

MATRIX_RECV = {
    "m": ["inst", "param", "class", "self", "super", "modvar"],
    "cm": ["class", "inst", "param", "typeparam", "self", "cls", "super", "super-cls", "modvar"],
    "sm": ["class", "inst", "inst", "param", "param", "typeparam", "self", "self", "cls", "super", "super-cls", "modvar"],
}
IN_METHOD = {"self": ("self", False), "cls": ("cls", True), "super": ("super()", False), "super-cls": ("super()", True)}


def _gen_sig(rng, style, like=None):
    """-> (signature text, meta [(name, Ty, has_default, kwonly)], return annotation, return expression); `like` = a
    signature whose shape (names, defaults, keyword-only marker) is kept while the types are drawn again"""
    if like is None:
        n = rng.randrange(1, 4)
        shape = [(False, False)] * n
        r = rng.random()
        if r < 0.3:
            shape[-1] = (True, False)
        elif r < 0.45:
            shape[-1] = (rng.random() < 0.6, True)
    else:
        shape = [(d, ko) for _p, _t, d, ko in like]
    parts, meta = [], []
    for i, (has_default, kwonly) in enumerate(shape):
        t = rng.choice(PARAM_TYPES)
        text = f"p{i}: {ty.render(t, style)}"
        if has_default:
            inh = literal_items(t, rng, True, 3)
            if inh:
                text += f" = {inh[0].src}"
            else:
                has_default = False
        if kwonly:
            parts.append("*")
        parts.append(text)
        meta.append((f"p{i}", t, has_default, kwonly))
    ret_ann, ret_expr = ret_for(rng, [(p, t) for p, t, _d, _k in meta], style)
    return ", ".join(parts), meta, ret_ann, ret_expr


class Family:
    """MB (defines m / cm / sm), MM(MB), ML(MM) inherit everything, MO(MB) overrides some of them."""

    ROLES = ("MB", "MM", "ML", "MO")
    BASES = {"MB": None, "MM": "MB", "ML": "MM", "MO": "MB"}

    def __init__(self, rng, k: int):
        self.k = k
        style = rng.randrange(2)
        self.sigs = {}
        for meth in ("m", "cm", "sm"):
            self.sigs["MB", meth] = _gen_sig(rng, style)
        self.overridden = [meth for meth in ("m", "cm", "sm") if rng.random() < 0.7] or ["sm"]
        for meth in self.overridden:
            self.sigs["MO", meth] = _gen_sig(rng, style, like=self.sigs["MB", meth][1])
        self.callers = {r: [] for r in self.ROLES}  # role -> lines
        self.modvars = []
        self.ncallers = 0

    def cls(self, role: str) -> str:
        return f"{role}{self.k}"

    def resolve(self, role: str, meth: str, via_super: bool) -> str:
        """role of the class whose definition the lookup finds"""
        if via_super:
            return "MB"
        return "MO" if role == "MO" and meth in self.overridden else "MB"

    def defsite(self, role: str, meth: str, via_super: bool) -> str:
        if via_super:
            return {"MM": "base", "ML": "grandparent", "MO": "base-of-overrider"}[role]
        if role == "MO":
            return "overridden" if meth in self.overridden else "inherited-beside-overrides"
        return {"MB": "own", "MM": "inherited", "ML": "inherited-from-grandparent"}[role]

    def ptypes(self) -> dict:
        return {f"{self.cls(role)}.{meth}": {p: t for p, t, _d, _k in sig[1]} for (role, meth), sig in self.sigs.items()}

    def render(self) -> list:
        lines = []
        for role in self.ROLES:
            base = self.BASES[role]
            lines.append(f"class {self.cls(role)}{'(' + self.cls(base) + ')' if base else ''}:")
            body = []
            for meth, deco, first in (("m", None, "self"), ("cm", "@classmethod", "cls"), ("sm", "@staticmethod", None)):
                if (role, meth) in self.sigs:
                    sig, _meta, ret_ann, ret_expr = self.sigs[role, meth]
                    if deco:
                        body.append(f"    {deco}")
                    body.append(f"    def {meth}({first + ', ' if first else ''}{sig}) -> {ret_ann}:")
                    body.append(f"        return {ret_expr}")
            body += self.callers[role]
            lines += body or ["    pass"]
        return lines + self.modvars


def gen_matrix_family(rng, k: int) -> Callable_:
    fam = Family(rng, k)
    c = Callable_("method-matrix", fam.cls("MB"), fam.render(), fam.cls("MB"), [], "")
    c.family = fam
    return c


def gen_matrix_calls(rng, c: Callable_, n: int) -> list:
    fam = c.family
    calls = []
    ptypes = fam.ptypes()
    for _ in range(n):
        meth = rng.choice(["m", "cm", "sm", "sm"])
        recv = rng.choice(MATRIX_RECV[meth])
        role = rng.choice(Family.ROLES if not recv.startswith("super") else Family.ROLES[1:])
        R = fam.cls(role)
        via_super = recv.startswith("super")
        target = fam.resolve(role, meth, via_super)
        _sig, meta, ret_ann, _e = fam.sigs[target, meth]
        extra = {"env": {}, "exec": None, "where": None, "defs": c.def_lines}
        if recv == "inst":
            prefix = callee = f"{R}().{meth}"
        elif recv == "class":
            prefix = callee = f"{R}.{meth}"
        elif recv == "param":
            name = f"r_{R}"
            extra["env"][name] = (R, f"{R}()")
            prefix = callee = f"{name}.{meth}"
        elif recv == "typeparam":
            name = f"t_{R}"
            extra["env"][name] = (f"Type[{R}]", R)
            prefix = callee = f"{name}.{meth}"
        elif recv == "modvar":
            name = f"MI_{R}"
            if f"{name} = {R}()" not in fam.modvars:
                fam.modvars.append(f"{name} = {R}()")
            prefix = callee = f"{name}.{meth}"
        else:
            obj, in_classmethod = IN_METHOD[recv]
            prefix = f"{obj}.{meth}"
            if recv == "self":
                callee = f"{R}().{meth}"
            elif recv == "cls":
                callee = f"{R}.{meth}"
            else:
                callee = f"super({R}, {R if in_classmethod else R + '()'}).{meth}"
        tmp = Callable_("method-matrix", R, [], prefix, meta, ret_ann)
        got = gen_calls(rng, tmp, 1)
        if not got:
            continue
        src, _static, desc = got[0]
        inner = src[len(prefix) + 1 : -1]
        if meth == "m" and recv == "class":
            inner = f"{R}()" + (", " + inner if inner else "")  # the receiver handed over explicitly
            src = f"{prefix}({inner})"
        if recv in IN_METHOD:
            j = fam.ncallers
            fam.ncallers += 1
            in_classmethod = IN_METHOD[recv][1]
            if in_classmethod:
                fam.callers[role] += ["    @classmethod", f"    def c{j}(cls):", f"        return {src}"]
                extra["exec"] = f"{R}.c{j}()"
            else:
                fam.callers[role] += [f"    def c{j}(self):", f"        return {src}"]
                extra["exec"] = f"{R}().c{j}()"
            extra["where"] = [R, f"c{j}"]
        feat = f"{ {'m': 'plain', 'cm': 'classmethod', 'sm': 'staticmethod'}[meth] }:{fam.defsite(role, meth, via_super)}:{recv}"
        oracle = MethodOracle(callee, inner, ptypes)
        calls.append((src, oracle, ("method-matrix", desc[1], desc[2], feat), extra))
    c.def_lines[:] = fam.render()
    return calls


# ---------------------------------------------------------------------------
# kind "generic-class": methods / classmethods / the constructor of class GB(Generic[T]) reached through a subclass
# GS(GB[B]) (and its child GL) that binds T to a concrete type B, or through the alias GB[B]: every parameter
# annotated T has the declared type B there.

GC_BINDINGS = [I, S, F, BL, ty.Cls(bytes), ty.Cls(prelude.Num), ty.Union(I, NONE), ty.Union(I, S), ty.Tuple(I, S), ty.Lit(1), ty.Cls(prelude.Color)]
GC_METHODS = {  # name -> (decorator, first parameter, return annotation (None: the class itself), return expression)
    "put": (None, "self", "bool", "True"), "swap": (None, "self", "T", "y"),
    "mk": ("@classmethod", "cls", None, "cls(y)"), "chk": ("@classmethod", "cls", "None", "None"),
}
GC_VIA = {
    "init": ["sub-class", "grandchild-class"],
    "put": ["sub-inst", "sub-param", "grandchild-inst", "grandchild-param", "alias-param"],
    "swap": ["sub-inst", "sub-param", "grandchild-param", "alias-param"],
    "mk": ["sub-class", "sub-class", "grandchild-class", "sub-param", "sub-typeparam", "alias-class"],
    "chk": ["sub-class", "sub-class", "grandchild-class", "sub-inst", "sub-typeparam", "alias-class"],
}


def gen_generic_class(rng, k: int) -> Callable_:
    b = rng.choice(GC_BINDINGS)
    oks = literal_items(b, rng, True, 4)
    lines = [f"class GB{k}(Generic[T]):", "    def __init__(self, y: T) -> None:", "        self.y = y"]
    for name, (deco, first, ret, expr) in GC_METHODS.items():
        if deco:
            lines.append(f"    {deco}")
        ret_ann = ret if ret is not None else f"'GB{k}[T]'"
        lines += [f"    def {name}({first}, y: T) -> {ret_ann}:", f"        return {expr}"]
    lines += [f"class GS{k}(GB{k}[{ty.render(b, 0)}]):", "    pass", f"class GL{k}(GS{k}):", "    pass"]
    c = Callable_("generic-class", f"GB{k}", lines, f"GS{k}", [("y", b, False, False)], "")
    c.binding, c.ok, c.k = b, oks[0].src, k
    return c


def gen_generic_class_calls(rng, c: Callable_, n: int) -> list:
    calls = []
    k, b = c.k, c.binding
    for _ in range(n):
        meth = rng.choice(["init", "put", "put", "swap", "mk", "mk", "chk", "chk"])
        via = rng.choice(GC_VIA[meth])
        who, form = via.rsplit("-", 1)
        cls_ = {"sub": f"GS{k}", "grandchild": f"GL{k}", "alias": f"GB{k}[{ty.render(b, 0)}]"}[who]
        extra = {"env": {}, "exec": None, "where": None, "defs": c.def_lines}
        if form == "class":
            recv = cls_
        elif form == "inst":
            recv = f"{cls_}({c.ok})"
        elif form == "param":
            recv = f"r_{who}{k}"
            extra["env"][recv] = (cls_, f"{cls_}({c.ok})" if who != "alias" else f"GB{k}({c.ok})")
        else:
            recv = f"t_{who}{k}"
            extra["env"][recv] = (f"Type[{cls_}]", cls_)
        items = literal_items(b, rng, rng.random() < 0.5, 4) or literal_items(b, rng, True, 4)
        if not items:
            continue
        it = rng.choice(items)
        m = ty.member(it.obj, b)
        expected = None if m is None else not m
        arg = it.src if rng.random() < 0.8 else f"y={it.src}"
        src = f"{recv}({arg})" if meth == "init" else f"{recv}.{meth}({arg})"
        calls.append((src, expected, ("generic-class", ty_kind(b), it.src, f"{meth}:{via}"), extra))
    return calls


class MethodOracle:
    """Expectation decided at check time by CPython: the attribute access is performed, the arguments are evaluated
    and bound with inspect.signature(<what the access produced>).bind, and every bound value is tested for membership
    in the annotation of the parameter it landed in - the annotations of the definition CPython found (__qualname__)."""

    def __init__(self, callee: str, inner: str, ptypes: dict):
        self.callee, self.inner, self.ptypes = callee, inner, ptypes

    def __call__(self, src: str, ns, loc=None):
        import inspect

        try:
            callee = eval(self.callee, ns, loc)
            a, k = eval(f"(lambda *a, **k: (a, k))({self.inner})", ns, loc)
            sig = inspect.signature(callee)
            bound = sig.bind(*a, **k)
        except TypeError:
            return "nobind", ""
        fn = getattr(callee, "__func__", callee)
        ptypes = self.ptypes[fn.__qualname__]
        verdicts = []
        for pname, val in bound.arguments.items():
            t = ptypes.get(pname)
            if t is not None:
                verdicts.append(ty.member(val, t))
        if any(m is None for m in verdicts):
            return None, ""
        return any(m is False for m in verdicts), ""

    def to_json(self):
        return {"callee": self.callee, "inner": self.inner,
                "ptypes": {q: {p: ty.render(t, 0) for p, t in d.items()} for q, d in self.ptypes.items()}}

    @staticmethod
    def from_json(j):
        from vp.props.c03 import _ty_from_ast

        return MethodOracle(j["callee"], j["inner"], {q: {p: _ty_from_ast(ast.parse(a, mode="eval").body) for p, a in d.items()}
                                                      for q, d in j["ptypes"].items()})


NEW_KINDS = ("generic-gen", "starcall", "new", "new+init", "shared-tv", "pspec-forward", "method-matrix", "dstarcall", "generic-class")  # witnesses of these kinds carry their own expectation
FEAT_KINDS = ("generic-gen", "starcall", "shared-tv", "pspec-forward", "method-matrix", "dstarcall", "generic-class")
HEAD0 = ["from vp.prelude import *", "import typing", GENERIC_DEFS]


def check_batch(ctx, callables, calls, head=None) -> None:
    """calls: (source, expectation, description[, extra]); extra = {"env": {holder parameter: (annotation, constructor
    source)}, "where": [class, method] when the call is the return value of that method instead of a holder line,
    "exec": the expression that executes such a call, "defs": the definition lines the call needs (for the witness)}"""
    lines = list(HEAD0)
    for c in callables:
        lines += c.def_lines
    if head is not None:
        lines = [head.rstrip("\n")]
    env = {}
    for call in calls:
        if len(call) > 3:
            env.update(call[3]["env"])
    lines.append(f"def holder({', '.join(f'{n}: {ann}' for n, (ann, _ctor) in env.items())}):")
    in_holder = [i for i, call in enumerate(calls) if not (len(call) > 3 and call[3]["where"])]
    for i in in_holder:
        lines.append(f"    {calls[i][0]}")
    if not in_holder:
        lines.append("    pass")
    source = "\n".join(lines) + "\n"
    tree = ast.parse(source)
    holder = next(n for n in tree.body if isinstance(n, ast.FunctionDef) and n.name == "holder")
    assert len(holder.body) == max(1, len(in_holder))
    stmts = {i: holder.body[j] for j, i in enumerate(in_holder)}
    classes = {n.name: n for n in tree.body if isinstance(n, ast.ClassDef)}
    for i, call in enumerate(calls):
        if i not in stmts:
            cname, mname = call[3]["where"]
            stmts[i] = next(b for b in classes[cname].body if isinstance(b, ast.FunctionDef) and b.name == mname).body[0]
    res = harness.run(source, tree=tree, annotate=True, keep_module=True, overrides={"missing_return": False})
    try:
        if res.exception is not None:
            ctx.violation("harness|exception", f"check raised {res.exception!r}", {"source": source, "index": 0})
            return
        by_line = res.by_line()
        ns = res.module.__dict__
        for i, call in enumerate(calls):
            src, expected, desc = call[:3]
            extra = call[3] if len(call) > 3 else None
            st = stmts[i]
            ds = [d for d in by_line.get(st.lineno, []) if d.code in CODES]
            other = [d.code for d in by_line.get(st.lineno, []) if d.code not in CODES]
            ctx.count("evaluations")
            loc = {n: eval(ctor, ns) for n, (_ann, ctor) in extra["env"].items()} if extra else None
            try:
                result = eval((extra and extra["exec"]) or src, ns, loc)
                raised = None
            except TypeError as e:
                raised = e
                result = None
            except Exception as e:  # noqa: BLE001
                raised = e
                result = None
            bind_failed = isinstance(raised, TypeError) and any(s in str(raised) for s in ("positional argument", "keyword argument", "required", "multiple values"))
            if bind_failed:
                ctx.count("calls_not_binding_skipped")
                continue
            if "internal_error" in other:
                ctx.count("internal_error_lines")
                continue
            diagnosed = bool(ds)
            wit = {"source": source, "index": i, "call": src}
            defs_text = None
            if extra is not None:
                # a minimal module: the definitions this call needs and the call alone
                defs_text = "\n".join(extra["defs"])
                wit = {"source": "\n".join(HEAD0 + list(extra["defs"])) + "\ndef holder():\n    pass\n", "index": 0, "call": src,
                       "extra": {"env": {n: list(v) for n, v in extra["env"].items()}, "exec": extra["exec"], "where": extra["where"]}}
            feat = ""
            if desc[0] in NEW_KINDS:
                feat = desc[-1] if desc[0] in FEAT_KINDS else ""
                wit.update(kind=desc[0], feat=feat)
                if isinstance(expected, BindOracle):
                    wit["oracle"] = expected.to_json()
                    expected, bad_roles = expected(src, ns)
                    if expected == "nobind":
                        ctx.count("calls_not_binding_skipped")
                        continue
                    if desc[0] == "dstarcall":
                        if expected is not None:
                            ctx.count("dstarcall_judged")
                            if "repeat" in feat:
                                ctx.count("dstarcall_repeated_key_judged")
                            ctx.histo("dstarcall_forms", f"{feat}:{'error' if expected else 'clean'}")
                    else:
                        if bad_roles:
                            feat = f"{feat}|{bad_roles}"
                        ctx.count("starcall_judged")
                        if "star-long" in feat and expected is not None:
                            ctx.count("starcall_long_judged")
                            ctx.count("starcall_long_expect_error" if expected else "starcall_long_expect_clean")
                        ctx.histo("starcall_forms", f"{feat}:{'error' if expected else 'clean'}")
                elif isinstance(expected, MethodOracle):
                    wit["oracle"] = expected.to_json()
                    expected, _ = expected(src, ns, loc)
                    if expected == "nobind":
                        ctx.count("calls_not_binding_skipped")
                        continue
                    if expected is not None:
                        ctx.count("matrix_judged")
                        kind_, site_, recv_ = feat.split(":")
                        if kind_ == "staticmethod" and site_.startswith("inherited") and recv_ in ("inst", "param", "self"):
                            ctx.count("matrix_inherited_static_via_instance")
                        if recv_ in IN_METHOD:
                            ctx.count("matrix_inside_method")
                        ctx.histo("matrix_cells", f"{feat}:{'error' if expected else 'clean'}")
                else:
                    wit["expected"] = expected
                    verdict = "error" if expected else "clean" if expected is False else "unjudged"
                    if desc[0] == "generic-gen":
                        ctx.histo("generic_gen_sources", f"{feat}:{verdict}")
                    elif desc[0] == "shared-tv":
                        ctx.histo("shared_tv_cells", feat)
                        if expected is not None:
                            ctx.count("shared_tv_judged")
                            if feat.endswith("ret-novar:joint-inconsistent"):
                                ctx.count("shared_tv_joint_inconsistent_without_variable_in_return")
                    elif desc[0] == "generic-class":
                        ctx.histo("generic_class_cells", f"{feat}:{verdict}")
                        if expected is not None:
                            ctx.count("generic_class_judged")
                    elif desc[0] == "pspec-forward":
                        ctx.histo("pspec_forward_cells", feat)
                        if expected is not None:
                            ctx.count("pspec_forward_judged")
                            if feat.endswith("ret-novar:error"):
                                ctx.count("pspec_forward_error_without_variable_in_return")
            if expected is None:
                ctx.count("membership_unknown")
            else:
                ctx.count("calls_judged")
                ctx.count("expect_error" if expected else "expect_clean")
                ctx.nontrivial(desc)
                ctx.histo("kind_x_verdict", f"{desc[0]}:{'error' if expected else 'clean'}")
                if diagnosed != expected:
                    direction = "missed" if expected else "spurious"
                    key = f"{direction}|{desc[0]}|{classify_args(src, ns, ds)}" + (f"|{feat}" if feat else "")
                    if desc[0] == "starcall" and not expected and "star-long" in feat and _positional_after_star(st.value):
                        # one mechanism: explicit positionals written after a summarised *-argument are merged into it,
                        # so their types are reported against every parameter the *-argument may reach
                        key = "spurious|starcall|positional-after-summarised-star-merged-into-it"
                    if desc[0] == "method-matrix" and feat.startswith("staticmethod:") and feat.endswith(":super"):
                        # one mechanism: a staticmethod reached through super() inside a method is taken for a plain
                        # method - the receiver is prepended and every argument shifts by one parameter
                        key = "misjudged|method-matrix|staticmethod-through-super()-in-a-method-bound-like-a-plain-method"
                    if desc[0] == "dstarcall" and "nested-repeat" in feat:
                        key = DSTAR_NESTED_REPEAT_KEY
                    if desc[0] == "generic-class" and expected and not ds and feat.split(":")[0] in ("mk", "chk"):
                        # a classmethod defined in GB(Generic[T]): T keeps no binding when the method is reached through
                        # a subclass of GB[B] (class object, type[...], instance) resp. through the subscripted GB[B]
                        key = ("missed|generic-class|classmethod-through-subscripted-GB[B]-type-variable-left-unbound" if ":alias-" in feat
                               else "missed|generic-class|classmethod-of-generic-base-through-a-subclass-binding-T-type-variable-left-unbound")
                    what = (f"`{src}`: an argument {'is not' if expected else 'is'} a member of its parameter type, pyanalyze reports "
                            f"{[d.short() for d in ds][:1] if ds else 'nothing'}\n{defs_text if defs_text is not None else definition_of(source, src)}")
                    ctx.violation(key, what, wit)
            # (callables whose default lies outside the annotation are ill-typed themselves — pyanalyze reports
            # incompatible_default at the def — so what they return is not judged)
            if raised is None and not diagnosed and desc[0] != "bad-default":
                inferred = getattr(st.value, "inferred_value", None)
                if inferred is not None:
                    t = ty.from_value(inferred)
                    m = ty.member(result, t)
                    ctx.count("results_checked")
                    if desc[0] == "generic-gen":
                        ctx.count("generic_gen_results_checked")
                        if "omitted-default0" not in feat and "passed0" not in feat:
                            ctx.count("generic_gen_results_with_omitted_default")
                    elif desc[0] == "starcall":
                        ctx.count("starcall_results_checked")
                    elif desc[0] == "method-matrix":
                        ctx.count("matrix_results_checked")
                    if m is False:
                        key = f"result-not-in-inferred|{desc[0]}|{type(result).__name__} not in {tdesc(t)}" + (f"|{feat}" if feat else "")
                        if _equal_args_of_different_type(st.value, ns):
                            key = "result-not-in-inferred|equal-literal-arguments-of-different-type-merged"
                        if desc[0] == "dstarcall" and "nested-repeat" in feat:
                            key = DSTAR_NESTED_REPEAT_KEY
                        ctx.violation(key, f"`{src}` returned {result!r} but pyanalyze inferred {inferred}\n{defs_text if defs_text is not None else definition_of(source, src)}", wit)
                    elif m is None:
                        ctx.count("result_membership_unknown")
        if len(ctx.samples) < 3 and calls:
            ctx.sample({"call": calls[0][0], "expected_error": calls[0][1] if isinstance(calls[0][1], (bool, type(None))) else "decided by CPython's binder"})
    finally:
        harness.forget_module(res.module)


def _positional_after_star(call: ast.Call) -> bool:
    seen = False
    for a in call.args:
        if isinstance(a, ast.Starred):
            seen = True
        elif seen:
            return True
    return False


def _equal_args_of_different_type(call: ast.Call, ns) -> bool:
    """Two arguments compare equal without being the same literal (1 / True, [1] / [True]): pyanalyze merges equal
    KnownValues, so a type variable solved from both keeps only one of them."""
    vals = []
    for a in call.args:
        try:
            vals.append(eval(ast.unparse(a), ns))
        except Exception:  # noqa: BLE001
            return False
    for i in range(len(vals)):
        for j in range(i + 1, len(vals)):
            try:
                if vals[i] == vals[j] and ty.lit_equal(vals[i], vals[j]) is not True:
                    return True
            except Exception:  # noqa: BLE001
                pass
    return False


def tdesc(t: Ty) -> str:
    if t.kind == "Cls":
        return f"Cls:{t.extra.__name__}"
    if t.kind == "Lit":
        return f"Lit:{type(t.extra.v).__name__}"
    return t.kind


def definition_of(source: str, call_src: str) -> str:
    name = call_src.split("(")[0].split(".")[0]
    name = name.rstrip(")")
    if name.startswith("fw_"):  # a forwarder: show the callable it forwards to
        name = call_src.split("(", 1)[1].split(",")[0].rstrip(")").strip()
    tree = ast.parse(source)
    for n in tree.body:
        if isinstance(n, (ast.FunctionDef, ast.ClassDef)) and n.name == name:
            return ast.get_source_segment(source, n) or ""
    return ""


def classify_args(src: str, ns, ds) -> str:
    """Mechanism features of a mis-judged call: message class of the diagnostic, else the pair
    (parameter annotation kind, argument python type) of the first argument that decides the verdict."""
    import re

    if ds:
        d = ds[0].description
        d = re.sub(r"Literal\[.*?\]|'[^']*'|<.*?>", "X", d)
        d = re.sub(r"\d+", "#", d)
        d = re.sub(r"\b[fK]\d+\b|\bp\d\b", "N", d)
        return "msg:" + d[:70]
    return "undiagnosed"


def shard(ctx) -> None:
    rng = ctx.rng
    ncall = ctx.pick(220, 1500)
    per = ctx.pick(6, 8)
    callables = []
    calls = []
    k = 0
    for _ in range(ncall):
        c = gen_callable(rng, k)
        k += 1
        cs = gen_calls(rng, c, per)
        callables.append(c)
        calls.extend(cs)
        if c.kind in FORWARDABLE and rng.random() < 0.18:
            calls.extend(forwarded_calls(rng, c, cs))
        if len(calls) >= BATCH:
            check_batch(ctx, callables, calls)
            callables, calls = [], []
    if calls:
        check_batch(ctx, callables, calls)
    gcalls = gen_generic_calls(rng, ctx.pick(500, 4000))
    for i in range(0, len(gcalls), BATCH):
        check_batch(ctx, [], gcalls[i : i + BATCH])
    # generated generics (type variable shared between passed and defaulted parameters) and calls with a *-argument
    for gen_c, gen_calls_, ncall2, per2 in (
        (gen_generic_callable, gen_generic_gen_calls, ctx.pick(45, 500), ctx.pick(5, 6)),
        (gen_star_callable, gen_star_calls, ctx.pick(40, 500), ctx.pick(6, 8)),
        (gen_shared_callable, gen_shared_calls, ctx.pick(28, 400), ctx.pick(7, 8)),
        (gen_matrix_family, gen_matrix_calls, ctx.pick(13, 200), ctx.pick(18, 20)),
        (gen_dstar_callable, gen_dstar_calls, ctx.pick(9, 150), ctx.pick(8, 8)),
        (gen_generic_class, gen_generic_class_calls, ctx.pick(6, 100), ctx.pick(10, 10)),
    ):
        callables, calls = [], []
        for _ in range(ncall2):
            c = gen_c(rng, k)
            k += 1
            callables.append(c)
            calls.extend(gen_calls_(rng, c, per2))
            if len(calls) >= BATCH:
                check_batch(ctx, callables, calls)
                callables, calls = [], []
        if calls:
            check_batch(ctx, callables, calls)


def replay(witness):
    from vp.core import Ctx

    ctx = Ctx(ID, "quick", 0, 0, 1)
    source = witness["source"]
    tree = ast.parse(source)
    holder = next(n for n in tree.body if isinstance(n, ast.FunctionDef) and n.name == "holder")
    # re-run only the recorded call line: rebuild the module with that single call
    call_src = witness.get("call") or ast.get_source_segment(source, holder.body[witness["index"]].value)
    head = source[: source.index("def holder(")]
    if witness.get("kind") in NEW_KINDS:
        if witness["kind"] in ("starcall", "dstarcall"):
            expected = BindOracle.from_json(witness["oracle"])
        elif witness["kind"] == "method-matrix":
            expected = MethodOracle.from_json(witness["oracle"])
        else:
            expected = witness.get("expected")
        call = (call_src, expected, (witness["kind"], witness["feat"]))
        if "extra" in witness:
            ex = witness["extra"]
            defs = head.split(GENERIC_DEFS, 1)[-1].strip("\n").split("\n")
            call += ({"env": {n: tuple(v) for n, v in ex["env"].items()}, "exec": ex["exec"], "where": ex["where"], "defs": defs},)
        check_batch(ctx, [], [call], head=head)
        for key, lst in ctx.violations.items():
            return key, lst[0]["what"]
        return None
    # recompute the expectation from scratch is not possible without the generator state; re-check both clauses
    # by running the batch machinery on a one-call module with the verdict derived from membership of each argument.
    return _replay_single(ctx, head, call_src)


def _replay_single(ctx, head: str, call_src: str):
    """Re-judge one call: expectation recomputed from the callee's runtime annotations via typing + the oracle."""
    import inspect
    import typing as _t

    source = head + "def holder():\n    " + call_src + "\n"
    tree = ast.parse(source)
    holder = next(n for n in tree.body if isinstance(n, ast.FunctionDef) and n.name == "holder")
    res = harness.run(source, tree=tree, annotate=True, keep_module=True, overrides={"missing_return": False})
    try:
        ns = res.module.__dict__
        st = holder.body[0]
        ds = [d for d in res.by_line().get(st.lineno, []) if d.code in CODES]
        call = st.value
        try:
            result = eval(call_src, ns)
            raised = None
        except Exception as e:  # noqa: BLE001
            raised, result = e, None
        # expectation: bind with inspect, compare each bound argument with its annotation through the oracle
        from vp.props.c03 import _ty_from_ast

        func = eval(ast.unparse(call.func), ns)
        expected = None
        try:
            sig = inspect.signature(func)
            argvals = [eval(ast.unparse(a), ns) for a in call.args]
            kwvals = {k.arg: eval(ast.unparse(k.value), ns) for k in call.keywords}
            bound = sig.bind(*argvals, **kwvals)
            verdicts = []
            target = func.__init__ if inspect.isclass(func) and "__init__" in vars(func) else func
            src_fn = head
            anns = _annotations_from_source(head, call_src)
            for pname, val in bound.arguments.items():
                p = sig.parameters[pname]
                ann = anns.get(pname)
                if ann is None:
                    continue
                t = _ty_from_ast(ast.parse(ann, mode="eval").body)
                vals = val if p.kind is p.VAR_POSITIONAL else (list(val.values()) if p.kind is p.VAR_KEYWORD else [val])
                for v in vals:
                    verdicts.append(ty.member(v, t))
            if verdicts and all(v is not None for v in verdicts):
                expected = any(v is False for v in verdicts)
        except Exception:  # noqa: BLE001
            expected = None
        kind = "generic:" + call_src.split("(")[0] if call_src.startswith("g_") else _kind_of(head, call_src)
        if expected is not None and not call_src.startswith("g_") and bool(ds) != expected:
            direction = "missed" if expected else "spurious"
            return f"{direction}|{kind}|{classify_args(call_src, ns, ds)}", f"`{call_src}` mis-judged"
        if call_src.startswith("g_") and expected is not None and bool(ds) != expected:
            direction = "missed" if expected else "spurious"
            return f"{direction}|{kind}|{classify_args(call_src, ns, ds)}", f"`{call_src}` mis-judged"
        if raised is None and not ds:
            inferred = getattr(call, "inferred_value", None)
            if inferred is not None:
                t = ty.from_value(inferred)
                if ty.member(result, t) is False:
                    if _equal_args_of_different_type(call, ns):
                        return "result-not-in-inferred|equal-literal-arguments-of-different-type-merged", f"`{call_src}` returned {result!r}, inferred {inferred}"
                    return f"result-not-in-inferred|{kind}|{type(result).__name__} not in {tdesc(t)}", f"`{call_src}` returned {result!r}, inferred {inferred}"
        return None
    finally:
        harness.forget_module(res.module)


def _annotations_from_source(head: str, call_src: str) -> dict:
    name = call_src.split("(")[0]
    tree = ast.parse(head)
    target = None
    base = name.split(".")[0].rstrip(")").rstrip("(")
    for n in tree.body:
        if isinstance(n, ast.FunctionDef) and n.name == base:
            target = n
        elif isinstance(n, ast.ClassDef) and n.name == base:
            meth = {"m": "m", "cm": "cm", "sm": "sm"}.get(name.split(".")[-1], "__init__")
            for b in n.body:
                if isinstance(b, ast.FunctionDef) and b.name == meth:
                    target = b
            if target is None:
                return {b.target.id: ast.unparse(b.annotation) for b in n.body if isinstance(b, ast.AnnAssign)}
    if target is None:
        return {}
    out = {}
    a = target.args
    for arg in [*a.posonlyargs, *a.args, *a.kwonlyargs, a.vararg, a.kwarg]:
        if arg is not None and arg.annotation is not None:
            out[arg.arg] = ast.unparse(arg.annotation)
    return out


def _kind_of(head: str, call_src: str) -> str:
    name = call_src.split("(")[0]
    if name.endswith(".m") or name.endswith(").m"):
        return "method"
    if name.endswith(".cm"):
        return "classmethod"
    if name.endswith(".sm"):
        return "staticmethod"
    base = name
    tree = ast.parse(head)
    for n in tree.body:
        if isinstance(n, ast.ClassDef) and n.name == base:
            if n.decorator_list:
                return "dataclass"
            if n.bases:
                return "namedtuple"
            return "init"
        if isinstance(n, ast.FunctionDef) and n.name == base:
            a = n.args
            if a.vararg:
                return "star"
            if a.kwarg:
                return "dstar"
            if a.kwonlyargs:
                return "kwonly"
            if a.defaults:
                return "default"
            return "plain"
    return "plain"
