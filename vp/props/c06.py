"""C06 — call checking: arguments against parameter types, result type.

Monitor: generated annotated callables (plain, defaulted, *args/**kwargs-typed, methods, classmethods, staticmethods,
constructors, dataclasses, NamedTuples, TypeVar-generic helpers) are called with literal arguments inside a checked,
never-called function (one call per line, annotate=True). For every call that binds:
  (1) diagnosed (incompatible_argument / incompatible_call on the line)  <=>  some argument is not a member of the
      declared type of the parameter it binds to (membership oracle, all memberships decided);
  (2) the call is then EXECUTED and its result must be a member of the type inferred for the call expression.
"""
from __future__ import annotations

import ast

from vp import harness, prelude, ty, tygen, universe
from vp.ty import Ty

ID = "C06"
LEVEL = "exploration"
RULE = (
    "case = (callable, literal argument tuple); callables: 1-4 annotated parameters drawn from a 30-type vocabulary, "
    "defaults, *args: T, **kwargs: T, instance/class/static methods, __init__ constructors, dataclass, NamedTuple, "
    "generic helpers (T, list[T], dict[K, V], Callable[[T], U], bounded and constrained TypeVars); arguments: members "
    "and near-miss non-members from the universe U (literal displays only), by position and by keyword, defaults "
    "omitted. Constructors also through a typed __new__ and through a pass-through __new__(cls, *args, **kwargs) in "
    "front of a typed __init__. GENERATED generics (kind generic-gen): 1-3 parameters over one type variable (free T, "
    "bound TN: float, constrained TC: (int, str)) in the forms T / List[T] / Sequence[T] / Optional[T] / Tuple[T, int] / "
    "Dict[str, T] or a plain int/str, 0-2 trailing parameters with defaults (positional or keyword-only), the result "
    "(T, Optional[T], List[T] or Tuple[T, ...]) built from EVERY parameter that mentions the variable, preferring the "
    "defaulted one; calls pass or omit each defaulted parameter, by position or keyword, so the variable is solved from "
    "passed arguments, omitted defaults, or both. STAR calls (kind starcall): 1-3 positional parameters (any suffix "
    "with defaults, optionally positional-only) and optionally *rest, over class-based types (plus Literal types for "
    "callables only called with short star items); the call is 0-n explicit positionals, then one *-item: a tuple / "
    "list display of 0-2 elements, a short str / bytes / range, or (when *rest exists) a str / bytes / range of 1000-2000 "
    "items that pyanalyze does not expand element by element, then sometimes one more positional. Non-trivial = all "
    "memberships decided; distinct by (callable kind, parameter type constructors, argument sources); both verdicts "
    "counted per callable kind."
)
ASSUMPTIONS = [
    "vp.ty.member is the oracle for argument membership; CPython executes the call for the result clause",
    "calls are generated to bind (binding itself is C05's subject); calls that fail to bind at run time are skipped",
    "for generic callables the argument clause is judged against the parameter type with type variables erased to "
    "their bound / constraints / object; the result clause is judged exactly",
    "generic-gen: a diagnostic is not judged (only the result clause is) when one type variable has several sources "
    "through an invariant container or is a constrained variable with several sources - the statement allows an "
    "'incompatible solution' error there",
    "starcall: the expectation comes from CPython's binder (inspect.signature(callee).bind on the evaluated arguments) "
    "plus the membership oracle on every bound value; defaults left alone are not arguments; callables that receive "
    ">= 1000-item star items use class-based parameter types only, since pyanalyze knows such elements by class only",
]
FLOORS = {
    "quick": {"distinct_nontrivial": 8000, "calls_judged": 10000, "expect_error": 3000, "expect_clean": 3000, "results_checked": 3000,
              "generic_gen_results_checked": 1400, "generic_gen_results_with_omitted_default": 330,
              "starcall_judged": 1500, "starcall_long_judged": 330, "starcall_long_expect_error": 240},
    "thorough": {"distinct_nontrivial": 60000, "calls_judged": 80000, "results_checked": 25000,
                 "generic_gen_results_checked": 19000, "generic_gen_results_with_omitted_default": 4900,
                 "starcall_judged": 26000, "starcall_long_judged": 5800, "starcall_long_expect_error": 4300},
}
CODES = {"incompatible_argument", "incompatible_call"}
BATCH = 150

I, S, F, BL, NONE = ty.Cls(int), ty.Cls(str), ty.Cls(float), ty.Cls(bool), ty.NONE
A, Bc, C = ty.Cls(prelude.A), ty.Cls(prelude.B), ty.Cls(prelude.C)
PARAM_TYPES = [
    I, BL, F, ty.Cls(complex), S, ty.Cls(bytes), NONE, ty.OBJECT, A, Bc, C, ty.Cls(prelude.Color), ty.Cls(prelude.Num),
    ty.Lit(1), ty.Lit("a"), ty.Lit(True), ty.Union(ty.Lit(1), ty.Lit(2)), ty.Lit(prelude.Color.RED),
    ty.Union(I, NONE), ty.Union(S, NONE), ty.Union(I, S), ty.Union(A, C), ty.Union(F, NONE),
    ty.Tuple(I, S), ty.VarTuple(I), ty.Tuple(), ty.List(I), ty.List(S), ty.List(ty.Union(I, NONE)), ty.Dict(S, I), ty.Set(I),
    ty.Seq(I), ty.Iter(S), ty.Map(S, I), ty.TypeOf(A), ty.TypedDictT("TD1", {"a": (I, True), "b": (S, False)}),
    ty.List(ty.Tuple(I, S)), ty.Dict(S, ty.List(I)),
]


def literal_items(t: Ty, rng, want_member: bool, n: int) -> list:
    from vp.props.c03 import is_literal_display, top_related

    pool = [it for it in universe.U if is_literal_display(it.src)]
    if want_member:
        inh = [it for it in universe.inhabitants(t, rng, 8) if is_literal_display(it.src)]
        return inh[:n] if inh else []
    non = [it for it in pool if ty.member(it.obj, t) is False]
    near = [it for it in non if top_related(it.obj, t)]
    out = rng.sample(near, min(len(near), max(1, n - 1))) + rng.sample(non, min(len(non), 1))
    return out[:n]


class Callable_:
    """One generated callable: source lines defining it + how to call it."""

    def __init__(self, kind, name, def_lines, call_prefix, params, ret_desc, star=None, dstar=None, generic=False):
        self.kind = kind
        self.name = name
        self.def_lines = def_lines
        self.call_prefix = call_prefix  # e.g. "f3" / "K3().m" / "K3.cm" / "K3"
        self.params = params            # list of (pname, Ty erased, has_default, kwonly)
        self.star = star                # Ty of *args elements or None
        self.dstar = dstar              # Ty of **kwargs values or None
        self.generic = generic
        self.ret_desc = ret_desc
        self.bad_defaults = {}      # pname -> Item: default value that is NOT a member of the annotation


def ret_for(rng, params, style):
    """return annotation + expression built from parameters so that the result check bites."""
    names = [p for p, _t in params]
    tys = dict(params)
    r = rng.random()
    if r < 0.35 or not names:
        p = rng.choice(names) if names else None
        if p is None:
            return "None", "None"
        return ty.render(tys[p], style), p
    if r < 0.55 and len(names) >= 2:
        a, b = rng.sample(names, 2)
        return f"tuple[{ty.render(tys[a], style)}, {ty.render(tys[b], style)}]", f"({a}, {b})"
    if r < 0.7:
        p = rng.choice(names)
        return f"list[{ty.render(tys[p], style)}]", f"[{p}]"
    if r < 0.8:
        p = rng.choice(names)
        return f"Optional[{ty.render(tys[p], style)}]", f"({p} if {p} else None)"
    if r < 0.9:
        p = rng.choice(names)
        return f"dict[str, {ty.render(tys[p], style)}]", "{'k': " + p + "}"
    return "None", "None"


def gen_callable(rng, k: int) -> Callable_:
    style = rng.randrange(2)
    kind = rng.choice(["plain", "plain", "plain", "default", "kwonly", "star", "dstar", "method", "classmethod", "staticmethod", "init", "dataclass", "namedtuple", "posonly-dstar", "bad-default", "new", "new+init"])
    n = rng.randrange(1, 4)
    ptypes = [rng.choice(PARAM_TYPES) for _ in range(n)]
    pnames = [f"p{i}" for i in range(n)]
    params = list(zip(pnames, ptypes))
    ret_ann, ret_expr = ret_for(rng, params, style)
    parts = []
    meta = []
    bad_defaults = {}
    for i, (p, t) in enumerate(params):
        has_default = False
        if kind == "bad-default" and i == n - 1:
            # the idiom `x: int = None`: the default lies outside the annotation; passing it explicitly is an error
            non = [it for it in literal_items(t, rng, False, 6) if it.src in ("None", "0", "''", "'a'", "1", "()", "[]")]
            if non:
                has_default = True
                bad_defaults[p] = non[0]
                parts.append(f"{p}: {ty.render(t, style)} = {non[0].src}")
        if kind in ("default", "kwonly") and i == n - 1 or (kind == "plain" and rng.random() < 0.1 and i == n - 1):
            inh = literal_items(t, rng, True, 3)
            if inh:
                has_default = True
                parts.append(f"{p}: {ty.render(t, style)} = {inh[0].src}")
        if not has_default:
            parts.append(f"{p}: {ty.render(t, style)}")
        meta.append((p, t, has_default, False))
    star = dstar = None
    if kind == "kwonly":
        # make the last parameter keyword-only
        parts.insert(len(parts) - 1, "*")
        p, t, d, _ = meta[-1]
        meta[-1] = (p, t, d, True)
    if kind == "star":
        star = rng.choice(PARAM_TYPES[:20])
        parts.append(f"*args: {ty.render(star, style)}")
    if kind in ("dstar", "posonly-dstar"):
        dstar = rng.choice(PARAM_TYPES[:20])
        if kind == "posonly-dstar":
            parts.append("/")  # every named parameter is positional-only: its name is free to be used as a keyword
        parts.append(f"**kwargs: {ty.render(dstar, style)}")
    sig = ", ".join(parts)
    if kind in ("plain", "default", "kwonly", "star", "dstar", "posonly-dstar", "bad-default"):
        lines = [f"def f{k}({sig}) -> {ret_ann}:", f"    return {ret_expr}"]
        c = Callable_(kind, f"f{k}", lines, f"f{k}", meta, ret_ann, star, dstar)
        c.bad_defaults = bad_defaults
        return c
    if kind == "method":
        lines = [f"class K{k}:", f"    def m(self, {sig}) -> {ret_ann}:", f"        return {ret_expr}"]
        return Callable_(kind, f"K{k}", lines, f"K{k}().m", meta, ret_ann)
    if kind == "classmethod":
        lines = [f"class K{k}:", "    @classmethod", f"    def cm(cls, {sig}) -> {ret_ann}:", f"        return {ret_expr}"]
        return Callable_(kind, f"K{k}", lines, f"K{k}.cm", meta, ret_ann)
    if kind == "staticmethod":
        lines = [f"class K{k}:", "    @staticmethod", f"    def sm({sig}) -> {ret_ann}:", f"        return {ret_expr}"]
        return Callable_(kind, f"K{k}", lines, f"K{k}.sm", meta, ret_ann)
    if kind == "init":
        body = [f"        self.{p} = {p}" for p, _ in params]
        lines = [f"class K{k}:", f"    def __init__(self, {sig}) -> None:"] + body
        return Callable_(kind, f"K{k}", lines, f"K{k}", meta, f"K{k}")
    if kind == "new":
        # the constructor signature lives on a typed __new__
        body = [f"        self.{p} = {p}" for p, _ in params]
        lines = [f"class K{k}:", f"    def __new__(cls, {sig}):", "        self = super().__new__(cls)"] + body + ["        return self"]
        return Callable_(kind, f"K{k}", lines, f"K{k}", meta, f"K{k}")
    if kind == "new+init":
        # a pass-through __new__(cls, *args, **kwargs) in front of a typed __init__: CPython hands the same arguments to both
        body = [f"        self.{p} = {p}" for p, _ in params]
        lines = [f"class K{k}:", "    def __new__(cls, *args, **kwargs):", "        return super().__new__(cls)",
                 f"    def __init__(self, {sig}) -> None:"] + body
        return Callable_(kind, f"K{k}", lines, f"K{k}", meta, f"K{k}")
    if kind == "dataclass":
        fields = [f"    {part}" for part in parts if part != "*"]
        lines = ["@dataclasses.dataclass", f"class K{k}:"] + fields
        meta = [(p, t, d, False) for p, t, d, _ in meta]
        return Callable_(kind, f"K{k}", lines, f"K{k}", meta, f"K{k}")
    fields = [f"    {part}" for part in parts if part != "*"]
    lines = [f"class K{k}(typing.NamedTuple):"] + fields
    meta = [(p, t, d, False) for p, t, d, _ in meta]
    return Callable_(kind, f"K{k}", lines, f"K{k}", meta, f"K{k}")


GENERIC_DEFS = '''
import dataclasses
TB = TypeVar("TB", bound=A)
TC = TypeVar("TC", int, str)
U_ = TypeVar("U_")
TN = TypeVar("TN", bound=float)
def g_ident(x: T) -> T:
    return x
def g_first(xs: List[T]) -> T:
    return xs[0]
def g_pair(a: K, b: V) -> Dict[K, V]:
    return {a: b}
def g_opt(x: T) -> Optional[T]:
    return x if x else None
def g_apply(f: Callable[[T], U_], x: T) -> U_:
    return f(x)
def g_bound(x: TB) -> TB:
    return x
def g_constrained(x: TC) -> TC:
    return x
def g_two(a: T, b: T) -> List[T]:
    return [a, b]
def g_wrap(x: T) -> Tuple[T, int]:
    return (x, 1)
def g_keys(d: Dict[K, V]) -> List[K]:
    return list(d)
def to_str(x: int) -> str:
    return str(x)
'''
GENERICS = [
    ("g_ident", [("x", ty.OBJECT)]), ("g_first", [("xs", ty.List(ty.OBJECT))]), ("g_pair", [("a", ty.OBJECT), ("b", ty.OBJECT)]),
    ("g_opt", [("x", ty.OBJECT)]), ("g_bound", [("x", A)]), ("g_constrained", [("x", ty.Union(I, S))]),
    ("g_two", [("a", ty.OBJECT), ("b", ty.OBJECT)]), ("g_wrap", [("x", ty.OBJECT)]), ("g_keys", [("d", ty.Dict(ty.OBJECT, ty.OBJECT))]),
]


def gen_calls(rng, c: Callable_, n: int) -> list:
    """Each call: (source, expected_error True/False/None, description). Calls bind by construction."""
    calls = []
    for _ in range(n):
        want_bad = rng.random() < 0.5
        bad_slot = rng.randrange(len(c.params) + (c.star is not None) + (c.dstar is not None)) if want_bad else -1
        args, kwargs = [], []
        verdicts = []
        srcs = []
        ok = True
        for i, (p, t, has_default, kwonly) in enumerate(c.params):
            if has_default and rng.random() < 0.4 and i != bad_slot:
                continue
            items = literal_items(t, rng, i != bad_slot, 4)
            if not items:
                items = literal_items(t, rng, True, 4)
            if not items:
                ok = False
                break
            it = rng.choice(items)
            if p in c.bad_defaults and rng.random() < 0.5:
                it = c.bad_defaults[p]  # the default value passed explicitly
            verdicts.append(ty.member(it.obj, t))
            srcs.append(it.src)
            by_kw = kwonly or (rng.random() < 0.25 and c.kind not in ("star", "posonly-dstar"))
            if by_kw or kwargs:
                kwargs.append(f"{p}={it.src}")
            else:
                args.append(it.src)
        if not ok:
            continue
        slot = len(c.params)
        if c.star is not None:
            for j in range(rng.randrange(0, 3)):
                items = literal_items(c.star, rng, not (bad_slot == slot and j == 0), 4) or literal_items(c.star, rng, True, 4)
                if items and not kwargs:
                    it = rng.choice(items)
                    verdicts.append(ty.member(it.obj, c.star))
                    args.append(it.src)
                    srcs.append(it.src)
            slot += 1
        if c.dstar is not None:
            names = ["zz", "yy"]
            if c.kind == "posonly-dstar":
                names = [c.params[0][0], "kwargs", "zz"]  # a keyword may reuse a positional-only name / the **name
            for j, kwname in enumerate(rng.sample(names, rng.randrange(0, len(names) + 1))):
                items = literal_items(c.dstar, rng, not (bad_slot == slot and j == 0), 4) or literal_items(c.dstar, rng, True, 4)
                if items:
                    it = rng.choice(items)
                    verdicts.append(ty.member(it.obj, c.dstar))
                    kwargs.append(f"{kwname}={it.src}")
                    srcs.append(it.src)
        src = f"{c.call_prefix}({', '.join(args + kwargs)})"
        if any(v is None for v in verdicts):
            expected = None
        else:
            expected = any(v is False for v in verdicts)
        calls.append((src, expected, (c.kind, tuple(ty_kind(t) for _, t, _, _ in c.params), tuple(srcs))))
    return calls


def ty_kind(t: Ty) -> str:
    if t.kind == "Cls":
        return t.extra.__name__
    if t.kind == "Lit":
        return f"Lit:{type(t.extra.v).__name__}"
    if t.kind == "Union":
        return "Union"
    return t.kind


def gen_generic_calls(rng, n: int) -> list:
    from vp.props.c03 import is_literal_display

    pool = [it for it in universe.U if is_literal_display(it.src) and it.src not in ("len", "ident")]
    calls = []
    for _ in range(n):
        name, params = rng.choice(GENERICS)
        args = []
        verdicts = []
        for p, t in params:
            if rng.random() < 0.75:
                items = [it for it in universe.inhabitants(t, rng, 8) if is_literal_display(it.src)] or pool
            else:
                items = pool
            it = rng.choice(items)
            args.append(it.src)
            verdicts.append(ty.member(it.obj, t))
        expected = None if any(v is None for v in verdicts) else any(v is False for v in verdicts)
        if name in ("g_pair",):
            expected = None  # unhashable keys etc. are judged only through the result clause
        calls.append((f"{name}({', '.join(args)})", expected, ("generic:" + name, tuple(args))))
    for _ in range(n // 6):
        x = rng.choice(["1", "True", "'a'", "None", "1.5"])
        calls.append((f"g_apply(to_str, {x})", None if x in ("True",) else x not in ("1", "True"), ("generic:g_apply", (x,))))
    return calls


# ---------------------------------------------------------------------------
# GENERATED TypeVar-generic callables (kind "generic-gen"): the same type variable on several parameters in several
# positions (bare, inside containers), any of them with a default the call may omit; the result is built from ALL
# parameters that mention the variable, so a solution that forgets one source (an omitted default, a keyword-only
# parameter, an element of a container) is seen by the result clause.

TYPEVARS = {"T": ty.OBJECT, "TN": F, "TC": ty.Union(I, S)}  # name -> erasure (object / bound / constraints)
TV_DEFAULTS = {"T": ["'d'", "None", "0.5", "0", "()"], "TN": ["0.5", "0", "True"], "TC": ["'d'", "0"]}
# (annotation template, erasure builder, default builder from an element literal, expression listing the T-values held)
GFORMS = [
    ("{v}", lambda e: e, lambda d: d, "[{p}]"),
    ("List[{v}]", lambda e: ty.List(e), lambda d: f"[{d}]", "list({p})"),
    ("Sequence[{v}]", lambda e: ty.Seq(e), lambda d: f"({d},)", "list({p})"),
    ("Optional[{v}]", lambda e: ty.Union(e, NONE), lambda d: d, "([] if {p} is None else [{p}])"),
    ("Tuple[{v}, int]", lambda e: ty.Tuple(e, I), lambda d: f"({d}, 0)", "[{p}[0]]"),
    ("Dict[str, {v}]", lambda e: ty.Dict(S, e), lambda d: "{'k': " + d + "}", "list({p}.values())"),
]
GFORM_WEIGHTS = [6, 2, 1, 2, 1, 1]


def gen_generic_callable(rng, k: int) -> Callable_:
    v = rng.choice(["T", "T", "T", "TN", "TC"])
    erased = TYPEVARS[v]
    n = rng.randrange(1, 4)
    n_def = rng.choice([0, 1, 1, 1, 2]) if n > 1 else rng.choice([0, 1])
    n_def = min(n_def, n)
    kwonly_from = n - n_def if (n_def and rng.random() < 0.35) else None  # the defaulted parameters are keyword-only
    parts, meta, holders = [], [], []
    bare = []
    for i in range(n):
        p = f"p{i}"
        if rng.random() < 0.85 or i == 0:
            fi = rng.choices(range(len(GFORMS)), GFORM_WEIGHTS)[0]
            if v != "T" and fi in (1, 5) and rng.random() < 0.5:
                fi = 0
            tmpl, era, dflt, held = GFORMS[fi]
            ann, t = tmpl.format(v=v), era(erased)
            holders.append(held.format(p=p))
            if fi == 0:
                bare.append(p)
            d_src = dflt(rng.choice(TV_DEFAULTS[v]))
            if fi == 3 and rng.random() < 0.5:
                d_src = "None"
            mentions = True
        else:
            t = rng.choice([I, S])
            ann = ty.render(t, 0)
            d_src = "0" if t is I else "''"
            mentions = False
        has_default = i >= n - n_def
        if kwonly_from is not None and i == kwonly_from:
            parts.append("*")
        parts.append(f"{p}: {ann} = {d_src}" if has_default else f"{p}: {ann}")
        meta.append((p, t, has_default, kwonly_from is not None and i >= kwonly_from, mentions))
    r = rng.random()
    if bare and r < 0.45:
        # the LAST bare parameter: the defaulted one when there is one
        ret_ann, ret_expr = v, (bare[-1] if rng.random() < 0.7 else rng.choice(bare))
    elif bare and r < 0.55:
        ret_ann, ret_expr = f"Optional[{v}]", bare[-1]
    elif r < 0.8:
        ret_ann, ret_expr = f"List[{v}]", "[" + ", ".join("*" + h for h in holders) + "]"
    else:
        ret_ann, ret_expr = f"Tuple[{v}, ...]", "tuple([" + ", ".join("*" + h for h in holders) + "])"
    lines = [f"def gg{k}({', '.join(parts)}) -> {ret_ann}:", f"    return {ret_expr}"]
    c = Callable_("generic-gen", f"gg{k}", lines, f"gg{k}", [(p, t, d, ko) for p, t, d, ko, _m in meta], ret_ann, generic=True)
    c.mentions = {p: m for p, _t, _d, _ko, m in meta}
    c.typevar = v
    c.invariant = any(("List[" in part or "Dict[" in part) for part in parts)
    c.multi = any(("List[" in part or "Dict[" in part or "Sequence[" in part) for part in parts)  # one argument, several sources
    return c


def gen_generic_gen_calls(rng, c: Callable_, n: int) -> list:
    calls = []
    for _ in range(n):
        bad_slot = rng.randrange(len(c.params)) if rng.random() < 0.25 else -1
        args, kwargs, verdicts, srcs = [], [], [], []
        omitted_default_mentions = 0
        passed_mentions = 0
        skipped = False
        for i, (p, t, has_default, kwonly) in enumerate(c.params):
            if has_default and rng.random() < 0.6 and i != bad_slot:
                omitted_default_mentions += c.mentions[p]
                skipped = True  # everything after an omitted parameter has to be passed by keyword
                continue
            items = literal_items(t, rng, i != bad_slot, 4) or literal_items(t, rng, True, 4)
            if not items:
                break
            it = rng.choice(items)
            verdicts.append(ty.member(it.obj, t))
            srcs.append(it.src)
            passed_mentions += c.mentions[p]
            if kwonly or kwargs or skipped or rng.random() < 0.2:
                kwargs.append(f"{p}={it.src}")
            else:
                args.append(it.src)
        else:
            if any(x is None for x in verdicts):
                expected = None
            elif any(x is False for x in verdicts):
                expected = True
            elif (passed_mentions + omitted_default_mentions >= 2 and (c.invariant or c.typevar == "TC")) or (c.typevar == "TC" and c.multi):
                # several sources for one variable through an invariant container / a constrained variable: an
                # "incompatible solution" error is allowed by the statement; only the result clause judges
                expected = None
            else:
                expected = False
            feat = f"{c.typevar}:passed{min(passed_mentions, 2)}+omitted-default{min(omitted_default_mentions, 2)}"
            calls.append((f"{c.call_prefix}({', '.join(args + kwargs)})", expected,
                          ("generic-gen", c.ret_desc, tuple(ty_kind(t) for _, t, _, _ in c.params), tuple(srcs), feat)))
    return calls


# ---------------------------------------------------------------------------
# calls with a *-argument (kind "starcall"): positional parameters (required / with defaults / positional-only) and
# optionally *rest are filled from explicit positionals plus a star item that pyanalyze expands element by element
# (tuple / list display, short str / bytes / range) or summarises (str / bytes / range with >= 1000 items).

SCALARS = [I, S, ty.Cls(bytes), F, BL, ty.OBJECT, ty.Union(I, NONE), ty.Union(I, S), ty.Union(S, NONE)]
SCALARS_LIT = [ty.Lit(1), ty.Lit("a"), ty.Union(ty.Lit(0), ty.Lit(1))]
LONG_STARS = [("range", "range(1000)"), ("range", "range(2000)"), ("str", "('x' * 1500)"), ("str", "('ab' * 600)"),
              ("bytes", "(b'x' * 1200)"), ("range", "range(5, 1500)")]
SHORT_STARS = [("str", "'a'"), ("str", "'ab'"), ("bytes", "b'a'"), ("bytes", "b'ab'"), ("range", "range(1)"),
               ("range", "range(2)"), ("range", "range(3)"), ("tuple", "()"), ("list", "[]"), ("str", "''")]


def gen_star_callable(rng, k: int) -> Callable_:
    style = rng.randrange(2)
    n = rng.randrange(1, 4)
    lit_ok = rng.random() < 0.25
    vocab = SCALARS + (SCALARS_LIT if lit_ok else [])
    ptypes = [rng.choice(vocab) for _ in range(n)]
    n_def = rng.choice([0, 1, 1, 2, 3])
    n_def = min(n_def, n)
    params = [(f"p{i}", t) for i, t in enumerate(ptypes)]
    ret_ann, ret_expr = ret_for(rng, params, style)
    parts, meta = [], []
    for i, (p, t) in enumerate(params):
        has_default = False
        if i >= n - n_def:
            inh = literal_items(t, rng, True, 3)
            if inh:
                has_default = True
                parts.append(f"{p}: {ty.render(t, style)} = {inh[0].src}")
        if not has_default:
            if any(m[2] for m in meta):  # a required parameter cannot follow a defaulted one
                inh = literal_items(t, rng, True, 3)
                has_default = True
                parts.append(f"{p}: {ty.render(t, style)} = {inh[0].src if inh else 'None'}")
            else:
                parts.append(f"{p}: {ty.render(t, style)}")
        meta.append((p, t, has_default, False))
    if rng.random() < 0.3:
        parts.append("/")
    star = None
    if rng.random() < 0.7:
        star = rng.choice(vocab)
        parts.append(f"*rest: {ty.render(star, style)}")
    lines = [f"def fs{k}({', '.join(parts)}) -> {ret_ann}:", f"    return {ret_expr}"]
    c = Callable_("starcall", f"fs{k}", lines, f"fs{k}", meta, ret_ann, star)
    c.long_ok = not any(t.kind == "Lit" or (t.kind == "Union" and any(a.kind == "Lit" for a in t.args)) for t in [*ptypes, *([star] if star else [])])
    return c


def gen_star_calls(rng, c: Callable_, n: int) -> list:
    calls = []
    ptypes = {p: t for p, t, _d, _k in c.params}
    if c.star is not None:
        ptypes["rest"] = c.star
    slots = [t for _p, t, _d, _k in c.params]
    for _ in range(n):
        want_bad = rng.random() < 0.4
        npre = rng.randrange(0, len(slots) + 1)
        args, srcs = [], []

        def slot_type(j):
            return slots[j] if j < len(slots) else c.star

        def pick_for(j, bad):
            t = slot_type(j)
            if t is None:
                return None
            items = literal_items(t, rng, not bad, 4) or literal_items(t, rng, True, 4)
            return rng.choice(items) if items else None

        bad_at = rng.randrange(0, len(slots) + 2) if want_bad else -1
        ok = True
        for j in range(npre):
            it = pick_for(j, j == bad_at)
            if it is None:
                ok = False
                break
            args.append(it.src)
            srcs.append(it.src)
        if not ok:
            continue
        r = rng.random()
        if c.star is not None and c.long_ok and r < 0.3:
            form, src = rng.choice(LONG_STARS)
            star_src, size = f"*{src}", "long"
        elif r < 0.55:
            form, src = rng.choice(SHORT_STARS)
            star_src, size = f"*{src}", "short"
        else:
            m = rng.randrange(0, 3)
            elems = []
            for j in range(npre, npre + m):
                it = pick_for(j, j == bad_at)
                if it is None:
                    break
                elems.append(it.src)
            form = rng.choice(["tuple", "list"])
            inner = ", ".join(elems)
            star_src = f"*({inner}{',' if len(elems) == 1 else ''})" if form == "tuple" else f"*[{inner}]"
            size = "short"
        args.append(star_src)
        srcs.append(star_src)
        if rng.random() < 0.2:
            it = rng.choice(literal_items(rng.choice(SCALARS), rng, True, 4))
            args.append(it.src)
            srcs.append(it.src)
        src = f"{c.call_prefix}({', '.join(args)})"
        calls.append((src, BindOracle(c.name, ptypes), ("starcall", tuple(ty_kind(t) for t in slots), tuple(srcs), f"star-{size}-{form}")))
    return calls


def _class_based(t: Ty) -> bool:
    """membership in t depends on the class of the value only"""
    if t.kind in ("Cls", "Object", "NoneT"):
        return True
    return t.kind == "Union" and all(_class_based(a) for a in t.args)


class BindOracle:
    """Expectation decided at check time by CPython's own binder: the call's arguments are evaluated, bound with
    inspect.signature(callee).bind, and every bound argument value is tested for membership in the declared type of the
    parameter it landed in (defaults that the call leaves alone are not arguments)."""

    def __init__(self, fname: str, ptypes: dict):
        self.fname = fname
        self.ptypes = ptypes

    def __call__(self, src: str, ns):
        """-> (expected True/False/None, feature string) or ("nobind", "")"""
        import inspect

        func = ns[self.fname]
        inner = src[len(self.fname) + 1 : -1]
        try:
            a, k = eval(f"(lambda *a, **k: (a, k))({inner})", ns)
            sig = inspect.signature(func)
            bound = sig.bind(*a, **k)
        except TypeError:
            return "nobind", ""
        verdicts = []
        bad = set()
        for pname, val in bound.arguments.items():
            p = sig.parameters[pname]
            t = self.ptypes.get(pname)
            if t is None:
                continue
            vals = val if p.kind is p.VAR_POSITIONAL else (list(val.values()) if p.kind is p.VAR_KEYWORD else [val])
            seen = set()
            role = "rest" if p.kind is p.VAR_POSITIONAL else ("defaulted" if p.default is not p.empty else "required")
            by_class = _class_based(t)
            for x in vals:
                try:
                    hk = type(x) if by_class else (type(x), x)
                    if hk in seen:
                        continue
                    seen.add(hk)
                except TypeError:
                    pass
                m = ty.member(x, t)
                verdicts.append(m)
                if m is False:
                    bad.add(role)
        if any(m is None for m in verdicts):
            return None, ""
        return any(m is False for m in verdicts), "bad:" + "+".join(sorted(bad))

    def to_json(self):
        return {"fname": self.fname, "ptypes": {p: ty.render(t, 0) for p, t in self.ptypes.items()}}

    @staticmethod
    def from_json(j):
        from vp.props.c03 import _ty_from_ast

        return BindOracle(j["fname"], {p: _ty_from_ast(ast.parse(a, mode="eval").body) for p, a in j["ptypes"].items()})


NEW_KINDS = ("generic-gen", "starcall", "new", "new+init")  # witnesses of these kinds carry their own expectation
FEAT_KINDS = ("generic-gen", "starcall")


def check_batch(ctx, callables, calls, head=None) -> None:
    lines = ["from vp.prelude import *", "import typing", GENERIC_DEFS]
    for c in callables:
        lines += c.def_lines
    if head is not None:
        lines = [head.rstrip("\n")]
    lines.append("def holder():")
    start = sum(l.count("\n") + 1 for l in lines)
    for src, _e, _d in calls:
        lines.append(f"    {src}")
    source = "\n".join(lines) + "\n"
    tree = ast.parse(source)
    holder = next(n for n in tree.body if isinstance(n, ast.FunctionDef) and n.name == "holder")
    assert len(holder.body) == len(calls)
    res = harness.run(source, tree=tree, annotate=True, keep_module=True, overrides={"missing_return": False})
    try:
        if res.exception is not None:
            ctx.violation("harness|exception", f"check raised {res.exception!r}", {"source": source, "index": 0})
            return
        by_line = res.by_line()
        ns = res.module.__dict__
        for i, (src, expected, desc) in enumerate(calls):
            st = holder.body[i]
            ds = [d for d in by_line.get(st.lineno, []) if d.code in CODES]
            other = [d.code for d in by_line.get(st.lineno, []) if d.code not in CODES]
            ctx.count("evaluations")
            try:
                result = eval(src, ns)
                raised = None
            except TypeError as e:
                raised = e
                result = None
            except Exception as e:  # noqa: BLE001
                raised = e
                result = None
            bind_failed = isinstance(raised, TypeError) and any(s in str(raised) for s in ("positional argument", "keyword argument", "required", "multiple values"))
            if bind_failed:
                ctx.count("calls_not_binding_skipped")
                continue
            if "internal_error" in other:
                ctx.count("internal_error_lines")
                continue
            diagnosed = bool(ds)
            wit = {"source": source, "index": i, "call": src}
            feat = ""
            if desc[0] in NEW_KINDS:
                feat = desc[-1] if desc[0] in FEAT_KINDS else ""
                wit.update(kind=desc[0], feat=feat)
                if isinstance(expected, BindOracle):
                    wit["oracle"] = expected.to_json()
                    expected, bad_roles = expected(src, ns)
                    if expected == "nobind":
                        ctx.count("calls_not_binding_skipped")
                        continue
                    if bad_roles:
                        feat = f"{feat}|{bad_roles}"
                    ctx.count("starcall_judged")
                    if "star-long" in feat and expected is not None:
                        ctx.count("starcall_long_judged")
                        ctx.count("starcall_long_expect_error" if expected else "starcall_long_expect_clean")
                    ctx.histo("starcall_forms", f"{feat}:{'error' if expected else 'clean'}")
                elif desc[0] != "generic-gen":
                    wit["expected"] = expected
                else:
                    wit["expected"] = expected
                    ctx.histo("generic_gen_sources", f"{feat}:{'error' if expected else 'clean' if expected is False else 'unjudged'}")
            if expected is None:
                ctx.count("membership_unknown")
            else:
                ctx.count("calls_judged")
                ctx.count("expect_error" if expected else "expect_clean")
                ctx.nontrivial(desc)
                ctx.histo("kind_x_verdict", f"{desc[0]}:{'error' if expected else 'clean'}")
                if diagnosed != expected:
                    direction = "missed" if expected else "spurious"
                    key = f"{direction}|{desc[0]}|{classify_args(src, ns, ds)}" + (f"|{feat}" if feat else "")
                    if desc[0] == "starcall" and not expected and "star-long" in feat and _positional_after_star(st.value):
                        # one mechanism: explicit positionals written after a summarised *-argument are merged into it,
                        # so their types are reported against every parameter the *-argument may reach
                        key = "spurious|starcall|positional-after-summarised-star-merged-into-it"
                    what = (f"`{src}`: an argument {'is not' if expected else 'is'} a member of its parameter type, pyanalyze reports "
                            f"{[d.short() for d in ds][:1] if ds else 'nothing'}\n{definition_of(source, src)}")
                    ctx.violation(key, what, wit)
            # (callables whose default lies outside the annotation are ill-typed themselves — pyanalyze reports
            # incompatible_default at the def — so what they return is not judged)
            if raised is None and not diagnosed and desc[0] != "bad-default":
                inferred = getattr(st.value, "inferred_value", None)
                if inferred is not None:
                    t = ty.from_value(inferred)
                    m = ty.member(result, t)
                    ctx.count("results_checked")
                    if desc[0] == "generic-gen":
                        ctx.count("generic_gen_results_checked")
                        if "omitted-default0" not in feat and "passed0" not in feat:
                            ctx.count("generic_gen_results_with_omitted_default")
                    elif desc[0] == "starcall":
                        ctx.count("starcall_results_checked")
                    if m is False:
                        key = f"result-not-in-inferred|{desc[0]}|{type(result).__name__} not in {tdesc(t)}" + (f"|{feat}" if feat else "")
                        if _equal_args_of_different_type(st.value, ns):
                            key = "result-not-in-inferred|equal-literal-arguments-of-different-type-merged"
                        ctx.violation(key, f"`{src}` returned {result!r} but pyanalyze inferred {inferred}\n{definition_of(source, src)}", wit)
                    elif m is None:
                        ctx.count("result_membership_unknown")
        if len(ctx.samples) < 3 and calls:
            ctx.sample({"call": calls[0][0], "expected_error": calls[0][1]})
    finally:
        harness.forget_module(res.module)


def _positional_after_star(call: ast.Call) -> bool:
    seen = False
    for a in call.args:
        if isinstance(a, ast.Starred):
            seen = True
        elif seen:
            return True
    return False


def _equal_args_of_different_type(call: ast.Call, ns) -> bool:
    """Two arguments compare equal without being the same literal (1 / True, [1] / [True]): pyanalyze merges equal
    KnownValues, so a type variable solved from both keeps only one of them."""
    vals = []
    for a in call.args:
        try:
            vals.append(eval(ast.unparse(a), ns))
        except Exception:  # noqa: BLE001
            return False
    for i in range(len(vals)):
        for j in range(i + 1, len(vals)):
            try:
                if vals[i] == vals[j] and ty.lit_equal(vals[i], vals[j]) is not True:
                    return True
            except Exception:  # noqa: BLE001
                pass
    return False


def tdesc(t: Ty) -> str:
    if t.kind == "Cls":
        return f"Cls:{t.extra.__name__}"
    if t.kind == "Lit":
        return f"Lit:{type(t.extra.v).__name__}"
    return t.kind


def definition_of(source: str, call_src: str) -> str:
    name = call_src.split("(")[0].split(".")[0]
    name = name.rstrip(")")
    tree = ast.parse(source)
    for n in tree.body:
        if isinstance(n, (ast.FunctionDef, ast.ClassDef)) and n.name == name:
            return ast.get_source_segment(source, n) or ""
    return ""


def classify_args(src: str, ns, ds) -> str:
    """Mechanism features of a mis-judged call: message class of the diagnostic, else the pair
    (parameter annotation kind, argument python type) of the first argument that decides the verdict."""
    import re

    if ds:
        d = ds[0].description
        d = re.sub(r"Literal\[.*?\]|'[^']*'|<.*?>", "X", d)
        d = re.sub(r"\d+", "#", d)
        d = re.sub(r"\b[fK]\d+\b|\bp\d\b", "N", d)
        return "msg:" + d[:70]
    return "undiagnosed"


def shard(ctx) -> None:
    rng = ctx.rng
    ncall = ctx.pick(220, 1500)
    per = ctx.pick(6, 8)
    callables = []
    calls = []
    k = 0
    for _ in range(ncall):
        c = gen_callable(rng, k)
        k += 1
        cs = gen_calls(rng, c, per)
        callables.append(c)
        calls.extend(cs)
        if len(calls) >= BATCH:
            check_batch(ctx, callables, calls)
            callables, calls = [], []
    if calls:
        check_batch(ctx, callables, calls)
    gcalls = gen_generic_calls(rng, ctx.pick(500, 4000))
    for i in range(0, len(gcalls), BATCH):
        check_batch(ctx, [], gcalls[i : i + BATCH])
    # generated generics (type variable shared between passed and defaulted parameters) and calls with a *-argument
    for gen_c, gen_calls_, ncall2, per2 in (
        (gen_generic_callable, gen_generic_gen_calls, ctx.pick(45, 500), ctx.pick(5, 6)),
        (gen_star_callable, gen_star_calls, ctx.pick(40, 500), ctx.pick(6, 8)),
    ):
        callables, calls = [], []
        for _ in range(ncall2):
            c = gen_c(rng, k)
            k += 1
            callables.append(c)
            calls.extend(gen_calls_(rng, c, per2))
            if len(calls) >= BATCH:
                check_batch(ctx, callables, calls)
                callables, calls = [], []
        if calls:
            check_batch(ctx, callables, calls)


def replay(witness):
    from vp.core import Ctx

    ctx = Ctx(ID, "quick", 0, 0, 1)
    source = witness["source"]
    tree = ast.parse(source)
    holder = next(n for n in tree.body if isinstance(n, ast.FunctionDef) and n.name == "holder")
    # re-run only the recorded call line: rebuild the module with that single call
    call_src = witness.get("call") or ast.get_source_segment(source, holder.body[witness["index"]].value)
    head = source[: source.index("def holder():")]
    if witness.get("kind") in NEW_KINDS:
        if witness["kind"] == "starcall":
            expected = BindOracle.from_json(witness["oracle"])
        else:
            expected = witness.get("expected")
        check_batch(ctx, [], [(call_src, expected, (witness["kind"], witness["feat"]))], head=head)
        for key, lst in ctx.violations.items():
            return key, lst[0]["what"]
        return None
    # recompute the expectation from scratch is not possible without the generator state; re-check both clauses
    # by running the batch machinery on a one-call module with the verdict derived from membership of each argument.
    return _replay_single(ctx, head, call_src)


def _replay_single(ctx, head: str, call_src: str):
    """Re-judge one call: expectation recomputed from the callee's runtime annotations via typing + the oracle."""
    import inspect
    import typing as _t

    source = head + "def holder():\n    " + call_src + "\n"
    tree = ast.parse(source)
    holder = next(n for n in tree.body if isinstance(n, ast.FunctionDef) and n.name == "holder")
    res = harness.run(source, tree=tree, annotate=True, keep_module=True, overrides={"missing_return": False})
    try:
        ns = res.module.__dict__
        st = holder.body[0]
        ds = [d for d in res.by_line().get(st.lineno, []) if d.code in CODES]
        call = st.value
        try:
            result = eval(call_src, ns)
            raised = None
        except Exception as e:  # noqa: BLE001
            raised, result = e, None
        # expectation: bind with inspect, compare each bound argument with its annotation through the oracle
        from vp.props.c03 import _ty_from_ast

        func = eval(ast.unparse(call.func), ns)
        expected = None
        try:
            sig = inspect.signature(func)
            argvals = [eval(ast.unparse(a), ns) for a in call.args]
            kwvals = {k.arg: eval(ast.unparse(k.value), ns) for k in call.keywords}
            bound = sig.bind(*argvals, **kwvals)
            verdicts = []
            target = func.__init__ if inspect.isclass(func) and "__init__" in vars(func) else func
            src_fn = head
            anns = _annotations_from_source(head, call_src)
            for pname, val in bound.arguments.items():
                p = sig.parameters[pname]
                ann = anns.get(pname)
                if ann is None:
                    continue
                t = _ty_from_ast(ast.parse(ann, mode="eval").body)
                vals = val if p.kind is p.VAR_POSITIONAL else (list(val.values()) if p.kind is p.VAR_KEYWORD else [val])
                for v in vals:
                    verdicts.append(ty.member(v, t))
            if verdicts and all(v is not None for v in verdicts):
                expected = any(v is False for v in verdicts)
        except Exception:  # noqa: BLE001
            expected = None
        kind = "generic:" + call_src.split("(")[0] if call_src.startswith("g_") else _kind_of(head, call_src)
        if expected is not None and not call_src.startswith("g_") and bool(ds) != expected:
            direction = "missed" if expected else "spurious"
            return f"{direction}|{kind}|{classify_args(call_src, ns, ds)}", f"`{call_src}` mis-judged"
        if call_src.startswith("g_") and expected is not None and bool(ds) != expected:
            direction = "missed" if expected else "spurious"
            return f"{direction}|{kind}|{classify_args(call_src, ns, ds)}", f"`{call_src}` mis-judged"
        if raised is None and not ds:
            inferred = getattr(call, "inferred_value", None)
            if inferred is not None:
                t = ty.from_value(inferred)
                if ty.member(result, t) is False:
                    if _equal_args_of_different_type(call, ns):
                        return "result-not-in-inferred|equal-literal-arguments-of-different-type-merged", f"`{call_src}` returned {result!r}, inferred {inferred}"
                    return f"result-not-in-inferred|{kind}|{type(result).__name__} not in {tdesc(t)}", f"`{call_src}` returned {result!r}, inferred {inferred}"
        return None
    finally:
        harness.forget_module(res.module)


def _annotations_from_source(head: str, call_src: str) -> dict:
    name = call_src.split("(")[0]
    tree = ast.parse(head)
    target = None
    base = name.split(".")[0].rstrip(")").rstrip("(")
    for n in tree.body:
        if isinstance(n, ast.FunctionDef) and n.name == base:
            target = n
        elif isinstance(n, ast.ClassDef) and n.name == base:
            meth = {"m": "m", "cm": "cm", "sm": "sm"}.get(name.split(".")[-1], "__init__")
            for b in n.body:
                if isinstance(b, ast.FunctionDef) and b.name == meth:
                    target = b
            if target is None:
                return {b.target.id: ast.unparse(b.annotation) for b in n.body if isinstance(b, ast.AnnAssign)}
    if target is None:
        return {}
    out = {}
    a = target.args
    for arg in [*a.posonlyargs, *a.args, *a.kwonlyargs, a.vararg, a.kwarg]:
        if arg is not None and arg.annotation is not None:
            out[arg.arg] = ast.unparse(arg.annotation)
    return out


def _kind_of(head: str, call_src: str) -> str:
    name = call_src.split("(")[0]
    if name.endswith(".m") or name.endswith(").m"):
        return "method"
    if name.endswith(".cm"):
        return "classmethod"
    if name.endswith(".sm"):
        return "staticmethod"
    base = name
    tree = ast.parse(head)
    for n in tree.body:
        if isinstance(n, ast.ClassDef) and n.name == base:
            if n.decorator_list:
                return "dataclass"
            if n.bases:
                return "namedtuple"
            return "init"
        if isinstance(n, ast.FunctionDef) and n.name == base:
            a = n.args
            if a.vararg:
                return "star"
            if a.kwarg:
                return "dstar"
            if a.kwonlyargs:
                return "kwonly"
            if a.defaults:
                return "default"
            return "plain"
    return "plain"
