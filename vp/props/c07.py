"""C07 — callable compatibility is behaviourally sound.

Monitor: for ordered pairs (expected E, actual G) of def signatures, the real pyanalyze decides whether G is acceptable
where E's signature is expected (CallableValue(sig(E)).can_assign(KnownValue(G)), the `cb: Literal[E]` parameter route
end-to-end, and the method-override route). Whenever it accepts, every concrete call shape that binds to E is executed
against G under CPython; a TypeError there refutes the property. Typed variant: accepted pairs are judged for parameter
contravariance / return covariance with the membership oracle over the universe U.

Typed signatures over all parameter kinds (typed-sig): both functions return locals(); each call shape E binds is run on
both with one marker object per argument, which tells for every argument the parameter of E that takes it and the
parameter of G that receives it (CPython's own binding); the type E declares for the former must be inside the type G
declares for the latter (membership oracle), and the counterexample value is passed for real and looked at where G got it.

Protocol route: P is a Protocol whose method m has signature E (declared in P, inherited from another Protocol, or
inherited from one of the non-protocol ABCs typing permits as protocol bases), C an unrelated class whose m has signature
G; TypedValue(P).can_assign(TypedValue(C)) and `def use(p: P)` / `use(C())` decide; accepted => every call shape P's m
binds must bind to C().m.

Method kinds: the override route also with @classmethod and @staticmethod methods on both sides.
"""
from __future__ import annotations

import inspect
import itertools
import re
import sys
import types

from vp import harness, ty, universe
from vp.props.c05 import py_class, sig_from_json, sig_to_json
from vp.sigs import KO, PK, PO, VA, VK, Call, Param, Sig, enumerate_sigs

ID = "C07"
LEVEL = "exploration"
RULE = (
    "case = ordered pair (expected signature E, actual signature G); quick: all pairs of the 149 signatures with <=3 "
    "parameters (all kinds/default patterns), thorough: plus a sample of pairs with 4 parameters; each accepted pair is "
    "executed on every call shape with <=3 positionals and <=3 keywords drawn from both signatures' names plus one foreign "
    "keyword (only **kwargs can take it) that binds to E; typed variant: 2-parameter signatures with annotations from a "
    "10-type vocabulary; typed-sig variant: every untyped-accepted pair of the shard plus a sample of the others, each "
    "with several annotation assignments over ALL parameters incl. *args/**kw element types and the return type (E random; "
    "G = same by name | same with one parameter widened to object | related/random), defaults are members of the declared "
    "type, judged per argument as CPython binds it (which E parameter supplies it, which G parameter receives it); "
    "override variant: the same pairs as methods of Base/Derived with incompatible_override enabled, direct and "
    "far-ancestor shapes, and for a share of them as @classmethod and @staticmethod pairs; protocol variant: P(Protocol) "
    "with method m of signature E vs. an unrelated class with m of signature G, m in {plain names, __len__, __call__, "
    "__enter__}, P declaring m itself or inheriting it from another Protocol (sampled pairs, half of them untyped-accepted), "
    "and P inheriting its member from each of the 13 non-protocol ABCs typing permits as protocol base (Sized, Iterable, "
    "Iterator, Hashable, Container, Collection, Reversible, Callable, Awaitable, AsyncIterable, AsyncIterator, "
    "AbstractContextManager, AbstractAsyncContextManager; members as typing.get_protocol_members reports them; directly or "
    "through an intermediate Protocol) x every member x all 149 signatures G x implementing class plain / with __slots__ / "
    "with __slots__ and __class_getitem__ (quick: a sample of that product, thorough: all of it), decided through the "
    "TypedValue API and, for a sample, end to end through a parameter annotated with P. Non-trivial = accepted pair with "
    "E != G and at least one call shape that E binds; distinct by (shape(E), shape(G), route) (typed-sig: plus annotations)."
)
ASSUMPTIONS = [
    "CPython binding (calling both functions, bodies are `pass`) is the oracle for call shapes",
    "vp.ty.member over the universe U is the oracle for the typed variants (typed-sig: the counterexample object is really passed and found in the receiving parameter of the actual function)",
    "typing_extensions.get_protocol_members is the reference for which methods a Protocol with an ABC base has; the ABC's own function is the expected signature",
    "only acceptance is judged (soundness); rejecting a runtime-compatible pair is incompleteness and not claimed",
]
FLOORS = {
    "quick": {"distinct_nontrivial": 4000, "pairs": 20000, "accepted_pairs": 2000, "call_shapes_executed": 7000, "typed_pairs": 2000,
              "override_pairs": 300, "override_kind_pairs": 190, "typed_sig_pairs": 5000, "typed_sig_accepted": 2000,
              "typed_sig_args_judged": 12000, "protocol_pairs": 1000, "protocol_accepted_pairs": 180, "protocol_abc_accepted": 6,
              "protocol_e2e_pairs": 90},
    "thorough": {"distinct_nontrivial": 25000, "pairs": 100000, "call_shapes_executed": 60000, "override_kind_pairs": 12000,
                 "typed_sig_pairs": 110000, "typed_sig_accepted": 16000, "typed_sig_args_judged": 100000, "protocol_pairs": 12000,
                 "protocol_accepted_pairs": 1900, "protocol_abc_accepted": 170, "protocol_e2e_pairs": 2400},
}


FOREIGN = "zz"  # a keyword that is no parameter's name: only a **kwargs parameter can take it


def call_shapes_for(names, max_pos=3, max_kw=3):
    pool = [*names, FOREIGN]
    for npos in range(0, max_pos + 1):
        for r in range(0, min(max_kw, len(pool)) + 1):
            for kws in itertools.combinations(pool, r):
                yield Call(npos, kws, None, None)


def sig_features(s: Sig) -> str:
    kinds = []
    for p in s.params:
        k = {"po": "po", "pk": "pk", "va": "*", "ko": "ko", "vk": "**"}[p.kind]
        if k not in kinds:
            kinds.append(k)
    return "+".join(kinds) or "none"


def build_module(sigs):
    lines = []
    for i, s in enumerate(sigs):
        lines.append(s.render(f"s{i}"))
    source = "\n".join(lines) + "\n"
    ns = {}
    exec(compile(source, "<c07 sigs>", "exec"), ns)
    return ns


def binds(f, c: Call) -> tuple:
    args = list(range(1, c.npos + 1))
    kwargs = {k: 20 + i for i, k in enumerate(c.kws)}
    try:
        r = f(*args, **kwargs)
    except TypeError as e:
        return False, str(e)
    except Exception:  # noqa: BLE001 - the body of a library ABC method ran (e.g. StopIteration): the call did bind
        return True, None
    if inspect.iscoroutine(r):
        r.close()
    return True, None


def err_class(err: str) -> str:
    """Mechanism class of a CPython binding error; unknown messages keep their (name/number-abstracted) text."""
    c = py_class(err)
    if c != "other":
        return c
    m = re.sub(r"^[\w.<>]+\(\) ", "", err)
    m = re.sub(r"'[^']*'", "'N'", m)
    m = re.sub(r"\d+", "#", m)
    return "other:" + m[:60]


def judge_pair(ctx, E: Sig, G: Sig, fe, fg, route: str, witness_extra=None, key_of=None) -> None:
    names = sorted(set(E.names()) | set(G.names()))
    nbound = 0
    for c in call_shapes_for(names):
        ok_e, _ = binds(fe, c)
        if not ok_e:
            continue
        nbound += 1
        ctx.count("call_shapes_executed")
        ok_g, err = binds(fg, c)
        if not ok_g:
            key = f"{route}|accepted-but-actual-raises|" + (key_of(E, G, err) if key_of else f"py:{err_class(err)}")
            what = (f"pyanalyze accepts `{G.render('g')}` where `{E.render('e')}` is expected ({route}), but the call "
                    f"{c.render('f')} binds to e and raises on g: {err}")
            w = {"route": route, "E": sig_to_json(E), "G": sig_to_json(G)}
            if witness_extra:
                w.update(witness_extra)
            ctx.violation(key, what, w)
            break
    if nbound and E != G:
        ctx.nontrivial((E.shape(), G.shape(), route))


_CHECKER = []


def shared_checker():
    """One Checker per worker process (constructing one costs ~0.12 s)."""
    if not _CHECKER:
        # the very Checker the end-to-end runs of this worker use (harness caches it per configuration)
        _CHECKER.append(harness.constructor_kwargs()["checker"])
    return _CHECKER[0]


def api_accepts(checker, fe, fg) -> bool:
    from pyanalyze.value import CallableValue, CanAssignError, KnownValue

    sig_e = checker.signature_from_value(KnownValue(fe))
    if sig_e is None:
        raise RuntimeError("no signature for expected function")
    res = CallableValue(sig_e).can_assign(KnownValue(fg), checker)
    return not isinstance(res, CanAssignError)


def run_api_pairs(ctx, sigs, pairs) -> list:
    """pairs: list of (i, j). Returns accepted pairs for the e2e sample."""
    checker = shared_checker()
    ns = build_module(sigs)
    accepted = []
    for i, j in pairs:
        E, G = sigs[i], sigs[j]
        fe, fg = ns[f"s{i}"], ns[f"s{j}"]
        ctx.count("evaluations")
        ctx.count("pairs")
        try:
            acc = api_accepts(checker, fe, fg)
        except Exception as e:  # noqa: BLE001
            ctx.violation(f"api|raises|{type(e).__name__}", f"can_assign raised {e!r} for E={E.render('e')} G={G.render('g')}",
                          {"route": "api", "E": sig_to_json(E), "G": sig_to_json(G)})
            continue
        ctx.histo("api_verdicts", "accepted" if acc else "rejected")
        if acc:
            ctx.count("accepted_pairs")
            accepted.append((i, j))
            judge_pair(ctx, E, G, fe, fg, "api")
    return accepted


def run_e2e_literal(ctx, sigs, pairs) -> None:
    """`def use(cb: Literal[e])` ... `use(g)`: no diagnostic on the call line means accepted."""
    if not pairs:
        return
    lines = ["from typing import Literal"]
    for i, s in enumerate(sigs):
        lines.append(s.render(f"s{i}"))
    used = sorted({i for i, _ in pairs})
    for i in used:
        lines.append(f"def use{i}(cb: Literal[s{i}]) -> None: pass")
    lines.append("def caller():")
    line_of = {}
    for n, (i, j) in enumerate(pairs):
        lines.append(f"    use{i}(s{j})")
        line_of[n] = len(lines)
    source = "\n".join(lines) + "\n"
    res = harness.run(source, keep_module=True)
    try:
        if res.exception is not None:
            ctx.violation("e2e|exception", f"check raised {res.exception!r}", {"route": "e2e-src", "source": source})
            return
        by_line = res.by_line()
        ns = res.module.__dict__
        for n, (i, j) in enumerate(pairs):
            ds = [d for d in by_line.get(line_of[n], []) if d.code in ("incompatible_argument", "incompatible_call")]
            ctx.count("evaluations")
            ctx.count("e2e_pairs")
            if not ds:
                ctx.count("e2e_accepted")
                judge_pair(ctx, sigs[i], sigs[j], ns[f"s{i}"], ns[f"s{j}"], "literal-param")
    finally:
        harness.forget_module(res.module)


def runtime_compatible(E: Sig, G: Sig, ignore=()) -> bool:
    """Every call shape E binds also binds to G (failures whose class is in `ignore` do not count)."""
    ns = {}
    exec(E.render("e") + "\n" + G.render("g") + "\n", ns)
    for c in call_shapes_for(sorted(set(E.names()) | set(G.names()))):
        if binds(ns["e"], c)[0]:
            ok, err = binds(ns["g"], c)
            if not ok and err_class(err) not in ignore:
                return False
    return True


def first_parameter_locus(E: Sig, G: Sig, err: str) -> str:
    """Where an accepted-but-incompatible pair goes wrong. A parameter of the actual filled twice is the mechanism every
    route shows (Signature.can_assign does not model it) and keeps its own class; otherwise 'first-parameter' if one of the signatures has no leading
    positional parameter or the two are call-compatible (up to that filled-twice mechanism) once the leading positional
    parameter of each is removed (the slot a receiver would take); else 'general'."""
    if err_class(err) == "multiple-values":
        return "py:multiple-values"
    e_has = bool(E.params) and E.params[0].kind in (PO, PK)
    g_has = bool(G.params) and G.params[0].kind in (PO, PK)
    if not e_has or not g_has or runtime_compatible(Sig(E.params[1:]), Sig(G.params[1:]), ignore=("multiple-values",)):
        return "first-parameter"
    return "general"


METHOD_KINDS = {"classmethod": ("BC", "DC", "cls"), "staticmethod": ("BS", "DS", None)}


def run_override(ctx, sigs, pairs, n_kinds: int = 0) -> None:
    """Shapes per pair (expected E, actual G):
      direct:  class B: def m(self, <E>)        class D(B): def m(self, <G>)
      far:     class N: def m(self, <G>)        class F: def m(self, <E>)        class D(N, F): def m(self, <G>)
    (in the second one the NEAREST ancestor defining m is trivially compatible, the incompatible one is farther away);
    for the first n_kinds pairs also the other method kinds:
      classmethod:   class BC: @classmethod def m(cls, <E>)    class DC(BC): @classmethod def m(cls, <G>)
      staticmethod:  class BS: @staticmethod def m(<E>)        class DS(BS): @staticmethod def m(<G>)
    D.m is accepted iff no incompatible_override is reported on it; then every call shape E binds must bind to D().m
    (resp. DC.m / DS.m)."""
    if not pairs:
        return
    lines = []
    line_of = {}
    for n, (i, j) in enumerate(pairs):
        pe, pg = sigs[i].render_params(), sigs[j].render_params()
        se, sg = (", " + pe if pe else ""), (", " + pg if pg else "")
        lines.append(f"class B{n}:")
        lines.append(f"    def m(self{se}): pass")
        lines.append(f"class D{n}(B{n}):")
        lines.append(f"    def m(self{sg}): pass")
        line_of[(n, "direct")] = (len(lines),)
        lines.append(f"class N{n}:")
        lines.append(f"    def m(self{sg}): pass")
        lines.append(f"class F{n}:")
        lines.append(f"    def m(self{se}): pass")
        lines.append(f"class X{n}(N{n}, F{n}):")
        lines.append(f"    def m(self{sg}): pass")
        line_of[(n, "far")] = (len(lines),)
        if n < n_kinds:
            for kind, (bn, dn, first) in METHOD_KINDS.items():
                lines += [f"class {bn}{n}:", f"    @{kind}", f"    def m({first + se if first else pe}): pass",
                          f"class {dn}{n}({bn}{n}):", f"    @{kind}", f"    def m({first + sg if first else pg}): pass"]
                line_of[(n, kind)] = (len(lines) - 1, len(lines))
    source = "\n".join(lines) + "\n"
    res = harness.run(source, keep_module=True, overrides={"incompatible_override": True})
    try:
        if res.exception is not None:
            ctx.violation("override|exception", f"check raised {res.exception!r}", {"route": "override-src", "source": source})
            return
        by_line = res.by_line()
        ns = res.module.__dict__
        for n, (i, j) in enumerate(pairs):
            shapes = [("direct", f"B{n}", f"D{n}"), ("far", f"F{n}", f"X{n}")]
            if n < n_kinds:
                shapes += [(kind, f"{bn}{n}", f"{dn}{n}") for kind, (bn, dn, _) in METHOD_KINDS.items()]
            for shape, base_name, derived_name in shapes:
                ds = [d for ln in line_of[(n, shape)] for d in by_line.get(ln, []) if d.code == "incompatible_override"]
                ctx.count("evaluations")
                ctx.count("override_pairs" if shape in ("direct", "far") else "override_kind_pairs")
                if ds:
                    continue
                if shape in METHOD_KINDS:
                    # looked up on the class and on an instance: both must take every call shape E takes
                    ctx.count("override_kind_accepted")
                    ctx.histo("override_kind_verdicts", f"{shape}:accepted")
                    judge_pair(ctx, sigs[i], sigs[j], getattr(ns[base_name], "m"), getattr(ns[derived_name], "m"),
                               f"override-{shape}", key_of=first_parameter_locus)
                    continue
                ctx.count("override_accepted")
                base, derived = ns[base_name](), ns[derived_name]()
                route = "override" if shape == "direct" else "override-far-ancestor"
                judge_pair(ctx, sigs[i], sigs[j], base.m, derived.m, route)
    finally:
        harness.forget_module(res.module)


# ---------------------------------------------------------------------------
# typed variant

TYPED_VOCAB = ["int", "bool", "float", "str", "object", "Optional[int]", "A", "B", "list[int]", "Literal[1]"]


def typed_pairs(ctx, n: int) -> None:
    from vp.props.c03 import _find_ty

    checker = shared_checker()
    rng = ctx.rng
    tys = {t: _find_ty(t) for t in TYPED_VOCAB}
    src = ["from vp.prelude import *"]
    cases = []
    for k in range(n):
        e1, e2, er = rng.choice(TYPED_VOCAB), rng.choice(TYPED_VOCAB), rng.choice(TYPED_VOCAB)
        if rng.random() < 0.6:
            g1 = rng.choice([e1, "object", "float", rng.choice(TYPED_VOCAB)])
            g2 = rng.choice([e2, "object", rng.choice(TYPED_VOCAB)])
            gr = rng.choice([er, "bool", "B", rng.choice(TYPED_VOCAB)])
        else:
            g1, g2, gr = rng.choice(TYPED_VOCAB), rng.choice(TYPED_VOCAB), rng.choice(TYPED_VOCAB)
        src.append(f"def e{k}(a: {e1}, b: {e2}) -> {er}: ...")
        src.append(f"def g{k}(a: {g1}, b: {g2}) -> {gr}: ...")
        cases.append((k, (e1, e2, er), (g1, g2, gr)))
    ns = {}
    exec(compile("\n".join(src) + "\n", "<c07 typed>", "exec"), ns)
    for k, (e1, e2, er), (g1, g2, gr) in cases:
        ctx.count("evaluations")
        ctx.count("typed_pairs")
        try:
            acc = api_accepts(checker, ns[f"e{k}"], ns[f"g{k}"])
        except Exception as e:  # noqa: BLE001
            ctx.violation(f"typed|raises|{type(e).__name__}", f"can_assign raised {e!r}", {"route": "typed", "e": [e1, e2, er], "g": [g1, g2, gr]})
            continue
        if not acc:
            continue
        ctx.count("typed_accepted")
        ctx.nontrivial(("typed", e1, e2, er, g1, g2, gr))
        for pos, (te, tg) in enumerate([(e1, g1), (e2, g2)]):
            bad = universe.subset_over_u(tys[te], tys[tg])  # expected param ⊆ actual param
            if bad is not None:
                ctx.violation(f"typed|param-not-contravariant|expected:{te}|actual:{tg}",
                              f"accepted g(a: {g1}, b: {g2}) -> {gr} for e(a: {e1}, b: {e2}) -> {er}, but {bad.src} is a {te} and not a {tg}",
                              {"route": "typed", "e": [e1, e2, er], "g": [g1, g2, gr]})
        bad = universe.subset_over_u(tys[gr], tys[er])  # actual return ⊆ expected return
        if bad is not None:
            ctx.violation(f"typed|return-not-covariant|expected:{er}|actual:{gr}",
                          f"accepted g(...) -> {gr} for e(...) -> {er}, but {bad.src} is a {gr} and not a {er}",
                          {"route": "typed", "e": [e1, e2, er], "g": [g1, g2, gr]})


# ---------------------------------------------------------------------------
# typed signatures over ALL parameter kinds: every argument as CPython binds it must lie inside the annotation of the
# parameter of the actual callable that receives it

TS_DEFAULT = {"int": "0", "bool": "False", "float": "0.0", "str": "''", "object": "None", "Optional[int]": "None",
              "A": "A()", "B": "B()", "list[int]": "[]", "Literal[1]": "1"}
_TS_TYS: dict = {}
_TS_SUBSET: dict = {}


def ts_ty(t: str):
    if t not in _TS_TYS:
        from vp.props.c03 import _find_ty

        _TS_TYS[t] = _find_ty(t)
    return _TS_TYS[t]


def ts_subset(x: str, y: str):
    """First member of U that is an x and not a y (None if members(x) is a subset of members(y) over U)."""
    k = (x, y)
    if k not in _TS_SUBSET:
        _TS_SUBSET[k] = None if x == y else universe.subset_over_u(ts_ty(x), ts_ty(y))
    return _TS_SUBSET[k]


class _Marker(tuple):
    """Identity-carrying stand-in for one argument of a call shape."""


def render_typed(name: str, s: Sig, ann: dict) -> str:
    dflt = {p.name: TS_DEFAULT[ann[p.name]] for p in s.params if p.default}
    return f"def {name}({s.render_params(annotations=ann, defaults=dflt)}) -> {ann['return']}: return locals()"


def param_label(p: Param) -> str:
    return {VA: "*", VK: "**"}.get(p.kind, p.kind)


def shape_markers(c: Call):
    return [_Marker(("p", i)) for i in range(c.npos)], {k: _Marker(("k", k)) for k in c.kws}


def bound_params(f, s: Sig, c: Call) -> dict:
    """Call f (body: `return locals()`) with one marker per argument of the shape; returns marker -> (parameter that
    received it, locator inside that parameter: None | index in *args | key in **kwargs). TypeError if f does not bind."""
    pos, kws = shape_markers(c)
    loc = f(*pos, **kws)
    out = {}
    for p in s.params:
        v = loc[p.name]
        if p.kind == VA:
            for n, x in enumerate(v):
                out[x] = (p, n)
        elif p.kind == VK:
            for k, x in v.items():
                out[x] = (p, k)
        elif isinstance(v, _Marker):
            out[v] = (p, None)
    return out


def fetch_bound(loc: dict, p: Param, locator):
    v = loc[p.name]
    return v if locator is None else v[locator]


def judge_typed_pair(ctx, E: Sig, G: Sig, ea: dict, ga: dict, fe, fg, route: str = "typed-sig") -> None:
    """E/G rendered by render_typed (bodies return locals()); the pair was accepted by pyanalyze."""
    w = {"route": route, "E": sig_to_json(E), "G": sig_to_json(G), "ea": ea, "ga": ga}
    names = sorted(set(E.names()) | set(G.names()))
    nbound = 0
    for c in call_shapes_for(names):
        try:
            me = bound_params(fe, E, c)
        except TypeError:
            continue
        nbound += 1
        ctx.count("typed_sig_shapes_executed")
        try:
            mg = bound_params(fg, G, c)
        except TypeError as e:
            # same mechanism (and key) as the untyped api route: the call does not even bind
            ctx.violation(f"api|accepted-but-actual-raises|py:{err_class(str(e))}",
                          f"pyanalyze accepts `{render_typed('g', G, ga)}` where `{render_typed('e', E, ea)}` is expected, but "
                          f"the call {c.render('f')} binds to e and raises on g: {e}", w)
            return
        for m, (pe, _) in me.items():
            pg, locator = mg[m]
            te, tg = ea[pe.name], ga[pg.name]
            ctx.count("typed_sig_args_judged")
            cex = ts_subset(te, tg)
            if cex is None:
                continue
            # run the offending call for real: every argument is a member of the type e declares for it
            pos, kws = shape_markers(c)
            val = {}
            for m2, (pe2, _) in me.items():
                val[m2] = cex.obj if m2 is m else universe.members_of(ts_ty(ea[pe2.name]))[0].obj
            got = fetch_bound(fg(*[val[x] for x in pos], **{k: val[x] for k, x in kws.items()}), pg, locator)
            if got is not cex.obj or ty.member(got, ts_ty(tg)) is not False:
                continue
            how = "by-keyword" if m[0] == "k" else "by-position"
            ctx.histo("typed_sig_violating_types", f"{te}->{tg}")
            ctx.violation(
                f"{route}|bound-arg-outside-annotation|expected:{param_label(pe)}|actual:{param_label(pg)}|{how}",
                f"pyanalyze accepts `{render_typed('g', G, ga)}` where `{render_typed('e', E, ea)}` is expected, but the "
                f"call {c.render('f')} with {'keyword ' + m[1] if m[0] == 'k' else 'positional #%d' % (m[1] + 1)} = {cex.src} "
                f"is well typed for e ({pe.name}: {te}) and g receives it in parameter {pg.name}: {tg}", w)
            return
    cex = ts_subset(ga["return"], ea["return"])
    if cex is not None and nbound:
        ctx.violation(f"{route}|return-not-covariant",
                      f"pyanalyze accepts `{render_typed('g', G, ga)}` where `{render_typed('e', E, ea)}` is expected, but g may "
                      f"return {cex.src}, a {ga['return']} that is not a {ea['return']}", w)
        return
    if nbound:
        ctx.nontrivial((route, E.shape(), G.shape(), tuple(sorted(ea.items())), tuple(sorted(ga.items()))))


def gen_expected_annotations(rng, E: Sig) -> dict:
    ea = {p.name: rng.choice(TYPED_VOCAB) for p in E.params}
    ea["return"] = rng.choice(TYPED_VOCAB)
    return ea


def gen_actual_annotations(rng, ea: dict, G: Sig):
    """Annotations (incl. *args/**kw element types and the return type) for the actual signature. Three modes:
    same-as-E by parameter name; same with one parameter widened to object; related/random."""
    mode = rng.choice(("same", "same", "widen-one", "related", "related"))
    ga = {}
    for p in G.params:
        if mode == "related":
            ga[p.name] = rng.choice([ea.get(p.name, "object"), "object", "float", rng.choice(TYPED_VOCAB)])
        else:
            ga[p.name] = ea.get(p.name) or rng.choice(TYPED_VOCAB)
    if mode == "widen-one" and G.params:
        ga[rng.choice(G.params).name] = "object"
    ga["return"] = ea["return"] if mode != "related" else rng.choice([ea["return"], "bool", "B", rng.choice(TYPED_VOCAB)])
    return mode, ga


def run_typed_sigs(ctx, sigs, cases) -> None:
    """cases: list of (i, j, ea, ga, mode); cases with the same (i, ea) share one expected function."""
    if not cases:
        return
    checker = shared_checker()
    src = ["from vp.prelude import *"]
    ename = {}
    for k, (i, j, ea, ga, _) in enumerate(cases):
        ek = (i, tuple(sorted(ea.items())))
        if ek not in ename:
            ename[ek] = f"e{k}"
            src.append(render_typed(f"e{k}", sigs[i], ea))
        src.append(render_typed(f"g{k}", sigs[j], ga))
    ns = {}
    exec(compile("\n".join(src) + "\n", "<c07 typed-sig>", "exec", dont_inherit=True), ns)
    for k, (i, j, ea, ga, mode) in enumerate(cases):
        E, G = sigs[i], sigs[j]
        fe, fg = ns[ename[(i, tuple(sorted(ea.items())))]], ns[f"g{k}"]
        ctx.count("evaluations")
        ctx.count("typed_sig_pairs")
        try:
            acc = api_accepts(checker, fe, fg)
        except Exception as e:  # noqa: BLE001
            ctx.violation(f"typed-sig|raises|{type(e).__name__}", f"can_assign raised {e!r}",
                          {"route": "typed-sig", "E": sig_to_json(E), "G": sig_to_json(G), "ea": ea, "ga": ga})
            continue
        ctx.histo("typed_sig_verdicts", f"{mode}:{'accepted' if acc else 'rejected'}")
        if acc:
            ctx.count("typed_sig_accepted")
            ctx.histo("typed_sig_accepted_features", f"{sig_features(E)} <- {sig_features(G)}")
            judge_typed_pair(ctx, E, G, ea, ga, fe, fg)


def typed_sig_cases(ctx, sigs, pairs, per_expected: int) -> list:
    rng = ctx.rng
    by_i: dict = {}
    for i, j in pairs:
        by_i.setdefault(i, []).append(j)
    cases = []
    for i in sorted(by_i):
        for _ in range(per_expected):
            ea = gen_expected_annotations(rng, sigs[i])
            for j in by_i[i]:
                mode, ga = gen_actual_annotations(rng, ea, sigs[j])
                cases.append((i, j, ea, ga, mode))
    return cases


# ---------------------------------------------------------------------------
# protocol methods: `def use(p: P)` / TypedValue(P).can_assign(TypedValue(C)) where P is a Protocol with method m of
# signature E and C an unrelated class with method m of signature G

# non-protocol ABCs that typing permits as bases of a Protocol class; their methods become members of the protocol
PROTO_ABCS = {
    "Sized": "collections.abc", "Iterable": "collections.abc", "Iterator": "collections.abc",
    "Hashable": "collections.abc", "Container": "collections.abc", "Collection": "collections.abc",
    "Reversible": "collections.abc", "Callable": "collections.abc", "Awaitable": "collections.abc",
    "AsyncIterable": "collections.abc", "AsyncIterator": "collections.abc",
    "AbstractContextManager": "contextlib", "AbstractAsyncContextManager": "contextlib",
}
PROTO_VARIANTS = ("direct", "inherited", "abc", "abc-inherited")
PROTO_EQUIP = ("plain", "slots", "slots+cgi")  # what else the implementing class defines
PROTO_METHOD_NAMES = ("m", "handle", "__len__", "__call__", "__enter__")
_ABC_MEMBERS: dict = {}
_PROTO_MODS: list = []


def abc_members(abc_name: str) -> dict:
    """Members typing itself reports for `class P(<abc>, Protocol)` -> Sig of that member (self dropped)."""
    if abc_name not in _ABC_MEMBERS:
        import importlib

        from typing_extensions import Protocol, get_protocol_members

        abc = getattr(importlib.import_module(PROTO_ABCS[abc_name]), abc_name)
        P = type(Protocol)("P", (abc, Protocol), {})
        out = {}
        for name in sorted(get_protocol_members(P)):
            out[name] = sig_of_callable(inspect.getattr_static(P, name), skip_first=True)
        _ABC_MEMBERS[abc_name] = out
    return _ABC_MEMBERS[abc_name]


def abc_member_list() -> list:
    return [(a, m) for a in PROTO_ABCS for m in abc_members(a)]


def sig_of_callable(fn, skip_first: bool = False) -> Sig:
    kinds = {inspect.Parameter.POSITIONAL_ONLY: PO, inspect.Parameter.POSITIONAL_OR_KEYWORD: PK,
             inspect.Parameter.VAR_POSITIONAL: VA, inspect.Parameter.KEYWORD_ONLY: KO, inspect.Parameter.VAR_KEYWORD: VK}
    ps = list(inspect.signature(fn).parameters.values())
    if skip_first:
        ps = ps[1:]
    return Sig(tuple(Param(p.name, kinds[p.kind], p.default is not p.empty) for p in ps))


def proto_case_lines(n: int, case: dict, E, G: Sig) -> list:
    """Source of one case: protocol P{n}, implementing class C{n}, `def use{n}(p: P{n})`."""
    variant, member = case["variant"], case["member"]
    pg = G.render_params()
    sg = ", " + pg if pg else ""
    lines = []
    impl_extra = []
    if variant in ("direct", "inherited"):
        pe = E.render_params()
        se = ", " + pe if pe else ""
        if variant == "direct":
            lines += [f"class P{n}(Protocol):", f"    def {member}(self{se}): ..."]
        else:
            lines += [f"class Q{n}(Protocol):", f"    def {member}(self{se}): ...",
                      f"class P{n}(Q{n}, Protocol):", "    def other(self): ..."]
            impl_extra.append("    def other(self): pass")
    else:
        abc = case["abc"]
        if variant == "abc":
            lines += [f"class P{n}({abc}, Protocol):", "    def other(self): ..."]
        else:
            lines += [f"class Q{n}({abc}, Protocol):", "    def other(self): ...",
                      f"class P{n}(Q{n}, Protocol):", "    def another(self): ..."]
            impl_extra.append("    def another(self): pass")
        impl_extra.append("    def other(self): pass")
        for name, msig in abc_members(abc).items():
            if name != member:
                pm = msig.render_params()
                impl_extra.append(f"    def {name}(self{', ' + pm if pm else ''}): pass")
    lines.append(f"class C{n}:")
    equip = case.get("equip", "plain")
    if equip != "plain":
        lines.append("    __slots__ = ()")
    if equip == "slots+cgi":
        lines.append("    __class_getitem__ = classmethod(GenericAlias)")
    lines += impl_extra
    lines.append(f"    def {member}(self{sg}): pass")
    lines.append(f"def use{n}(p: P{n}) -> None: pass")
    return lines


PROTO_HEADER = [
    "from typing_extensions import Protocol",
    "from types import GenericAlias",
    "from collections.abc import " + ", ".join(a for a, mod in PROTO_ABCS.items() if mod == "collections.abc"),
    "from contextlib import " + ", ".join(a for a, mod in PROTO_ABCS.items() if mod == "contextlib"),
]


def proto_expected_sig(case: dict, sigs) -> Sig:
    if case["variant"] in ("direct", "inherited"):
        return sigs[case["i"]] if "i" in case else sig_from_json(case["E"])
    return abc_members(case["abc"])[case["member"]]


def proto_witness(case: dict, E: Sig, G: Sig, via: str) -> dict:
    w = {k: v for k, v in case.items() if k not in ("i", "j")}
    w.update({"route": "protocol", "via": via, "E": sig_to_json(E), "G": sig_to_json(G)})
    return w


def judge_proto(ctx, ns: dict, n: int, case: dict, E: Sig, G: Sig, via: str) -> None:
    P, C = ns[f"P{n}"], ns[f"C{n}"]
    member = case["member"]
    fe = types.MethodType(inspect.getattr_static(P, member), object())
    fg = getattr(C(), member)
    # direct / inherited-from-a-Protocol share one route name; members coming from a non-protocol ABC have their own
    route = ("protocol-abc" if case["variant"].startswith("abc") else "protocol") + ("" if via == "api" else "-param")
    ctx.histo("protocol_accepted", f"{route}:{case.get('abc', '-')}:{member if member.startswith('__') else 'plain-name'}:{case.get('equip', 'plain')}")
    judge_pair(ctx, E, G, fe, fg, route, witness_extra=proto_witness(case, E, G, via))


def run_protocol_api(ctx, sigs, cases) -> list:
    """cases: dicts {variant, member, i|E (direct/inherited), abc (abc variants), j|G, equip}. Returns the accepted ones."""
    from pyanalyze.value import CanAssignError, TypedValue

    if not cases:
        return []
    checker = shared_checker()
    lines = list(PROTO_HEADER)
    EG = []
    for n, case in enumerate(cases):
        E = proto_expected_sig(case, sigs)
        G = sigs[case["j"]] if "j" in case else sig_from_json(case["G"])
        EG.append((E, G))
        lines += proto_case_lines(n, case, E, G)
    # a real (registered) module: pyanalyze resolves classes by importing their __module__
    mod = types.ModuleType(f"c07_proto_{ctx.shard}_{len(_PROTO_MODS)}")
    _PROTO_MODS.append(mod.__name__)
    sys.modules[mod.__name__] = mod
    ns = mod.__dict__
    exec(compile("\n".join(lines) + "\n", "<c07 protocols>", "exec", dont_inherit=True), ns)
    accepted = []
    try:
        _judge_protocol_api_cases(ctx, cases, EG, ns, checker, accepted)
    finally:
        sys.modules.pop(mod.__name__, None)
    return accepted


def _judge_protocol_api_cases(ctx, cases, EG, ns, checker, accepted) -> None:
    from pyanalyze.value import CanAssignError, TypedValue

    for n, case in enumerate(cases):
        E, G = EG[n]
        ctx.count("evaluations")
        ctx.count("protocol_pairs")
        try:
            res = TypedValue(ns[f"P{n}"]).can_assign(TypedValue(ns[f"C{n}"]), checker)
        except Exception as e:  # noqa: BLE001
            ctx.violation(f"protocol-{case['variant']}|raises|{type(e).__name__}", f"can_assign raised {e!r}", proto_witness(case, E, G, "api"))
            continue
        acc = not isinstance(res, CanAssignError)
        ctx.histo("protocol_verdicts", f"{case['variant']}:{'accepted' if acc else 'rejected'}")
        if acc:
            ctx.count("protocol_accepted_pairs")
            if case["variant"].startswith("abc"):
                ctx.count("protocol_abc_accepted")
            accepted.append(case)
            judge_proto(ctx, ns, n, case, E, G, "api")


def run_protocol_e2e(ctx, sigs, cases) -> None:
    """The same cases end to end: `use{n}(C{n}())`; no incompatible_argument on that line means accepted."""
    if not cases:
        return
    lines = list(PROTO_HEADER)
    EG = []
    for n, case in enumerate(cases):
        E = proto_expected_sig(case, sigs)
        G = sigs[case["j"]] if "j" in case else sig_from_json(case["G"])
        EG.append((E, G))
        lines += proto_case_lines(n, case, E, G)
    lines.append("def caller():")
    line_of = {}
    for n in range(len(cases)):
        lines.append(f"    use{n}(C{n}())")
        line_of[n] = len(lines)
    source = "\n".join(lines) + "\n"
    res = harness.run(source, keep_module=True)
    try:
        if res.exception is not None:
            ctx.violation("protocol-e2e|exception", f"check raised {res.exception!r}", {"route": "e2e-src", "source": source})
            return
        by_line = res.by_line()
        ns = res.module.__dict__
        for n, case in enumerate(cases):
            ds = [d for d in by_line.get(line_of[n], []) if d.code in ("incompatible_argument", "incompatible_call")]
            ctx.count("evaluations")
            ctx.count("protocol_e2e_pairs")
            if not ds:
                ctx.count("protocol_e2e_accepted")
                judge_proto(ctx, ns, n, case, EG[n][0], EG[n][1], "param")
    finally:
        harness.forget_module(res.module)


def protocol_cases(ctx, sigs, pairs, accepted) -> list:
    """Cases of this shard. direct/inherited: sampled (E, G) pairs (half from the untyped-accepted ones so that acceptance
    is frequent), method name cycling through plain and special names. abc variants: a share of the full product
    (permitted ABC, member) x all signatures G x equipment of the implementing class."""
    rng = ctx.rng
    cases = []
    nd = ctx.pick(32, 500)
    chosen = rng.sample(accepted, min(len(accepted), nd // 2)) + rng.sample(pairs, min(len(pairs), nd - nd // 2))
    for k, (i, j) in enumerate(chosen):
        cases.append({"variant": ("direct", "inherited")[k % 2], "member": PROTO_METHOD_NAMES[(k // 2) % len(PROTO_METHOD_NAMES)],
                      "i": i, "j": j})
    members = abc_member_list()
    dims = (len(members), len(sigs), len(PROTO_EQUIP), 2)
    total = dims[0] * dims[1] * dims[2] * dims[3]
    idxs = range(ctx.shard, total, ctx.nshards)  # == the indices with ctx.mine(idx)
    if ctx.quick:
        idxs = sorted(rng.sample(idxs, min(len(idxs), 72)))
    mine = []
    for idx in idxs:
        idx, v = divmod(idx, 2)
        idx, e = divmod(idx, dims[2])
        mi, j = divmod(idx, dims[1])
        mine.append((*members[mi], j, PROTO_EQUIP[e], ("abc", "abc-inherited")[v]))
    for a, m, j, eq, v in mine:
        cases.append({"variant": v, "abc": a, "member": m, "j": j, "equip": eq})
    return cases


def shard(ctx) -> None:
    sigs = list(enumerate_sigs(3))
    n = len(sigs)
    pairs = [(i, j) for i in range(n) for j in range(n) if ctx.mine(i * n + j)]
    accepted = run_api_pairs(ctx, sigs, pairs)
    rng = ctx.rng
    sample = rng.sample(pairs, min(len(pairs), ctx.pick(300, 1500)))
    for k in range(0, len(sample), 150):
        run_e2e_literal(ctx, sigs, sample[k : k + 150])
    osample = rng.sample(pairs, min(len(pairs), ctx.pick(120, 800)))
    for k in range(0, len(osample), 100):
        run_override(ctx, sigs, osample[k : k + 100], n_kinds=ctx.pick(10 if k == 0 else 0, 100))
    if ctx.tier == "thorough":
        big = list(enumerate_sigs(4))
        bpairs = [(rng.randrange(len(big)), rng.randrange(len(big))) for _ in range(6000)]
        run_api_pairs(ctx, big, bpairs)
    typed_pairs(ctx, ctx.pick(400, 4000))
    # typed signatures over all parameter kinds: every untyped-accepted pair of this shard (typed acceptance can only be
    # narrower) plus a sample of the others, each with several annotation assignments
    acc_set = set(accepted)
    others = [pr for pr in pairs if pr not in acc_set]
    tcases = typed_sig_cases(ctx, sigs, accepted + rng.sample(others, min(len(others), ctx.pick(20, 400))), ctx.pick(3, 24))
    for k in range(0, len(tcases), 400):
        run_typed_sigs(ctx, sigs, tcases[k : k + 400])
    pcases = protocol_cases(ctx, sigs, pairs, accepted)
    pacc = []
    for k in range(0, len(pcases), 300):
        pacc += run_protocol_api(ctx, sigs, pcases[k : k + 300])
    # end-to-end (parameter annotated with the protocol) for a sample: accepted ones first, they are the informative ones
    rest = [c for c in pcases if c not in pacc]
    esample = rng.sample(pacc, min(len(pacc), ctx.pick(8, 150))) + rng.sample(rest, min(len(rest), ctx.pick(4, 150)))
    for k in range(0, len(esample), 100):
        run_protocol_e2e(ctx, sigs, esample[k : k + 100])
    if len(ctx.samples) < 2 and accepted:
        i, j = accepted[len(accepted) // 2]
        ctx.sample({"expected": sigs[i].render("e"), "actual": sigs[j].render("g"), "accepted": True})


def replay(witness):
    from vp.core import Ctx

    ctx = Ctx(ID, "quick", 0, 0, 1)
    route = witness["route"]
    if route == "typed":
        from pyanalyze.checker import Checker
        from vp.props.c03 import _find_ty

        (e1, e2, er), (g1, g2, gr) = witness["e"], witness["g"]
        ns = {}
        exec(compile(f"from vp.prelude import *\ndef e0(a: {e1}, b: {e2}) -> {er}: ...\ndef g0(a: {g1}, b: {g2}) -> {gr}: ...\n", "<r>", "exec"), ns)
        if api_accepts(Checker(), ns["e0"], ns["g0"]):
            tys = {t: _find_ty(t) for t in TYPED_VOCAB}
            for te, tg in [(e1, g1), (e2, g2)]:
                if universe.subset_over_u(tys[te], tys[tg]) is not None:
                    return f"typed|param-not-contravariant|expected:{te}|actual:{tg}", "still accepted"
            if universe.subset_over_u(tys[gr], tys[er]) is not None:
                return f"typed|return-not-covariant|expected:{er}|actual:{gr}", "still accepted"
        return None
    if route == "protocol":
        case = {k: v for k, v in witness.items() if k not in ("route", "via")}
        if witness["via"] == "api":
            run_protocol_api(ctx, [], [case])
        else:
            run_protocol_e2e(ctx, [], [case])
        for key, lst in ctx.violations.items():
            return key, lst[0]["what"]
        return None
    E, G = sig_from_json(witness["E"]), sig_from_json(witness["G"])
    sigs = [E, G]
    if route == "typed-sig":
        run_typed_sigs(ctx, sigs, [(0, 1, witness["ea"], witness["ga"], "replay")])
        for key, lst in ctx.violations.items():
            return key, lst[0]["what"]
        return None
    if route == "api":
        run_api_pairs(ctx, sigs, [(0, 1)])
    elif route == "literal-param":
        run_e2e_literal(ctx, sigs, [(0, 1)])
    elif route in ("override", "override-far-ancestor"):
        run_override(ctx, sigs, [(0, 1)])
    elif route in ("override-classmethod", "override-staticmethod"):
        run_override(ctx, sigs, [(0, 1)], n_kinds=1)
    for key, lst in ctx.violations.items():
        if key.startswith(route + "|"):
            return key, lst[0]["what"]
    return None
