"""C07 — callable compatibility is behaviourally sound.

Monitor: for ordered pairs (expected E, actual G) of def signatures, the real pyanalyze decides whether G is acceptable
where E's signature is expected (CallableValue(sig(E)).can_assign(KnownValue(G)), the `cb: Literal[E]` parameter route
end-to-end, and the method-override route). Whenever it accepts, every concrete call shape that binds to E is executed
against G under CPython; a TypeError there refutes the property. Typed variant: accepted pairs are judged for parameter
contravariance / return covariance with the membership oracle over the universe U.
"""
from __future__ import annotations

import itertools

from vp import harness, ty, universe
from vp.props.c05 import py_class, sig_from_json, sig_to_json
from vp.sigs import KO, PK, PO, VA, VK, Call, Sig, enumerate_sigs

ID = "C07"
LEVEL = "exploration"
RULE = (
    "case = ordered pair (expected signature E, actual signature G); quick: all pairs of the 149 signatures with <=3 "
    "parameters (all kinds/default patterns), thorough: plus a sample of pairs with 4 parameters; each accepted pair is "
    "executed on every call shape with <=3 positionals and <=3 keywords drawn from both signatures' names that binds "
    "to E; typed variant: 2-parameter signatures with annotations from an 8-type vocabulary; override variant: the same "
    "pairs as methods of Base/Derived with incompatible_override enabled. Non-trivial = accepted pair with E != G and "
    "at least one call shape that E binds; distinct by (shape(E), shape(G), route)."
)
ASSUMPTIONS = [
    "CPython binding (calling both functions, bodies are `pass`) is the oracle for call shapes",
    "vp.ty.member over the universe U is the oracle for the typed variant",
    "only acceptance is judged (soundness); rejecting a runtime-compatible pair is incompleteness and not claimed",
]
FLOORS = {
    "quick": {"distinct_nontrivial": 2000, "pairs": 20000, "accepted_pairs": 2000, "call_shapes_executed": 5000, "typed_pairs": 2000, "override_pairs": 300},
    "thorough": {"distinct_nontrivial": 8000, "pairs": 100000, "call_shapes_executed": 20000},
}


def call_shapes_for(names, max_pos=3, max_kw=3):
    pool = list(names)
    for npos in range(0, max_pos + 1):
        for r in range(0, min(max_kw, len(pool)) + 1):
            for kws in itertools.combinations(pool, r):
                yield Call(npos, kws, None, None)


def sig_features(s: Sig) -> str:
    kinds = []
    for p in s.params:
        k = {"po": "po", "pk": "pk", "va": "*", "ko": "ko", "vk": "**"}[p.kind]
        if k not in kinds:
            kinds.append(k)
    return "+".join(kinds) or "none"


def build_module(sigs):
    lines = []
    for i, s in enumerate(sigs):
        lines.append(s.render(f"s{i}"))
    source = "\n".join(lines) + "\n"
    ns = {}
    exec(compile(source, "<c07 sigs>", "exec"), ns)
    return ns


def binds(f, c: Call) -> tuple:
    args = list(range(1, c.npos + 1))
    kwargs = {k: 20 + i for i, k in enumerate(c.kws)}
    try:
        f(*args, **kwargs)
        return True, None
    except TypeError as e:
        return False, str(e)


def judge_pair(ctx, E: Sig, G: Sig, fe, fg, route: str, witness_extra=None) -> None:
    names = sorted(set(E.names()) | set(G.names()))
    nbound = 0
    for c in call_shapes_for(names):
        ok_e, _ = binds(fe, c)
        if not ok_e:
            continue
        nbound += 1
        ctx.count("call_shapes_executed")
        ok_g, err = binds(fg, c)
        if not ok_g:
            key = f"{route}|accepted-but-actual-raises|py:{py_class(err)}"
            what = (f"pyanalyze accepts `{G.render('g')}` where `{E.render('e')}` is expected ({route}), but the call "
                    f"{c.render('f')} binds to e and raises on g: {err}")
            w = {"route": route, "E": sig_to_json(E), "G": sig_to_json(G)}
            if witness_extra:
                w.update(witness_extra)
            ctx.violation(key, what, w)
            break
    if nbound and E != G:
        ctx.nontrivial((E.shape(), G.shape(), route))


def api_accepts(checker, fe, fg) -> bool:
    from pyanalyze.value import CallableValue, CanAssignError, KnownValue

    sig_e = checker.signature_from_value(KnownValue(fe))
    if sig_e is None:
        raise RuntimeError("no signature for expected function")
    res = CallableValue(sig_e).can_assign(KnownValue(fg), checker)
    return not isinstance(res, CanAssignError)


def run_api_pairs(ctx, sigs, pairs) -> list:
    """pairs: list of (i, j). Returns accepted pairs for the e2e sample."""
    from pyanalyze.checker import Checker

    checker = Checker()
    ns = build_module(sigs)
    accepted = []
    for i, j in pairs:
        E, G = sigs[i], sigs[j]
        fe, fg = ns[f"s{i}"], ns[f"s{j}"]
        ctx.count("evaluations")
        ctx.count("pairs")
        try:
            acc = api_accepts(checker, fe, fg)
        except Exception as e:  # noqa: BLE001
            ctx.violation(f"api|raises|{type(e).__name__}", f"can_assign raised {e!r} for E={E.render('e')} G={G.render('g')}",
                          {"route": "api", "E": sig_to_json(E), "G": sig_to_json(G)})
            continue
        ctx.histo("api_verdicts", "accepted" if acc else "rejected")
        if acc:
            ctx.count("accepted_pairs")
            accepted.append((i, j))
            judge_pair(ctx, E, G, fe, fg, "api")
    return accepted


def run_e2e_literal(ctx, sigs, pairs) -> None:
    """`def use(cb: Literal[e])` ... `use(g)`: no diagnostic on the call line means accepted."""
    if not pairs:
        return
    lines = ["from typing import Literal"]
    for i, s in enumerate(sigs):
        lines.append(s.render(f"s{i}"))
    used = sorted({i for i, _ in pairs})
    for i in used:
        lines.append(f"def use{i}(cb: Literal[s{i}]) -> None: pass")
    lines.append("def caller():")
    line_of = {}
    for n, (i, j) in enumerate(pairs):
        lines.append(f"    use{i}(s{j})")
        line_of[n] = len(lines)
    source = "\n".join(lines) + "\n"
    res = harness.run(source, keep_module=True)
    try:
        if res.exception is not None:
            ctx.violation("e2e|exception", f"check raised {res.exception!r}", {"route": "e2e-src", "source": source})
            return
        by_line = res.by_line()
        ns = res.module.__dict__
        for n, (i, j) in enumerate(pairs):
            ds = [d for d in by_line.get(line_of[n], []) if d.code in ("incompatible_argument", "incompatible_call")]
            ctx.count("evaluations")
            ctx.count("e2e_pairs")
            if not ds:
                ctx.count("e2e_accepted")
                judge_pair(ctx, sigs[i], sigs[j], ns[f"s{i}"], ns[f"s{j}"], "literal-param")
    finally:
        harness.forget_module(res.module)


def run_override(ctx, sigs, pairs) -> None:
    """Two shapes per pair (expected E, actual G):
      direct:  class B: def m(self, <E>)        class D(B): def m(self, <G>)
      far:     class N: def m(self, <G>)        class F: def m(self, <E>)        class D(N, F): def m(self, <G>)
    (in the second one the NEAREST ancestor defining m is trivially compatible, the incompatible one is farther away).
    D.m is accepted iff no incompatible_override is reported on it; then every call shape E binds must bind to D().m."""
    if not pairs:
        return
    lines = []
    line_of = {}
    for n, (i, j) in enumerate(pairs):
        pe, pg = sigs[i].render_params(), sigs[j].render_params()
        se, sg = (", " + pe if pe else ""), (", " + pg if pg else "")
        lines.append(f"class B{n}:")
        lines.append(f"    def m(self{se}): pass")
        lines.append(f"class D{n}(B{n}):")
        lines.append(f"    def m(self{sg}): pass")
        line_of[(n, "direct")] = len(lines)
        lines.append(f"class N{n}:")
        lines.append(f"    def m(self{sg}): pass")
        lines.append(f"class F{n}:")
        lines.append(f"    def m(self{se}): pass")
        lines.append(f"class X{n}(N{n}, F{n}):")
        lines.append(f"    def m(self{sg}): pass")
        line_of[(n, "far")] = len(lines)
    source = "\n".join(lines) + "\n"
    res = harness.run(source, keep_module=True, overrides={"incompatible_override": True})
    try:
        if res.exception is not None:
            ctx.violation("override|exception", f"check raised {res.exception!r}", {"route": "override-src", "source": source})
            return
        by_line = res.by_line()
        ns = res.module.__dict__
        for n, (i, j) in enumerate(pairs):
            for shape, base_name, derived_name in (("direct", f"B{n}", f"D{n}"), ("far", f"F{n}", f"X{n}")):
                ds = [d for d in by_line.get(line_of[(n, shape)], []) if d.code == "incompatible_override"]
                ctx.count("evaluations")
                ctx.count("override_pairs")
                if ds:
                    continue
                ctx.count("override_accepted")
                base, derived = ns[base_name](), ns[derived_name]()
                route = "override" if shape == "direct" else "override-far-ancestor"
                judge_pair(ctx, sigs[i], sigs[j], base.m, derived.m, route)
    finally:
        harness.forget_module(res.module)


# ---------------------------------------------------------------------------
# typed variant

TYPED_VOCAB = ["int", "bool", "float", "str", "object", "Optional[int]", "A", "B", "list[int]", "Literal[1]"]


def typed_pairs(ctx, n: int) -> None:
    from pyanalyze.checker import Checker
    from vp.props.c03 import _find_ty

    checker = Checker()
    rng = ctx.rng
    tys = {t: _find_ty(t) for t in TYPED_VOCAB}
    src = ["from vp.prelude import *"]
    cases = []
    for k in range(n):
        e1, e2, er = rng.choice(TYPED_VOCAB), rng.choice(TYPED_VOCAB), rng.choice(TYPED_VOCAB)
        if rng.random() < 0.6:
            g1 = rng.choice([e1, "object", "float", rng.choice(TYPED_VOCAB)])
            g2 = rng.choice([e2, "object", rng.choice(TYPED_VOCAB)])
            gr = rng.choice([er, "bool", "B", rng.choice(TYPED_VOCAB)])
        else:
            g1, g2, gr = rng.choice(TYPED_VOCAB), rng.choice(TYPED_VOCAB), rng.choice(TYPED_VOCAB)
        src.append(f"def e{k}(a: {e1}, b: {e2}) -> {er}: ...")
        src.append(f"def g{k}(a: {g1}, b: {g2}) -> {gr}: ...")
        cases.append((k, (e1, e2, er), (g1, g2, gr)))
    ns = {}
    exec(compile("\n".join(src) + "\n", "<c07 typed>", "exec"), ns)
    for k, (e1, e2, er), (g1, g2, gr) in cases:
        ctx.count("evaluations")
        ctx.count("typed_pairs")
        try:
            acc = api_accepts(checker, ns[f"e{k}"], ns[f"g{k}"])
        except Exception as e:  # noqa: BLE001
            ctx.violation(f"typed|raises|{type(e).__name__}", f"can_assign raised {e!r}", {"route": "typed", "e": [e1, e2, er], "g": [g1, g2, gr]})
            continue
        if not acc:
            continue
        ctx.count("typed_accepted")
        ctx.nontrivial(("typed", e1, e2, er, g1, g2, gr))
        for pos, (te, tg) in enumerate([(e1, g1), (e2, g2)]):
            bad = universe.subset_over_u(tys[te], tys[tg])  # expected param ⊆ actual param
            if bad is not None:
                ctx.violation(f"typed|param-not-contravariant|expected:{te}|actual:{tg}",
                              f"accepted g(a: {g1}, b: {g2}) -> {gr} for e(a: {e1}, b: {e2}) -> {er}, but {bad.src} is a {te} and not a {tg}",
                              {"route": "typed", "e": [e1, e2, er], "g": [g1, g2, gr]})
        bad = universe.subset_over_u(tys[gr], tys[er])  # actual return ⊆ expected return
        if bad is not None:
            ctx.violation(f"typed|return-not-covariant|expected:{er}|actual:{gr}",
                          f"accepted g(...) -> {gr} for e(...) -> {er}, but {bad.src} is a {gr} and not a {er}",
                          {"route": "typed", "e": [e1, e2, er], "g": [g1, g2, gr]})


def shard(ctx) -> None:
    sigs = list(enumerate_sigs(3))
    n = len(sigs)
    pairs = [(i, j) for i in range(n) for j in range(n) if ctx.mine(i * n + j)]
    accepted = run_api_pairs(ctx, sigs, pairs)
    rng = ctx.rng
    sample = rng.sample(pairs, min(len(pairs), ctx.pick(300, 1500)))
    for k in range(0, len(sample), 150):
        run_e2e_literal(ctx, sigs, sample[k : k + 150])
    osample = rng.sample(pairs, min(len(pairs), ctx.pick(120, 800)))
    for k in range(0, len(osample), 100):
        run_override(ctx, sigs, osample[k : k + 100])
    if ctx.tier == "thorough":
        big = list(enumerate_sigs(4))
        bpairs = [(rng.randrange(len(big)), rng.randrange(len(big))) for _ in range(6000)]
        run_api_pairs(ctx, big, bpairs)
    typed_pairs(ctx, ctx.pick(400, 4000))
    if len(ctx.samples) < 2 and accepted:
        i, j = accepted[len(accepted) // 2]
        ctx.sample({"expected": sigs[i].render("e"), "actual": sigs[j].render("g"), "accepted": True})


def replay(witness):
    from vp.core import Ctx

    ctx = Ctx(ID, "quick", 0, 0, 1)
    route = witness["route"]
    if route == "typed":
        from pyanalyze.checker import Checker
        from vp.props.c03 import _find_ty

        (e1, e2, er), (g1, g2, gr) = witness["e"], witness["g"]
        ns = {}
        exec(compile(f"from vp.prelude import *\ndef e0(a: {e1}, b: {e2}) -> {er}: ...\ndef g0(a: {g1}, b: {g2}) -> {gr}: ...\n", "<r>", "exec"), ns)
        if api_accepts(Checker(), ns["e0"], ns["g0"]):
            tys = {t: _find_ty(t) for t in TYPED_VOCAB}
            for te, tg in [(e1, g1), (e2, g2)]:
                if universe.subset_over_u(tys[te], tys[tg]) is not None:
                    return f"typed|param-not-contravariant|expected:{te}|actual:{tg}", "still accepted"
            if universe.subset_over_u(tys[gr], tys[er]) is not None:
                return f"typed|return-not-covariant|expected:{er}|actual:{gr}", "still accepted"
        return None
    E, G = sig_from_json(witness["E"]), sig_from_json(witness["G"])
    sigs = [E, G]
    if route == "api":
        run_api_pairs(ctx, sigs, [(0, 1)])
    elif route == "literal-param":
        run_e2e_literal(ctx, sigs, [(0, 1)])
    elif route in ("override", "override-far-ancestor"):
        run_override(ctx, sigs, [(0, 1)])
    for key, lst in ctx.violations.items():
        if key.startswith(route + "|"):
            return key, lst[0]["what"]
    return None
