"""C09 — name binding: reaching definitions and (possibly) undefined names.

Monitor: every statement skeleton is (a) checked by the real pyanalyze with each `use(v)` spelled
`reveal_type(v)`, (b) executed by CPython under EVERY decision vector of its opaque choices (strict space:
conditions, capped loop continuations, raise-or-return at protected calls; liberal space: additionally a
failpoint before every statement of a protected region and after its last one, `while True` as `while c()`).
Each assignment stores a distinct int literal, so an observed value identifies the assignment that reached.

    strict-observed(use)  must be contained in  reported(use)  must be contained in  strict+liberal-observed(use)

The executions decide; an independent CFG reaching-definitions analysis only cross-checks the harness.
"""
from __future__ import annotations

import re

from vp import harness
from vp import c09_skeletons as sk
from vp.c09_skeletons import UNB

ID = "C09"
LEVEL = "fault_enumeration"
TECHNIQUE = "exhaustive decision-vector / failpoint schedule enumeration of generated skeletons against reveal_type"
RULE = (
    "case = statement skeleton over one variable (v = <distinct literal>, use(v), if/else, while c()/while True "
    "with bound break/for with else, break, continue, try/except E/else/finally, with (suppressing / not), return, "
    "raise, boom(), nested def reading / nonlocal-writing v, global v); quick: EVERY junk-free skeleton with <=5 "
    "statements (global mode <=4) and nesting <=3; thorough: the same plus random skeletons with 6-7 statements. "
    "Junk-free = nothing after a statement that cannot complete, no trailing return/continue, no repeated use, "
    "no dead store outside fault-protected regions, boom() only where something can intercept it; each tree is "
    "generated once (dedupe by shape). Each skeleton is run under all decision vectors (DFS over the prefix tree, "
    "<=18 decisions/run, <=2^14 runs, loops capped per entry at L=2 and again at L=3). Non-trivial = some use site "
    "observes >=2 different outcomes (two assignments along different paths, or an assignment and UNBOUND); "
    "distinct by skeleton shape."
)
LEVEL_TEXT = (
    "fault enumeration: all schedules of opaque decisions and injected faults of each skeleton are executed inside the "
    "stated caps; lower-bound verdicts are real CPython executions, upper-bound verdicts are issued only when the "
    "enumeration completed and the observed sets are identical for loop caps 2 and 3"
)
ASSUMPTIONS = [
    "CPython 3.12 in /venv is the reference executor; an observed (use site, literal) is a real reaching definition",
    "strict space: exception edges only at calls (c(), it(), boom(), use(), cm(), g()) that something can intercept "
    "(try body with handler; try body/handler/else of a try with finally; suppressing with); `while True` as written",
    "liberal space: additionally a raise before every statement of such a region and after its last statement; "
    "every loop may exit after any iteration; exceptions are E (caught by `except E`) or one not caught by it",
    "a run ends at the first UNBOUND read (what follows is an exception edge at a non-call)",
    "upper bound only when all four explorations (strict/liberal x L=2/3) completed and L=2,3 agree; else undecided",
    "reported(use) = int literals in every reveal_type diagnostic on the use's line (finally bodies are revealed "
    "twice: union) + UNBOUND iff undefined_name/possibly_undefined_name is reported there; a revealed Any that is "
    "not the stand-in for the reported unbound state makes the literal lower bound undecidable (counted)",
    "global mode: the module defines v = 0, so reads observe 0 instead of UNBOUND",
    "the CFG reaching-definitions analysis (strict and liberal edge sets) never decides: disagreement with the "
    "executed sets is counted as harness-inconsistent",
]
FLOORS = {
    "quick": {"distinct_nontrivial": 12000, "skeletons": 25000, "schedules_run": 2000000, "uses_observed": 100000,
              "upper_decided": 20000, "lower_checks": 50000},
    "thorough": {"distinct_nontrivial": 20000, "skeletons": 40000, "schedules_run": 5000000, "uses_observed": 200000,
                 "upper_decided": 30000, "lower_checks": 100000},
}
NSHARDS = 16
WATCHDOG_S = {"quick": 900, "thorough": 7200}
BATCH = 120
MAX_DEC = 18
MAX_RUNS = 1 << 14
SHRINK_BUDGET = 200
SHRINK_PER_KEY = 2

_LIT_RE = re.compile(r"Literal\[(-?\d+(?:, -?\d+)*)\]$")


# ---------------------------------------------------------------------------
# pyanalyze side


class Report:
    __slots__ = ("lits", "any", "other", "undef", "possibly", "revealed")

    def __init__(self):
        self.lits = set()
        self.any = False
        self.other = False
        self.undef = False
        self.possibly = False
        self.revealed = []

    @property
    def unbound(self):
        return self.undef or self.possibly

    def show(self) -> str:
        flags = [n for n, f in (("undefined_name", self.undef), ("possibly_undefined_name", self.possibly)) if f]
        return f"{' / '.join(self.revealed) or '<nothing revealed>'}{' + ' + '+'.join(flags) if flags else ''}"


def parse_revealed(text: str, rep: Report) -> None:
    parts = [p.strip() for p in text.split(" | ")]
    for p in parts:
        m = _LIT_RE.match(p)
        if m:
            rep.lits.update(int(x) for x in m.group(1).split(", "))
        elif p == "Any[error]":
            rep.any = True  # resolved against the undefined reports in finish()
        elif p.startswith("Any"):
            rep.other = True
        elif p == "Never":
            pass
        else:
            rep.other = True


def pa_reports(skels):
    """skels: list of (mode, body), all of one mode. -> (list of {site: Report}, other-code histogram, exception)."""
    mode = skels[0][0]
    pre = sk.PRELUDE_PLAIN if mode == "global" else sk.PRELUDE_PLAIN.replace("\nv = 0\n", "\n")
    lines = pre.split("\n")
    where = {}  # absolute 1-based line -> (skeleton index, site)
    span = []
    for i, (m, body) in enumerate(skels):
        fl, site_line = sk.render_plain(m, body, name=f"f{i}")
        base = len(lines)
        for rel, site in site_line.items():
            where[base + rel + 1] = (i, site)
        span.append((base + 1, base + len(fl)))
        lines += fl
    source = "\n".join(lines) + "\n"
    res = harness.run(source)
    reports = [dict() for _ in skels]
    for i, (m, body) in enumerate(skels):
        for site in sk.number(body)[1].values():
            reports[i][site] = Report()
    other = {}
    for d in res.diags:
        hit = where.get(d.lineno)
        if d.code == "reveal_type" and hit:
            mm = re.match(r"Revealed type is '?(.*?)'?$", d.description, re.S)
            text = mm.group(1) if mm else d.description
            rep = reports[hit[0]][hit[1]]
            rep.revealed.append(text)
            parse_revealed(text, rep)
        elif d.code == "undefined_name" and hit:
            reports[hit[0]][hit[1]].undef = True
        elif d.code == "possibly_undefined_name" and hit:
            reports[hit[0]][hit[1]].possibly = True
        else:
            other[d.code] = other.get(d.code, 0) + 1
    for r in reports:
        for rep in r.values():
            # Any[error] is what resolve_name substitutes for the reported unbound state
            if rep.any and rep.unbound:
                rep.any = False
            if rep.any:
                rep.other = True
    return reports, other, res.exception


# ---------------------------------------------------------------------------
# execution side


class Runs:
    __slots__ = ("strict", "upper", "decided", "why_undecided", "nruns", "use_events", "inconsistent", "errors",
                 "reached")


def execute(mode, body) -> Runs:
    ns = sk.compile_instr(mode, body)
    out = Runs()
    obs = {}
    complete = True
    out.nruns = 0
    out.use_events = 0
    out.errors = []
    for L in (2, 3):
        for liberal in (False, True):
            o, runs, comp, ue, errs = sk.explore(ns, L, liberal, MAX_DEC, MAX_RUNS)
            obs[(L, liberal)] = o
            complete = complete and comp
            out.nruns += runs
            out.use_events += ue
            out.errors += errs
    out.strict = obs[(2, False)] | obs[(3, False)]
    up2 = obs[(2, False)] | obs[(2, True)]
    up3 = obs[(3, False)] | obs[(3, True)]
    out.upper = up2 | up3
    out.why_undecided = None
    if not complete:
        out.why_undecided = "truncated"
    elif up2 != up3:
        out.why_undecided = "not-saturated"
    out.decided = out.why_undecided is None
    out.reached = {s for s, _ in out.upper}
    # harness cross-check against the independent CFG analysis
    inc = []
    if out.errors:
        inc.append("exec-error:" + out.errors[0])
    cs = sk.cfg_reaching(mode, body, False)
    cl = sk.cfg_reaching(mode, body, True)
    if not out.strict <= cs:
        inc.append(f"strict-executed-not-in-cfg:{sorted(out.strict - cs, key=repr)}")
    if not obs[(3, False)] <= obs[(3, True)] or not obs[(2, False)] <= obs[(2, True)]:
        inc.append("strict-not-subset-of-liberal")
    if not cs <= cl:
        inc.append("cfg-strict-not-in-cfg-liberal")
    if not out.upper <= cl:
        inc.append(f"liberal-executed-not-in-cfg:{sorted(out.upper - cl, key=repr)}")
    if out.decided:
        if out.strict != cs:
            inc.append(f"cfg-strict-not-executed:{sorted(cs - out.strict, key=repr)}")
        if out.upper != cl:
            inc.append(f"cfg-liberal-not-executed:{sorted(cl - out.upper, key=repr)}")
    out.inconsistent = inc
    return out


# ---------------------------------------------------------------------------
# mechanism key (DESIGN Appendix A): side, (construct of the assignment, construct of the use), unbound|literal


def _loop_of(path) -> str:
    for r, _ in reversed(path):
        if r in ("while-body", "for-body", "wtrue-body"):
            return r
    return "none"


def relation(pa, pu) -> str:
    """How the assignment at path pa sits relative to the use at path pu: the pair of constructs that first
    separates them (the blocks of their lowest common ancestor), not the innermost ones."""
    i = 0
    while i < len(pa) and i < len(pu) and pa[i] == pu[i]:
        i += 1
    if pa[i][0] == pu[i][0]:  # same block, different statements
        a = pa[i + 1][0] if len(pa) > i + 1 else "plain"
        u = pu[i + 1][0] if len(pu) > i + 1 else "plain"
        if pa[i][1] < pu[i][1]:
            return f"{a}>{u}"
        return f"{a}>{u}@back:{_loop_of(pa[: i + 1])}"
    return f"{pa[i][0]}>{pu[i][0]}"  # different blocks of one compound statement


def mech_key(mode, body, side, site, lit) -> str:
    lits, sites = sk.number(body)
    pu = next(p for p, s in sites.items() if s == site)
    kind = "unbound" if lit is None else "literal"
    stmt_at = dict(sk.walk(body))
    if mode == "global":
        return f"{side}|{kind}|global-variable"
    if stmt_at[pu][0] == "gdef":
        return f"{side}|{kind}|nested-def-read"
    if lit is not None:
        if lit == 0:
            return f"{side}|{kind}|module-value"
        pa = next(p for p, k in lits.items() if k == lit)
        if stmt_at[pa][0] == "hdef":
            return f"{side}|{kind}|nonlocal-write"
        return f"{side}|{kind}|{relation(pa, pu)}"
    rels = set()
    for pa in lits:
        rels.add("nonlocal-write" if stmt_at[pa][0] == "hdef" else relation(pa, pu))
    return f"{side}|{kind}|{'+'.join(sorted(rels))}"


# ---------------------------------------------------------------------------
# verdicts


def judge(mode, body, reports, runs: Runs, ctx=None):
    """-> list of (key, what) for one skeleton."""
    out = []
    seen = set()
    text = None

    def add(side, site, lit, msg):
        nonlocal text
        key = mech_key(mode, body, side, site, lit)
        if key in seen:
            return
        seen.add(key)
        if text is None:
            text = sk.source_text(mode, body)
        out.append((key, f"{msg}\n{text}"))

    # lower bound: every strict-space observation is a real execution
    for site, x in sorted(runs.strict, key=repr):
        rep = reports[site]
        if not rep.revealed:
            if ctx:
                ctx.count("use_without_reveal")
            continue
        if ctx:
            ctx.count("lower_checks")
        if x == UNB:
            if not rep.unbound:
                add("lower", site, None,
                    f"use #{site} executes with v UNBOUND under a strict schedule; pyanalyze: {rep.show()}")
        elif x not in rep.lits:
            if rep.other:
                if ctx:
                    ctx.count("lower_undecidable_any")
                continue
            add("lower", site, x,
                f"use #{site} reads {x} under a strict schedule; pyanalyze: {rep.show()}")
    # upper bound: only when the whole liberal space was executed and saturated
    if runs.decided:
        for site, rep in sorted(reports.items()):
            if site not in runs.reached or not rep.revealed:
                if ctx:
                    ctx.count("upper_site_unreached")
                continue
            if ctx:
                ctx.count("upper_checks")
            for k in sorted(rep.lits):
                if (site, k) not in runs.upper:
                    add("upper", site, k,
                        f"pyanalyze: {rep.show()} at use #{site}, but no strict or liberal schedule reads {k} there")
            if rep.unbound and (site, UNB) not in runs.upper:
                add("upper", site, None,
                    f"pyanalyze: {rep.show()} at use #{site}, but v is bound there under every strict and liberal schedule")
    return out


def features(body):
    return sorted({s[0] if s[0] != "with" else "with" + s[1] for _, s in sk.walk(body)} - {"asg", "use"})


def evaluate_batch(ctx, skels, record=True):
    """-> list (per skeleton) of violation lists."""
    reports, other, exc = pa_reports(skels)
    results = []
    if exc is not None:
        ctx.violation("harness|exception", f"check raised {exc!r}",
                      {"mode": skels[0][0], "skeleton": skels[0][1], "batch": [s[1] for s in skels]})
        return [[] for _ in skels]
    if record:
        for code, n in other.items():
            ctx.histo("other_codes", code, n)
    for (mode, body), rep in zip(skels, reports):
        runs = execute(mode, body)
        vs = judge(mode, body, rep, runs, ctx if record else None)
        if runs.inconsistent:
            vs = []  # the harness disagrees with itself on this skeleton: no verdict
        results.append(vs)
        if not record:
            continue
        ctx.count("evaluations")
        ctx.count("skeletons")
        ctx.count("schedules_run", runs.nruns)
        ctx.count("use_events", runs.use_events)
        ctx.count("uses_observed", len(runs.upper))
        ctx.count("upper_decided" if runs.decided else "upper_undecided")
        if not runs.decided:
            ctx.histo("upper_undecided_why", runs.why_undecided)
        if runs.inconsistent:
            ctx.count("harness_inconsistent")
            ctx.note(f"harness-inconsistent: {runs.inconsistent[0][:160]} :: {sk.source_text(mode, body)!r}"[:600])
        ctx.histo("size", f"{mode}:{sk.size(body)}")
        for f in features(body):
            ctx.histo("constructs", f)
        per_site = {}
        for s, x in runs.upper:
            per_site.setdefault(s, set()).add(x)
        if any(len(v) >= 2 for v in per_site.values()):
            ctx.nontrivial((mode, body))
        ctx.histo("max_outcomes_per_use", str(max((len(v) for v in per_site.values()), default=0)))
        for r in rep.values():
            ctx.histo("reported", ("unbound+" if r.unbound else "") + (f"{len(r.lits)}lit" if not r.other else "any"))
        if len(ctx.samples) < 3 and sk.size(body) >= 4 and any(len(v) >= 2 for v in per_site.values()):
            ctx.sample({"source": sk.source_text(mode, body),
                        "strict": sorted(runs.strict, key=repr), "strict+liberal": sorted(runs.upper, key=repr),
                        "pyanalyze": {str(s): r.show() for s, r in rep.items()}, "schedules": runs.nruns})
    return results


# ---------------------------------------------------------------------------
# witness minimisation


def _deletions(body):
    """Candidate smaller bodies, biggest cuts first: delete a statement, or replace a compound by one of its
    blocks, or drop an optional clause."""
    paths = [(p, s) for p, s in sk.walk(body)]
    paths.sort(key=lambda ps: -sk.size((ps[1],)))
    for p, s in paths:
        yield _edit(body, p, ())
    for p, s in paths:
        for role, b in sk.blocks_of(s):
            if b:
                yield _edit(body, p, b)
        bl = sk.blocks_of(s)
        for j, (role, b) in enumerate(bl):
            if b and role in ("if-else", "while-else", "for-else", "try-else", "finally"):
                nb = [x for _, x in bl]
                nb[j] = ()
                yield _edit(body, p, (sk.rebuild(s, nb),))
        if s[0] == "try" and s[2] is not None and s[4]:
            yield _edit(body, p, (("try", s[1], None, (), s[4]),))
        if s[0] == "with" and s[1] == "S":
            yield _edit(body, p, (("with", "N", s[2]),))
        if s[0] == "wtrue":
            yield _edit(body, p, (("while", s[1], ()),))


def _edit(body, path, replacement):
    """Replace the statement at `path` by the statements `replacement` (spliced)."""

    def go(block, role, depth):
        r, i = path[depth]
        s = block[i]
        if depth == len(path) - 1:
            return tuple(block[:i]) + tuple(replacement) + tuple(block[i + 1:])
        bl = sk.blocks_of(s)
        nr = path[depth + 1][0]
        nb = [go(b, rr, depth + 1) if rr == nr else b for rr, b in bl]
        return tuple(block[:i]) + (sk.rebuild(s, nb),) + tuple(block[i + 1:])

    return go(tuple(body), "top", 0)


def shrink(ctx, mode, body, key):
    budget = SHRINK_BUDGET
    changed = True
    while changed and budget > 0:
        changed = False
        seen = set()
        for cand in _deletions(body):
            if cand in seen or not sk.valid(mode, cand) or not _has_use(cand):
                continue
            seen.add(cand)
            if budget <= 0:
                break
            budget -= 1
            vs = evaluate_batch(ctx, [(mode, cand)], record=False)[0]
            hit = [w for k, w in vs if k == key]
            if hit:
                body = cand
                changed = True
                break
    return body


def _has_use(body) -> bool:
    kinds = [s[0] for _, s in sk.walk(body)]
    return "use" in kinds or ("gdef" in kinds and "gcall" in kinds)


# ---------------------------------------------------------------------------
# driver


def to_json(x):
    if isinstance(x, tuple):
        return [to_json(y) for y in x]
    return x


def from_json(j):
    if isinstance(j, list):
        return tuple(from_json(x) for x in j)
    return j


def run_work(ctx, work, shrunk_per_key) -> None:
    for mode in ("local", "global"):
        part = [w for w in work if w[0] == mode]
        for i in range(0, len(part), BATCH):
            chunk = part[i: i + BATCH]
            results = evaluate_batch(ctx, chunk)
            for (m, body), vs in zip(chunk, results):
                for key, what in vs:
                    ctx.histo("violation_keys", key)
                    if shrunk_per_key.get(key, 0) < SHRINK_PER_KEY:
                        shrunk_per_key[key] = shrunk_per_key.get(key, 0) + 1
                        small = shrink(ctx, m, body, key)
                        ctx.count("witnesses_shrunk")
                        if small != body:
                            vs2 = evaluate_batch(ctx, [(m, small)], record=False)[0]
                            what = next((w for k, w in vs2 if k == key), what)
                        wb = small
                    else:
                        wb = body
                    ctx.violation(key, what, {"mode": m, "skeleton": to_json(wb),
                                              "source": sk.source_text(m, wb), "key": key})


def shard(ctx) -> None:
    work = []
    idx = 0
    for n in range(2, 6):
        for mode in ("local", "global"):
            if mode == "global" and n > 4:
                continue
            g = sk.Gen(mode, 3, nested=True)
            for body in g.blocks(n, 0, False, False, True):
                if not sk.junk_free(mode, body):
                    continue
                idx += 1
                if ctx.mine(idx):
                    work.append((mode, body))
    ctx.count("exhaustive_skeletons", len(work))
    if not ctx.quick:
        want = 2500
        tries = 0
        seen = set()
        while want > 0 and tries < 200000:
            tries += 1
            s = sk.random_skeleton(ctx.rng, ctx.rng.choice((6, 6, 7)), 3)
            if s is None or s in seen or sk.size(s[1]) < 6 or sk.size(s[1]) > 7 or sk.depth(s[1]) > 4:
                continue
            seen.add(s)
            work.append(s)
            want -= 1
        ctx.count("sampled_skeletons", len(seen))
    run_work(ctx, work, {})


def replay(witness):
    from vp.core import Ctx

    ctx = Ctx(ID, "quick", 0, 0, 1)
    mode = witness["mode"]
    body = from_json(witness["skeleton"])
    if not sk.valid(mode, body):
        return None
    vs = evaluate_batch(ctx, [(mode, body)], record=False)[0]
    for h in ctx.violations:  # harness|exception
        return h, ctx.violations[h][0]["what"]
    want = witness.get("key")
    for key, what in vs:
        if key == want:
            return key, what
    for key, what in vs:
        return key, what
    return None
