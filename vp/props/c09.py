"""C09 — name binding: reaching definitions and (possibly) undefined names.

Monitor: every statement skeleton is (a) checked by the real pyanalyze with each `use(v)` spelled
`reveal_type(v)`, (b) executed by CPython under EVERY decision vector of its opaque choices (strict space:
conditions, capped loop continuations, raise-or-return at protected calls; liberal space: additionally a
failpoint before every statement of a protected region and after its last one, `while True` as `while c()`).
Each assignment stores a distinct int literal, so an observed value identifies the assignment that reached.

    strict-observed(use)  must be contained in  reported(use)  must be contained in  strict+liberal-observed(use)

The executions decide; an independent CFG reaching-definitions analysis only cross-checks the harness.
"""
from __future__ import annotations

import ast
import atexit
import json
import os
import re
import shutil
import sys
import tempfile

from vp import harness
from vp import c09_skeletons as sk
from vp.c09_skeletons import UNB

ID = "C09"
LEVEL = "fault_enumeration"
TECHNIQUE = "exhaustive decision-vector / failpoint schedule enumeration of generated skeletons against reveal_type"
RULE = (
    "case = statement skeleton over one variable (v = <distinct literal>, use(v), if/else, while c()/while True "
    "with bound break/for with else, break, continue, try/except E/else/finally, with (suppressing / not), return, "
    "raise, boom(), nested def reading / nonlocal-writing v, global v), checked as a module of its own; quick: "
    "EVERY junk-free skeleton with <=5 statements (global mode <=4) and nesting <=3, sharded by index; thorough: "
    "the same plus 8000 random skeletons per shard with 6-7 statements. Two families beyond those bounds, each "
    "enumerated completely in both tiers. (a) iterable family: the iterable of a `for` is part of the skeleton - the "
    "default `it()` (unknown length), a literal of known length written in the header (`(7, 8)`, `\"ab\"`, `()`), or a "
    "name bound right before the loop in the two arms of an `if c():` to two members (non-empty|unknown, "
    "empty|non-empty, empty|unknown, two non-empty tuples of different lengths), so that the iterable is inferred as a "
    "union; every junk-free local skeleton with <=4 statements that contains a `for` (thorough: also <=5 statements "
    "over asg/use/break/continue/return/if/for/while/while True/try-except/try-finally), each `for` in turn with each "
    "of the 7 kinds. The reference executor runs a literal exactly len() times in the strict space and picks each "
    "member of a union; in the liberal space every iterable is of unknown length. (b) loop-nest family: an inner "
    "for/while whose body and else are built from asg/use/break/continue (a break/continue in the inner else acts on "
    "the OUTER loop), inside the body of a `while True`/while/for (optionally one simple statement before/after the "
    "inner loop and in the outer else), the outer loop in an arm of if / if-else / try-except / try-finally / "
    "suppressing with / the body of another while/for, optionally an assignment before and a use after; <=3 simple "
    "statements in all (4 under `while True`, whose mandatory break takes one; thorough: 4 resp. 5), i.e. 6-7 "
    "statements at nesting 4 (three loops inside each other: <=2^10 runs per exploration). "
    "Junk-free = nothing after a statement that "
    "cannot complete, no trailing return/continue, no repeated use, no dead store outside fault-protected regions, "
    "boom() only where something can intercept it; each tree is generated once (dedupe by shape). Each skeleton is "
    "run under all decision vectors (DFS over the prefix tree, <=18 decisions/run, <=2^14 runs, loops capped per "
    "entry at L=2 and again at L=3; strict then liberal space). Non-trivial = some use site observes >=2 different "
    "outcomes (two assignments along different paths, or an assignment and UNBOUND); distinct by skeleton shape. "
    "A violating (assignment, use) pair is minimised by greedy deletion/unwrapping (<=200 re-checks) and the "
    "mechanism key is read off the minimal witness."
)
LEVEL_TEXT = (
    "fault enumeration: all schedules of opaque decisions and injected faults of each skeleton are executed inside the "
    "stated caps; lower-bound verdicts are real CPython executions, upper-bound verdicts are issued only when the "
    "enumeration completed and the observed sets are identical for loop caps 2 and 3"
)
ASSUMPTIONS = [
    "CPython 3.12 in /venv is the reference executor; an observed (use site, literal) is a real reaching definition",
    "strict space: exception edges only at calls (c(), it(), boom(), use(), cm(), g()) that something can intercept "
    "(try body with handler; try body/handler/else of a try with finally; suppressing with); `while True` as written",
    "liberal space: additionally a raise before every statement of such a region and after its last statement; "
    "every loop may exit after any iteration; exceptions are E (caught by `except E`) or one not caught by it",
    "iterables: in the strict space a literal iterable (tuple, str) yields exactly len() items and a name bound to "
    "one of two members in the arms of `if c():` is either of them (c() may raise where something intercepts it); the "
    "header of such a loop contains no call, so nothing raises there; in the liberal space every iterable is of "
    "unknown length (0..L items), like `it()`",
    "skeletons with three loops inside each other are explored with <=2^10 runs per exploration instead of 2^14 (the "
    "upper bound is then mostly undecided and counted as such; strict runs made still decide the lower bound)",
    "a real execution ends at the first UNBOUND read (CPython raises at a non-call); the run is continued past it "
    "only to widen the upper bound, because a reaching-definitions analysis does not stop at a use",
    "upper bound only when all four explorations (strict/liberal x L=2/3) completed and L=2,3 agree; else undecided",
    "reported(use) = int literals in every reveal_type diagnostic on the use's line (finally bodies are revealed "
    "twice: union) + UNBOUND iff undefined_name/possibly_undefined_name is reported there; a revealed Any that is "
    "not the stand-in for the reported unbound state makes the literal lower bound undecidable (counted)",
    "global mode: the module defines v = 0, so reads observe 0 instead of UNBOUND; in the liberal space f may be "
    "entered with v holding any literal f assigns (an earlier invocation of f)",
    "no upper bound is claimed for reads inside the nested def nor for the literal the nonlocal-writing def stores "
    "(a closure may be called by anything); lower bounds are claimed for both",
    "the CFG reaching-definitions analysis (strict and liberal edge sets) never decides: disagreement with the "
    "executed sets is counted as harness-inconsistent",
]
FLOORS = {
    "quick": {"distinct_nontrivial": 10000, "skeletons": 29000, "schedules_run": 4400000, "uses_observed": 46000,
              "upper_decided": 27000, "lower_checks": 36000, "upper_checks": 30000,
              "iter_skeletons": 1250, "nest_skeletons": 3100},
    "thorough": {"distinct_nontrivial": 29000, "skeletons": 88000, "schedules_run": 18000000, "uses_observed": 188000,
                 "upper_decided": 84000, "lower_checks": 128000, "upper_checks": 131000,
                 "iter_skeletons": 22000, "nest_skeletons": 18000},
}
NSHARDS = 16
WATCHDOG_S = {"quick": 2400, "thorough": 7200}  # ~35 CPU-s / ~170 CPU-s per shard; wall only ever => inconclusive
# One module per skeleton (pa_reports is only ever given one): `global v`, and a `nonlocal v` whose binding comes
# later, write to the MODULE scope, so skeletons sharing a module contaminate each other (seen: Literal[1] revealed
# for a use before any assignment, because another function's nested def had "assigned" the module's v).
MAX_DEC = 18
MAX_RUNS = 1 << 14
NEST3_MAX_RUNS = 1 << 10
SHRINK_BUDGET = 200
SAMPLED_PER_SHARD = 8000

_LIT_RE = re.compile(r"Literal\[(-?\d+(?:, -?\d+)*)\]$")


# ---------------------------------------------------------------------------
# pyanalyze side


class Report:
    __slots__ = ("lits", "any", "other", "undef", "possibly", "revealed")

    def __init__(self):
        self.lits = set()
        self.any = False
        self.other = False
        self.undef = False
        self.possibly = False
        self.revealed = []

    @property
    def unbound(self):
        return self.undef or self.possibly

    def show(self) -> str:
        flags = [n for n, f in (("undefined_name", self.undef), ("possibly_undefined_name", self.possibly)) if f]
        return f"{' / '.join(self.revealed) or '<nothing revealed>'}{' + ' + '+'.join(flags) if flags else ''}"


def parse_revealed(text: str, rep: Report) -> None:
    parts = [p.strip() for p in text.split(" | ")]
    for p in parts:
        m = _LIT_RE.match(p)
        if m:
            rep.lits.update(int(x) for x in m.group(1).split(", "))
        elif p == "Any[error]":
            rep.any = True  # resolved against the undefined reports in finish()
        elif p.startswith("Any"):
            rep.other = True
        elif p == "Never":
            pass
        else:
            rep.other = True


_PRELUDE_MOD = []


def _prelude_module() -> str:
    """The helpers every skeleton calls live in a real module on disk (imported, not re-checked per case)."""
    if not _PRELUDE_MOD:
        d = os.environ.get("VERIF_SCRATCH")
        if not d or not os.path.isdir(d):
            d = tempfile.mkdtemp(prefix="verif-C09-")
            atexit.register(shutil.rmtree, d, True)
        name = f"c09_prelude_{os.getpid()}"  # the scratch directory is shared by all shards
        with open(os.path.join(d, name + ".py"), "w") as f:
            f.write(sk.PRELUDE_PLAIN)
        sys.path.insert(0, d)
        _PRELUDE_MOD.append(name)
    return _PRELUDE_MOD[0]


def pa_reports(skels):
    """skels: list of (mode, body), all of one mode. -> (list of {site: Report}, other-code histogram, exception)."""
    mode = skels[0][0]
    lines = [f"from {_prelude_module()} import E, c, it, boom, CmS, CmN"]
    if mode == "global":
        lines.append("v = 0")
    where = {}  # absolute 1-based line -> (skeleton index, site)
    span = []
    for i, (m, body) in enumerate(skels):
        fl, site_line = sk.render_plain(m, body, name=f"f{i}")
        base = len(lines)
        for rel, site in site_line.items():
            where[base + rel + 1] = (i, site)
        span.append((base + 1, base + len(fl)))
        lines += fl
    source = "\n".join(lines) + "\n"
    res = harness.run(source)
    reports = [dict() for _ in skels]
    for i, (m, body) in enumerate(skels):
        for site in sk.number(body)[1].values():
            reports[i][site] = Report()
    other = {}
    for d in res.diags:
        hit = where.get(d.lineno)
        if d.code == "reveal_type" and hit:
            mm = re.match(r"Revealed type is '?(.*?)'?$", d.description, re.S)
            text = mm.group(1) if mm else d.description
            rep = reports[hit[0]][hit[1]]
            rep.revealed.append(text)
            parse_revealed(text, rep)
        elif d.code == "undefined_name" and hit:
            reports[hit[0]][hit[1]].undef = True
        elif d.code == "possibly_undefined_name" and hit:
            reports[hit[0]][hit[1]].possibly = True
        else:
            other[d.code] = other.get(d.code, 0) + 1
    for r in reports:
        for rep in r.values():
            # Any[error] is what resolve_name substitutes for the reported unbound state
            if rep.any and rep.unbound:
                rep.any = False
            if rep.any:
                rep.other = True
    return reports, other, res.exception


# ---------------------------------------------------------------------------
# execution side


class Runs:
    __slots__ = ("strict", "upper", "decided", "why_undecided", "nruns", "use_events", "inconsistent", "errors",
                 "reached")


def execute(mode, body, max_runs: int = 0) -> Runs:
    MAX_RUNS = max_runs or globals()["MAX_RUNS"]
    ns = sk.compile_instr(mode, body)
    out = Runs()
    real = {}
    allobs = {}
    complete = True
    out.nruns = 0
    out.use_events = 0
    out.errors = []
    for L, liberal in ((2, False), (3, False), (2, True), (3, True)):
        if liberal and L == 3 and not complete:
            # the upper bound is already undecided; the lower bound only needs the strict runs
            real[(L, liberal)] = real[(2, True)]
            allobs[(L, liberal)] = allobs[(2, True)]
            continue
        o, z, runs, comp, ue, errs = sk.explore(ns, L, liberal, MAX_DEC, MAX_RUNS)
        real[(L, liberal)] = o
        allobs[(L, liberal)] = o | z
        complete = complete and comp
        out.nruns += runs
        out.use_events += ue
        out.errors += errs
    out.strict = real[(2, False)] | real[(3, False)]
    up2 = allobs[(2, False)] | allobs[(2, True)]
    up3 = allobs[(3, False)] | allobs[(3, True)]
    out.upper = up2 | up3
    out.why_undecided = None
    if not complete:
        out.why_undecided = "truncated"
    elif up2 != up3 or real[(2, False)] != real[(3, False)]:
        out.why_undecided = "not-saturated"
    out.decided = out.why_undecided is None
    out.reached = {s for s, _ in out.upper}
    # harness cross-check against the independent CFG analysis
    inc = []
    if out.errors:
        inc.append("exec-error:" + out.errors[0])
    cs = sk.cfg_reaching(mode, body, False, True)
    cl = sk.cfg_reaching(mode, body, True, False)
    if not out.strict <= cs:
        inc.append(f"strict-executed-not-in-cfg:{sorted(out.strict - cs, key=repr)}")
    if not allobs[(2, False)] <= allobs[(2, True)] or (complete and not allobs[(3, False)] <= allobs[(3, True)]):
        inc.append("strict-not-subset-of-liberal")
    if not cs <= cl:
        inc.append("cfg-strict-not-in-cfg-liberal")
    if not out.upper <= cl:
        inc.append(f"liberal-executed-not-in-cfg:{sorted(out.upper - cl, key=repr)}")
    if out.decided:
        if out.strict != cs:
            inc.append(f"cfg-strict-not-executed:{sorted(cs - out.strict, key=repr)}")
        if out.upper != cl:
            inc.append(f"cfg-liberal-not-executed:{sorted(cl - out.upper, key=repr)}")
    out.inconsistent = inc
    return out


# ---------------------------------------------------------------------------
# verdicts: raw violations (side, site, literal|None, message)


def judge(mode, body, reports, runs: Runs, stats=None):
    out = []

    def bump(name):
        if stats is not None:
            stats[name] = stats.get(name, 0) + 1

    lits, sites = sk.number(body)
    stmt_at = dict(sk.walk(body))
    # a nested function may be called by anything that gets hold of it: no upper bound is claimed for reads
    # inside `g` nor for the literal `h` writes
    closure_sites = {s for p, s in sites.items() if stmt_at[p][0] == "gdef"}
    closure_lits = {k for p, k in lits.items() if stmt_at[p][0] == "hdef"}
    # lower bound: every strict-space observation is a real execution
    for site, x in sorted(runs.strict, key=repr):
        rep = reports[site]
        if not rep.revealed:
            bump("use_without_reveal")
            continue
        bump("lower_checks")
        if x == UNB:
            if not rep.unbound:
                out.append(("lower", site, None,
                            f"use #{site} executes with v UNBOUND under a strict schedule; pyanalyze: {rep.show()}"))
        elif x not in rep.lits:
            if rep.other:
                bump("lower_undecidable_any")
                continue
            out.append(("lower", site, x, f"use #{site} reads {x} under a strict schedule; pyanalyze: {rep.show()}"))
    # upper bound: only when the whole liberal space was executed and saturated
    if runs.decided:
        for site, rep in sorted(reports.items()):
            if site not in runs.reached or not rep.revealed:
                bump("upper_site_unreached")
                continue
            if site in closure_sites:
                bump("upper_not_claimed_closure_read")
                continue
            bump("upper_checks")
            for k in sorted(rep.lits):
                if k in closure_lits:
                    continue
                if (site, k) not in runs.upper:
                    out.append(("upper", site, k, f"pyanalyze: {rep.show()} at use #{site}, but no strict or liberal "
                                                  f"schedule reads {k} there"))
            if rep.unbound and (site, UNB) not in runs.upper:
                out.append(("upper", site, None, f"pyanalyze: {rep.show()} at use #{site}, but v is bound there under "
                                                 f"every strict and liberal schedule"))
    return out


class Assessment:
    __slots__ = ("raws", "runs", "reports", "other", "exception", "stats")


_CACHE: dict = {}


def assess(mode, body, full: bool = True, max_runs: int = 0) -> Assessment:
    """pyanalyze + all executions + verdicts for one (unmarked) skeleton.  Pure in (mode, body, max_runs); the raw
    verdicts are memoised (minimisation re-checks the same small skeletons over and over).  A smaller max_runs
    only ever yields a subset of the verdicts of the default one (fewer strict runs; upper bound undecided)."""
    key = (mode, body, max_runs)
    if not full and key in _CACHE:
        a = Assessment()
        a.raws = _CACHE[key]
        return a
    a = Assessment()
    reports, a.other, a.exception = pa_reports([(mode, body)])
    a.reports = reports[0]
    a.stats = {}
    if a.exception is not None:
        a.runs = None
        a.raws = []
    else:
        a.runs = execute(mode, body, max_runs)
        # the harness disagreeing with itself on this skeleton: no verdict
        a.raws = [] if a.runs.inconsistent else judge(mode, body, a.reports, a.runs, a.stats)
    if len(_CACHE) > 1000000:
        _CACHE.clear()
    _CACHE[key] = a.raws
    return a


# ---------------------------------------------------------------------------
# witness minimisation: the violating (assignment, use) pair is marked and everything else is cut away while
# the same pair keeps violating the same way; the mechanism key is read off the MINIMAL witness.


def strip(body):
    return tuple(
        (s[0],) if s[0] in sk.SIMPLE else sk.rebuild(s, [strip(b) for _, b in sk.blocks_of(s)]) for s in body
    )


def mark(body, path, tag):
    return _edit(body, path, ((dict(sk.walk(body))[path][0], tag),))


def marked(body, tag):
    return [p for p, s in sk.walk(body) if len(s) == 2 and s[0] in sk.SIMPLE and s[1] == tag]


def _unassigned(lit):
    return None if lit in (0, None) else lit  # global mode: the module's 0 is the "not assigned by f" state


def still_violates(mode, mbody, side, kind):
    """Does the marked pair of the marked skeleton still violate on the same side in the same way?"""
    pu = marked(mbody, "U")
    pa = marked(mbody, "A")
    if len(pu) != 1 or (kind == "literal" and len(pa) != 1):
        return None
    body = strip(mbody)
    if not sk.valid(mode, body) or not sk.tidy(body):
        return None
    lits, sites = sk.number(body)
    site = sites[pu[0]]
    want = lits[pa[0]] if kind == "literal" else None
    for s_, site_, lit_, msg in assess(mode, body, full=False).raws:
        if s_ == side and site_ == site and _unassigned(lit_) == want:
            return msg
    return None


def _deletions(body):
    """Candidate smaller bodies, biggest cuts first: delete a statement, replace a compound by one of its
    blocks, drop an optional clause, weaken a construct."""
    paths = [(p, s) for p, s in sk.walk(body)]
    paths.sort(key=lambda ps: -sk.size((ps[1],)))
    for p, s in paths:
        yield _edit(body, p, ())
    for p, s in paths:
        bl = sk.blocks_of(s)
        for role, b in bl:
            if b:
                yield _edit(body, p, b)
        if len([b for _, b in bl if b]) > 1:  # the blocks one after the other, without the construct
            seq = []
            for _, b in bl:
                if seq and not sk.block_completes(tuple(seq)):
                    break
                seq += list(b)
            yield _edit(body, p, tuple(seq))
        for j, (role, b) in enumerate(bl):
            if b and role in ("if-else", "while-else", "for-else", "try-else", "finally"):
                nb = [x for _, x in bl]
                nb[j] = ()
                yield _edit(body, p, (sk.rebuild(s, nb),))
        if s[0] == "try" and s[2] is not None and s[4] and not s[3]:
            yield _edit(body, p, (("try", s[1], None, (), s[4]),))
        if s[0] == "with" and s[1] == "S":
            yield _edit(body, p, (("with", "N", s[2]),))
        if s[0] == "wtrue":
            yield _edit(body, p, (("while", s[1], ()),))
        if s[0] == "for":
            kind = sk.iter_kind(s)
            if kind:  # the plain `it()` header, then each member of a union on its own
                yield _edit(body, p, (s[:3],))
                if len(sk.ITER_MEMBERS[kind]) > 1:
                    for k2, mem in sk.ITER_MEMBERS.items():
                        if len(mem) == 1 and mem[0] in sk.ITER_MEMBERS[kind]:
                            yield _edit(body, p, (s[:3] + (k2,),))
            yield _edit(body, p, (("while", s[1], s[2]),))


def _edit(body, path, replacement):
    """Replace the statement at `path` by the statements `replacement` (spliced)."""

    def go(block, depth):
        r, i = path[depth]
        s = block[i]
        if depth == len(path) - 1:
            return tuple(block[:i]) + tuple(replacement) + tuple(block[i + 1:])
        nr = path[depth + 1][0]
        nb = [go(b, depth + 1) if rr == nr else b for rr, b in sk.blocks_of(s)]
        return tuple(block[:i]) + (sk.rebuild(s, nb),) + tuple(block[i + 1:])

    return go(tuple(body), 0)


_SHRUNK: dict = {}


def shrink(mode, mbody, side, kind):
    """Greedy; <= SHRINK_BUDGET re-checks. -> (mode, marked body, message)."""
    memo_key = (mode, mbody, side, kind)
    if memo_key in _SHRUNK:
        return _SHRUNK[memo_key]
    budget = SHRINK_BUDGET
    msg = still_violates(mode, mbody, side, kind)
    changed = True
    while changed and budget > 0:
        changed = False
        cands = [(mode, c) for c in _deletions(mbody)]
        if mode == "global":
            cands.insert(0, ("local", mbody))
        seen = set()
        for m2, cand in cands:
            if (m2, cand) in seen or not cand:
                continue
            seen.add((m2, cand))
            if budget <= 0:
                break
            budget -= 1
            got = still_violates(m2, cand, side, kind)
            if got is not None:
                mode, mbody, msg = m2, cand, got
                changed = True
                break
    _SHRUNK[memo_key] = (mode, mbody, msg)
    return mode, mbody, msg


# ---------------------------------------------------------------------------
# mechanism key (DESIGN Appendix A): side, (construct of the assignment, construct of the use), unbound|literal

_ROLE = {"while-body": "loop-body", "for-body": "loop-body", "while-else": "loop-else", "for-else": "loop-else"}


# blocks of one compound statement between which control flows forward; (loop-else, loop-body) is kept by
# name as well although nothing flows that way: it is the shape of a known leak
_FORWARD = {("try-body", "except"), ("try-body", "try-else"), ("try-body", "finally"), ("except", "finally"),
            ("try-else", "finally"), ("loop-body", "loop-else")}


def _role(r: str) -> str:
    return _ROLE.get(r, r)


def _loop_of(path) -> str:
    for r, _ in reversed(path):
        if r in ("while-body", "for-body", "wtrue-body"):
            return _role(r)
    return "none"


def _common(pa, pu) -> int:
    i = 0
    while i < len(pa) and i < len(pu) and pa[i] == pu[i]:
        i += 1
    return i


def _falls_through(body, path) -> bool:
    """Can the block that holds the statement at `path` complete normally?"""
    block = body
    for d, (role, idx) in enumerate(path):
        if d == len(path) - 1:
            return sk.block_completes(block)
        block = dict(sk.blocks_of(block[idx]))[path[d + 1][0]]
    return True


KEY_DEPTH = 1  # how many constructs below the common ancestor name each side (deeper = finer keys, but the
# variants of one defect multiply and the key set of a sampled run stops being the same for every seed)


def _chain(path, through: bool = False) -> str:
    """Name of one side: the first construct below the common ancestor.  With `through` (upper-bound keys), a
    loop block further down that side names it instead: `while ...: v = 1 \n else: return` must sit in an
    if/try/with for what follows to stay reachable, and that wrapper is not the mechanism."""
    roles = [_role(r) for r, _ in path]
    loops = [r for r in roles[1:] if r in ("loop-body", "loop-else", "wtrue-body")]
    if through and roles and roles[0] not in ("loop-body", "loop-else", "wtrue-body") and loops:
        return loops[0]
    return "/".join(roles[:KEY_DEPTH]) or "plain"


def relation(pa, pu, body=None, through: bool = False) -> str:
    """How the assignment at path pa sits relative to the use at path pu in a MINIMAL witness: the chains of
    constructs below their lowest common ancestor.  `while` and `for` share their else / second-visit handling
    in pyanalyze and are both called `loop`; `while True` takes another path there."""
    i = _common(pa, pu)
    if pa[i][0] == pu[i][0]:  # same block, different statements
        if pa[i][1] < pu[i][1]:
            if (len(pa) > i + 1 and body is not None
                    and pa[i + 1][0] in ("if-body", "if-else", "while-else", "for-else")
                    and not _falls_through(body, pa[: i + 2])):
                # e.g. `if c(): v = 1; break` then the use; likewise the else of an inner loop ending in a
                # break/continue (which act on the loop around it): only the back edge leads to the use
                return f"back-edge@{_loop_of(pa[: i + 1])}"
            return f"{_chain(pa[i + 1:], through)}>after"
        return f"back-edge@{_loop_of(pa[: i + 1])}"  # the assignment is textually after the use
    a, u = _role(pa[i][0]), _role(pu[i][0])  # different blocks of one compound statement
    if (a, u) in _FORWARD or (a, u) == ("loop-else", "loop-body"):
        return f"{_chain(pa[i:], through)}>{_chain(pu[i:], through)}"
    return f"back-edge@{_loop_of(pa[:i])}"  # e.g. if-body -> if-else: only around an enclosing loop


def mech_key(mode, mbody, side, kind) -> str:
    """Key of a MINIMAL marked witness."""
    pu = marked(mbody, "U")[0]
    stmt_at = dict(sk.walk(mbody))
    if stmt_at[pu][0] == "gdef":
        return f"{side}|{kind}|nested-def-read"
    asgs = [p for p, s in sk.walk(mbody) if s[0] in ("asg", "hdef")]
    pre = "global:" if mode == "global" else ""
    if any(stmt_at[p][0] == "hdef" for p in asgs):
        # the minimal witness needs the nonlocal-writing nested def: that is the mechanism
        return f"{side}|{kind}|nonlocal-def"
    if kind == "literal":
        return f"{side}|{kind}|{pre}{relation(marked(mbody, 'A')[0], pu, strip(mbody), side == 'upper')}"
    # unbound: no single assignment is to blame; name the construct the use sits in
    return f"{side}|{kind}|{pre}use@{_chain(pu[1:], side == 'upper')}"


def classify(mode, body, raw):
    """raw violation of an unmarked skeleton -> (key, what, witness)."""
    side, site, lit, msg = raw
    kind = "unbound" if _unassigned(lit) is None else "literal"
    lits, sites = sk.number(body)
    pu = next(p for p, s in sites.items() if s == site)
    mbody = mark(body, pu, "U")
    if kind == "literal":
        pa = next(p for p, k in lits.items() if k == lit)
        mbody = mark(mbody, pa, "A")
    m2, small, msg2 = shrink(mode, mbody, side, kind)
    sbody = strip(small)
    # the constructs the MINIMAL witness still needs are part of the mechanism: two defects that put an assignment and
    # a use in the same pair of places (e.g. loop body -> loop else) but need different constructs to do so
    # (try/finally + continue vs. a plain continue) must not share a key
    key = mech_key(m2, small, side, kind)
    if not key.endswith(("|nested-def-read", "|nonlocal-def")):  # closures: one by-design mechanism each
        key += "|needs:" + ",".join(features(sbody))
    text = sk.source_text(m2, sbody)
    return key, f"{msg2 or msg}\n{text}", {"mode": m2, "skeleton": json.dumps(to_json(sbody)), "source": text,
                                             "key": key}


def _feature(s) -> str:
    if s[0] == "with":
        return "with" + s[1]
    if s[0] == "for" and sk.iter_kind(s):
        # the iterable is part of the mechanism: members by known length / unknown, e.g. for[2|?]
        return "for[" + "|".join(sorted({str(sk.MEMBER_LEN.get(m, "?")) for m in sk.ITER_MEMBERS[sk.iter_kind(s)]})) + "]"
    return s[0]


def features(body):
    return sorted({_feature(s) for _, s in sk.walk(body)} - {"asg", "use"})


def to_json(x):
    if isinstance(x, tuple):
        return [to_json(y) for y in x]
    return x


_VOCAB = set(sk.SIMPLE) | {"if", "while", "wtrue", "for", "try", "with", "S", "N"} | set(sk.ITER_MEMBERS)


def from_json(j):
    """Inverse of to_json.  Also accepts the skeleton as a JSON string (what witnesses carry: core.jsonable
    repr()s anything nested deeper than 8 levels) and repairs such repr()ed leaves in older witnesses."""
    if isinstance(j, str) and j not in _VOCAB:
        try:
            return from_json(json.loads(j))
        except ValueError:
            return from_json(ast.literal_eval(j))
    if isinstance(j, (list, tuple)):
        return tuple(from_json(x) for x in j)
    return j


# ---------------------------------------------------------------------------
# driver


def run_one(ctx, mode, body, sampled: bool = False, max_runs: int = 0) -> None:
    a = assess(mode, body, max_runs=max_runs)
    ctx.count("evaluations")
    ctx.count("skeletons")
    if a.exception is not None:
        ctx.violation("harness|exception", f"check raised {a.exception!r}\n{sk.source_text(mode, body)}",
                      {"mode": mode, "skeleton": json.dumps(to_json(body)), "source": sk.source_text(mode, body)})
        return
    runs, rep = a.runs, a.reports
    for name, n in a.stats.items():
        ctx.count(name, n)
    for code, n in a.other.items():
        ctx.histo("other_codes", code, n)
    ctx.count("schedules_run", runs.nruns)
    ctx.count("use_events", runs.use_events)
    ctx.count("uses_observed", len(runs.upper))
    ctx.count("upper_decided" if runs.decided else "upper_undecided")
    if not runs.decided:
        ctx.histo("upper_undecided_why", runs.why_undecided)
        if runs.why_undecided == "not-saturated":
            ctx.note(f"not saturated at L=3: {sk.source_text(mode, body)!r}")
    if runs.inconsistent:
        ctx.count("harness_inconsistent")
        ctx.note(f"harness-inconsistent: {runs.inconsistent[0][:160]} :: {sk.source_text(mode, body)!r}"[:600])
    ctx.histo("size", f"{mode}:{sk.size(body)}")
    for f in features(body):
        ctx.histo("constructs", f)
    per_site = {}
    for s, x in runs.upper:
        per_site.setdefault(s, set()).add(x)
    nontrivial = any(len(v) >= 2 for v in per_site.values())
    if nontrivial:
        ctx.nontrivial((mode, body))
    ctx.histo("max_outcomes_per_use", str(max((len(v) for v in per_site.values()), default=0)))
    for r in rep.values():
        ctx.histo("reported", ("unbound+" if r.unbound else "") + (f"{len(r.lits)}lit" if not r.other else "any"))
    if len(ctx.samples) < 3 and sk.size(body) >= 4 and nontrivial:
        ctx.sample({"source": sk.source_text(mode, body),
                    "strict": sorted(runs.strict, key=repr), "strict+liberal": sorted(runs.upper, key=repr),
                    "pyanalyze": {str(s): r.show() for s, r in rep.items()}, "schedules": runs.nruns})
    done = set()
    for raw in a.raws:
        ctx.count("raw_violations")
        key, what, wit = classify(mode, body, raw)
        if sampled:
            # a violation of a randomly sampled 6-7 statement skeleton whose MINIMAL witness lies inside the
            # exhaustively enumerated space (<= 5 statements, nesting <= 3; global mode <= 4) is the very witness the
            # exhaustive part of this run reports with its exact key: nothing new. Only a witness that does not shrink
            # into that space is new information; its key stays coarse (no needs:), because the construct sets of large
            # random skeletons are too varied to enumerate.
            small = strip(from_json(wit["skeleton"]))
            inside = sk.size(small) <= (4 if wit["mode"] == "global" else 5) and sk.depth(small) <= 3
            if inside:
                ctx.count("sampled_violations_already_covered_by_exhaustive_part")
                continue
            key = key.split("|needs:")[0] + "|minimal-witness-larger-than-exhaustive-space"
            wit["key"] = key
        if key in done:
            continue
        done.add(key)
        ctx.histo("violation_keys", key)
        ctx.violation(key, what, wit)


def shard(ctx) -> None:
    work = []
    idx = 0
    for n in range(2, 6):
        for mode in ("local", "global"):
            if mode == "global" and n > 4:
                continue
            g = sk.Gen(mode, 3, nested=True)
            for body in g.blocks(n, 0, False, False, True):
                if not sk.junk_free(mode, body):
                    continue
                idx += 1
                if ctx.mine(idx):
                    work.append((mode, body))
    ctx.count("exhaustive_skeletons", len(work))
    # targeted families beyond those bounds (each enumerated completely, sharded by the same running index)
    fam = []
    for mode, body in sk.iter_family(4, ctx.pick(4, 5)):
        idx += 1
        if ctx.mine(idx):
            fam.append(("iter", mode, body))
    for mode, body in sk.nest_family(ctx.pick(3, 4)):
        idx += 1
        if ctx.mine(idx):
            fam.append(("nest", mode, body))
    if not ctx.quick:
        want = SAMPLED_PER_SHARD
        tries = 0
        seen = set()
        while want > 0 and tries < 40 * SAMPLED_PER_SHARD:
            tries += 1
            s = sk.random_skeleton(ctx.rng, ctx.rng.choice((6, 6, 7, 7)), 3)
            if s is None or s in seen or not 6 <= sk.size(s[1]) <= 7 or sk.depth(s[1]) > 4:
                continue
            seen.add(s)
            want -= 1
        ctx.count("sampled_skeletons", len(seen))
    for mode, body in work:
        run_one(ctx, mode, body)
    for which, mode, body in fam:
        ctx.count(which + "_skeletons")
        if which == "iter":
            for _, s in sk.walk(body):
                if s[0] == "for" and sk.iter_kind(s):
                    ctx.histo("iterable_kind", "|".join(sk.MEMBER_SRC[m] for m in sk.ITER_MEMBERS[sk.iter_kind(s)]))
            run_one(ctx, mode, body)
        else:
            deep = sk.loop_nesting(body) >= 3
            ctx.histo("nest_shape", sk.nest_shape(body))
            # three loops inside each other: the schedule space is cut at NEST3_MAX_RUNS (the upper bound is then
            # mostly undecided; every strict run that was made still counts for the lower bound)
            run_one(ctx, mode, body, max_runs=NEST3_MAX_RUNS if deep else 0)
    if not ctx.quick:
        for mode, body in sorted(seen, key=repr):
            run_one(ctx, mode, body, sampled=True)
    ctx.count("shrink_memo", len(_SHRUNK))
    ctx.count("assess_memo", len(_CACHE))


def replay(witness):
    mode = witness["mode"]
    body = strip(from_json(witness["skeleton"]))
    if not sk.valid(mode, body):
        return None
    a = assess(mode, body)
    if a.exception is not None:
        return "harness|exception", f"check raised {a.exception!r}"
    found = [classify(mode, body, raw)[:2] for raw in a.raws]
    want = witness.get("key")
    BIG = "|minimal-witness-larger-than-exhaustive-space"
    if want and want.endswith(BIG):
        found = [(key.split("|needs:")[0] + BIG, what) for key, what in found]
    for key, what in found:
        if key == want:
            return key, what
    for key, what in found:
        return key, what
    return None
